//! Engine E3 — isolated sweep. Cases are streamed to a pool of worker subprocesses (the
//! same binary re-executed with `--worker`), so that a case that aborts the process
//! (allocation failure, stack overflow, abort()) or never returns is attributed to
//! exactly that case and the sweep continues.
//!
//! Protocol: one case per line on the worker's stdin; for each case exactly one reply
//! line on stdout, in order. Reply = `ok <payload>` | `panic <file:line>|<msg>`, preceded
//! by `<max_alloc_request> `. A worker that dies before replying is blamed on the first
//! unanswered case of the in-flight batch; the rest of the batch is resubmitted.

use std::io::{BufRead, BufReader, Read, Write};
use std::path::Path;
use std::process::{Child, ChildStdin, ChildStdout, Command, Stdio};
use std::sync::atomic::{AtomicBool, AtomicU64, Ordering};
use std::sync::{Arc, Mutex};
use std::time::{Duration, Instant};

#[derive(Debug, Clone)]
pub enum Status {
    /// worker replied; (max single allocation request during the case, payload)
    Ok { max_alloc: u64, payload: String },
    Panic { max_alloc: u64, location: String, message: String },
    /// process died while running this case
    Died { how: String, refused_alloc: Option<u64>, stderr_tail: String },
    /// no reply within the watchdog period; worker was killed
    Timeout,
}

struct Worker {
    child: Arc<Mutex<Child>>,
    stdin: ChildStdin,
    stdout: BufReader<ChildStdout>,
    stderr: Arc<Mutex<Vec<u8>>>,
    killed_by_watchdog: Arc<AtomicBool>,
    last_progress: Arc<AtomicU64>,
    alive: Arc<AtomicBool>,
}

fn now_ms(epoch: Instant) -> u64 {
    epoch.elapsed().as_millis() as u64
}

fn spawn_worker(exe: &Path, args: &[String], epoch: Instant, watchdog: Duration) -> Worker {
    let mut child = Command::new(exe)
        .arg("--worker")
        .args(args)
        .stdin(Stdio::piped())
        .stdout(Stdio::piped())
        .stderr(Stdio::piped())
        .spawn()
        .expect("spawn worker");
    let stdin = child.stdin.take().unwrap();
    let stdout = BufReader::with_capacity(1 << 16, child.stdout.take().unwrap());
    let mut stderr_pipe = child.stderr.take().unwrap();
    let stderr = Arc::new(Mutex::new(Vec::new()));
    let stderr2 = stderr.clone();
    std::thread::spawn(move || {
        let mut buf = [0u8; 4096];
        loop {
            match stderr_pipe.read(&mut buf) {
                Ok(0) | Err(_) => break,
                Ok(n) => {
                    let mut g = stderr2.lock().unwrap();
                    g.extend_from_slice(&buf[..n]);
                    let len = g.len();
                    if len > 16384 {
                        g.drain(..len - 8192);
                    }
                }
            }
        }
    });
    let child = Arc::new(Mutex::new(child));
    let killed = Arc::new(AtomicBool::new(false));
    let last = Arc::new(AtomicU64::new(now_ms(epoch)));
    let alive = Arc::new(AtomicBool::new(true));
    {
        let child = child.clone();
        let killed = killed.clone();
        let last = last.clone();
        let alive = alive.clone();
        std::thread::spawn(move || {
            while alive.load(Ordering::Relaxed) {
                std::thread::sleep(Duration::from_millis(100));
                let idle = now_ms(epoch).saturating_sub(last.load(Ordering::Relaxed));
                // u64::MAX marks "not waiting for a reply"
                if last.load(Ordering::Relaxed) != u64::MAX && idle > watchdog.as_millis() as u64 {
                    killed.store(true, Ordering::Relaxed);
                    let _ = child.lock().unwrap().kill();
                    break;
                }
            }
        });
    }
    Worker {
        child,
        stdin,
        stdout,
        stderr,
        killed_by_watchdog: killed,
        last_progress: last,
        alive,
    }
}

impl Worker {
    fn shutdown(self) {
        self.alive.store(false, Ordering::Relaxed);
        drop(self.stdin);
        let _ = self.child.lock().unwrap().wait();
    }
    fn post_mortem(self) -> (String, Option<u64>, String, bool) {
        self.alive.store(false, Ordering::Relaxed);
        let st = self.child.lock().unwrap().wait();
        // give the stderr thread a moment to drain
        std::thread::sleep(Duration::from_millis(20));
        let err = String::from_utf8_lossy(&self.stderr.lock().unwrap()).to_string();
        let refused = err
            .lines()
            .rev()
            .find_map(|l| l.strip_prefix("CAPALLOC refused ").and_then(|n| n.trim().parse::<u64>().ok()));
        let how = match st {
            Ok(s) => {
                use std::os::unix::process::ExitStatusExt;
                if let Some(sig) = s.signal() {
                    format!("signal {}", sig)
                } else {
                    format!("exit {:?}", s.code())
                }
            }
            Err(e) => format!("wait error {}", e),
        };
        let tail: String = err.lines().rev().take(4).collect::<Vec<_>>().into_iter().rev().collect::<Vec<_>>().join(" / ");
        (how, refused, tail.chars().take(300).collect(), self.killed_by_watchdog.load(Ordering::Relaxed))
    }
}

fn parse_reply(line: &str) -> Option<Status> {
    let line = line.trim_end_matches('\n');
    let (alloc, rest) = line.split_once(' ')?;
    let max_alloc = alloc.parse::<u64>().ok()?;
    if let Some(p) = rest.strip_prefix("ok ") {
        Some(Status::Ok { max_alloc, payload: p.to_string() })
    } else if rest == "ok" {
        Some(Status::Ok { max_alloc, payload: String::new() })
    } else if let Some(p) = rest.strip_prefix("panic ") {
        let (loc, msg) = p.split_once('|').unwrap_or((p, ""));
        Some(Status::Panic { max_alloc, location: loc.to_string(), message: msg.to_string() })
    } else {
        None
    }
}

pub struct PoolStats {
    pub cases: u64,
    pub respawns: u64,
}

/// Run every case produced by `next_batch` (which must be cheap and thread-safe; returns
/// an empty vector when exhausted) through a pool of `n` workers. `handle` is called once
/// per case with its status. Returns pool statistics; `Err` on a machinery failure
/// (malformed reply, worker that dies on spawn).
pub fn run_pool<C, NB, H>(
    exe: &Path,
    worker_args: &[String],
    n: usize,
    watchdog: Duration,
    next_batch: NB,
    encode: impl Fn(&C) -> String + Sync,
    handle: H,
) -> Result<PoolStats, String>
where
    C: Send,
    NB: Fn() -> Vec<C> + Sync,
    H: Fn(&C, Status) + Sync,
{
    let epoch = Instant::now();
    let cases_done = AtomicU64::new(0);
    let respawns = AtomicU64::new(0);
    let failure: Mutex<Option<String>> = Mutex::new(None);
    std::thread::scope(|scope| {
        for _ in 0..n {
            scope.spawn(|| {
                let mut worker: Option<Worker> = None;
                loop {
                    if failure.lock().unwrap().is_some() {
                        break;
                    }
                    let batch = next_batch();
                    if batch.is_empty() {
                        break;
                    }
                    let mut start = 0usize;
                    let mut consecutive_spawn_deaths = 0;
                    while start < batch.len() {
                        if worker.is_none() {
                            worker = Some(spawn_worker(exe, worker_args, epoch, watchdog));
                        }
                        let w = worker.as_mut().unwrap();
                        // write the remaining cases of this batch
                        let mut text = String::new();
                        for c in &batch[start..] {
                            let l = encode(c);
                            debug_assert!(!l.contains('\n'));
                            text.push_str(&l);
                            text.push('\n');
                        }
                        w.last_progress.store(now_ms(epoch), Ordering::Relaxed);
                        let write_ok = w.stdin.write_all(text.as_bytes()).and_then(|_| w.stdin.flush()).is_ok();
                        let mut died_at: Option<usize> = None;
                        let mut i = start;
                        while i < batch.len() {
                            let mut line = String::new();
                            let got = w.stdout.read_line(&mut line).unwrap_or(0);
                            if got == 0 {
                                died_at = Some(i);
                                break;
                            }
                            w.last_progress.store(now_ms(epoch), Ordering::Relaxed);
                            match parse_reply(&line) {
                                Some(st) => {
                                    handle(&batch[i], st);
                                    cases_done.fetch_add(1, Ordering::Relaxed);
                                    consecutive_spawn_deaths = 0;
                                }
                                None => {
                                    *failure.lock().unwrap() =
                                        Some(format!("malformed worker reply: {:?}", line.chars().take(120).collect::<String>()));
                                    return;
                                }
                            }
                            i += 1;
                        }
                        w.last_progress.store(u64::MAX, Ordering::Relaxed);
                        let _ = write_ok;
                        if let Some(k) = died_at {
                            let w = worker.take().unwrap();
                            let (how, refused, tail, by_watchdog) = w.post_mortem();
                            respawns.fetch_add(1, Ordering::Relaxed);
                            consecutive_spawn_deaths += 1;
                            if consecutive_spawn_deaths > 3 && k == start {
                                // the same first case killed fresh workers repeatedly: that IS the case's behaviour
                            }
                            let st = if by_watchdog {
                                Status::Timeout
                            } else {
                                Status::Died { how, refused_alloc: refused, stderr_tail: tail }
                            };
                            handle(&batch[k], st);
                            cases_done.fetch_add(1, Ordering::Relaxed);
                            start = k + 1;
                        } else {
                            start = batch.len();
                        }
                    }
                }
                if let Some(w) = worker.take() {
                    w.shutdown();
                }
            });
        }
    });
    if let Some(f) = failure.into_inner().unwrap() {
        return Err(f);
    }
    Ok(PoolStats {
        cases: cases_done.load(Ordering::Relaxed),
        respawns: respawns.load(Ordering::Relaxed),
    })
}

/// Worker side: read case lines from stdin, run `f` on each under panic capture and
/// allocation measurement, reply. `hard_cap(line)` gives the refusal threshold for that case.
pub fn worker_loop(hard_cap: impl Fn(&str) -> usize, f: impl Fn(&str) -> String) {
    crate::util::install_quiet_panic_hook();
    let stdin = std::io::stdin();
    let mut out = std::io::stdout().lock();
    let mut line = String::new();
    let mut lock = stdin.lock();
    loop {
        line.clear();
        match lock.read_line(&mut line) {
            Ok(0) | Err(_) => break,
            Ok(_) => {}
        }
        let l = line.trim_end_matches('\n');
        let cap = hard_cap(l);
        crate::alloc::reset_max();
        crate::alloc::set_hard_cap(cap);
        let r = crate::util::catch(|| f(l));
        crate::alloc::set_hard_cap(usize::MAX);
        let max = crate::alloc::max_request();
        let reply = match r {
            Ok(p) => format!("{} ok {}\n", max, p.replace('\n', " ")),
            Err(pi) => format!(
                "{} panic {}|{}\n",
                max,
                pi.location,
                pi.message.replace('\n', " ")
            ),
        };
        if out.write_all(reply.as_bytes()).is_err() || out.flush().is_err() {
            break;
        }
    }
}

/// A simple thread-safe batch source over an iterator.
pub struct BatchSource<I: Iterator> {
    it: Mutex<I>,
    max_cases: usize,
    max_bytes: usize,
}

impl<I: Iterator> BatchSource<I> {
    pub fn new(it: I, max_cases: usize, max_bytes: usize) -> Self {
        BatchSource { it: Mutex::new(it), max_cases, max_bytes }
    }
    pub fn next(&self, size_of: impl Fn(&I::Item) -> usize) -> Vec<I::Item> {
        let mut g = self.it.lock().unwrap();
        let mut v = Vec::new();
        let mut bytes = 0usize;
        while v.len() < self.max_cases && bytes < self.max_bytes {
            match g.next() {
                Some(c) => {
                    bytes += size_of(&c);
                    v.push(c);
                }
                None => break,
            }
        }
        v
    }
}

// ---------------------------------------------------------------------------------------
// Chunked sweep: families of indexed cases; a worker runs a whole index range in-process
// and replies with its Tally. When a worker dies on a range, the range is re-submitted one
// index at a time so that the abort / hang is attributed to exactly one case.

use crate::tally::Tally;
use std::collections::VecDeque;

#[derive(Clone, Debug)]
pub struct Family {
    pub tag: String,
    /// indices first..count are swept
    pub first: u64,
    pub count: u64,
}

impl Family {
    pub fn new(tag: impl Into<String>, count: u64) -> Self {
        Family { tag: tag.into(), first: 0, count }
    }
    pub fn single(tag: impl Into<String>, index: u64) -> Self {
        Family { tag: tag.into(), first: index, count: index + 1 }
    }
}

#[derive(Clone, Debug)]
pub struct Fatal {
    pub family: String,
    pub index: u64,
    pub status: Status,
}

#[derive(Clone, Debug)]
struct Range {
    fam: usize,
    lo: u64,
    hi: u64,
}

pub struct SweepResult {
    pub tally: Tally,
    pub fatals: Vec<Fatal>,
    pub respawns: u64,
    pub chunks: u64,
    /// the sweep stopped feeding new ranges (too many fatal cases or wall-clock cap):
    /// what was found is reported, but the family was NOT completed
    pub capped: Option<String>,
}

/// Engine-internal caps (a run that hits one is reported as not exhaustive).
pub const MAX_FATALS: usize = 48;
pub fn wall_cap() -> Duration {
    let secs = std::env::var("VERIF_SWEEP_WALL_CAP_S").ok().and_then(|s| s.parse().ok()).unwrap_or(3600u64);
    Duration::from_secs(secs)
}

pub fn sweep(
    exe: &Path,
    worker_args: &[String],
    workers: usize,
    families: &[Family],
    chunk: u64,
    watchdog: Duration,
) -> Result<SweepResult, String> {
    let mut q: VecDeque<Range> = VecDeque::new();
    for (fi, f) in families.iter().enumerate() {
        let mut lo = f.first;
        while lo < f.count {
            let hi = (lo + chunk).min(f.count);
            q.push_back(Range { fam: fi, lo, hi });
            lo = hi;
        }
    }
    let nchunks = q.len() as u64;
    let queue = Mutex::new(q);
    let started = Instant::now();
    let cap = wall_cap();
    let capped: Mutex<Option<String>> = Mutex::new(None);
    let total = Mutex::new(Tally::new());
    let fatals: Mutex<Vec<Fatal>> = Mutex::new(Vec::new());
    let bad: Mutex<Option<String>> = Mutex::new(None);
    let stats = run_pool(
        exe,
        worker_args,
        workers,
        watchdog,
        || {
            let mut g = queue.lock().unwrap();
            if started.elapsed() > cap && !g.is_empty() {
                *capped.lock().unwrap() = Some(format!("wall-clock cap of {} s reached with {} ranges unexplored", cap.as_secs(), g.len()));
                g.clear();
            }
            match g.pop_front() {
                Some(r) => vec![r],
                None => vec![],
            }
        },
        |r: &Range| format!("{} {} {}", families[r.fam].tag, r.lo, r.hi),
        |r: &Range, st: Status| match st {
            Status::Ok { payload, .. } => match serde_json::from_str::<Tally>(&payload) {
                Ok(t) => total.lock().unwrap().absorb(t),
                Err(e) => *bad.lock().unwrap() = Some(format!("unparsable tally from worker: {}", e)),
            },
            other => {
                if r.hi - r.lo > 1 {
                    let mut g = queue.lock().unwrap();
                    for i in (r.lo..r.hi).rev() {
                        g.push_front(Range { fam: r.fam, lo: i, hi: i + 1 });
                    }
                } else {
                    let mut f = fatals.lock().unwrap();
                    f.push(Fatal { family: families[r.fam].tag.clone(), index: r.lo, status: other });
                    if f.len() >= MAX_FATALS {
                        let mut g = queue.lock().unwrap();
                        if !g.is_empty() {
                            *capped.lock().unwrap() = Some(format!("{} cases killed their worker; sweep stopped with {} ranges unexplored", f.len(), g.len()));
                            g.clear();
                        }
                    }
                }
            }
        },
    )?;
    if let Some(b) = bad.into_inner().unwrap() {
        return Err(b);
    }
    let mut f = fatals.into_inner().unwrap();
    f.sort_by(|a, b| (a.family.as_str(), a.index).cmp(&(b.family.as_str(), b.index)));
    Ok(SweepResult { tally: total.into_inner().unwrap(), fatals: f, respawns: stats.respawns, chunks: nchunks, capped: capped.into_inner().unwrap() })
}

/// Worker side of `sweep`. `run(family_tag, index, tally)` executes one case; it should catch
/// the subject's panics itself (util::catch) — a panic escaping it is recorded as a violation.
pub fn sweep_worker(run: impl Fn(&str, u64, &mut Tally)) {
    worker_loop(
        |_l| usize::MAX,
        |line| {
            let mut it = line.split(' ');
            let fam = it.next().unwrap_or("");
            let lo: u64 = it.next().and_then(|s| s.parse().ok()).unwrap_or(0);
            let hi: u64 = it.next().and_then(|s| s.parse().ok()).unwrap_or(0);
            let mut t = Tally::new();
            for i in lo..hi {
                if let Err(p) = crate::util::catch(|| run(fam, i, &mut t)) {
                    t.violate(
                        format!("panic@{}", p.location),
                        format!("uncaught panic while running case {} #{}: {}", fam, i, p.message),
                        serde_json::json!({"family": fam, "index": i}),
                    );
                }
            }
            serde_json::to_string(&t).unwrap()
        },
    );
}

/// Describe a fatal status as (signature, summary).
pub fn describe_fatal(what: &str, st: &Status) -> (String, String) {
    match st {
        Status::Died { how, refused_alloc, stderr_tail } => (
            format!("abort:{}", what),
            format!("{} killed the process ({}; refused allocation {:?}; {})", what, how, refused_alloc, stderr_tail),
        ),
        Status::Timeout => (format!("timeout:{}", what), format!("{} did not return within the watchdog period", what)),
        Status::Panic { location, message, .. } => (format!("panic@{}", location), format!("{} panicked: {}", what, message)),
        Status::Ok { .. } => ("ok".into(), "ok".into()),
    }
}
