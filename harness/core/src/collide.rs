//! Pairs of distinct short ASCII strings that collide under common 32-bit string hashes.
//! A map keyed by a 32-bit hash of a name instead of the name itself loses one of two such
//! names; no enumeration of "ordinary" names ever contains a colliding pair (2^-32 per pair),
//! so the pairs are searched for explicitly (birthday search over ~2·10^5 candidates per hash,
//! a few milliseconds each) and used wherever two names live in one object.

use std::collections::HashMap;
use std::sync::OnceLock;

fn fnv1a32(b: &[u8]) -> u32 {
    let mut h: u32 = 0x811C_9DC5;
    for x in b {
        h ^= *x as u32;
        h = h.wrapping_mul(0x0100_0193);
    }
    h
}
fn fnv1_32(b: &[u8]) -> u32 {
    let mut h: u32 = 0x811C_9DC5;
    for x in b {
        h = h.wrapping_mul(0x0100_0193);
        h ^= *x as u32;
    }
    h
}
fn djb2(b: &[u8]) -> u32 {
    let mut h: u32 = 5381;
    for x in b {
        h = h.wrapping_mul(33).wrapping_add(*x as u32);
    }
    h
}
fn djb2x(b: &[u8]) -> u32 {
    let mut h: u32 = 5381;
    for x in b {
        h = h.wrapping_mul(33) ^ (*x as u32);
    }
    h
}
fn sdbm(b: &[u8]) -> u32 {
    let mut h: u32 = 0;
    for x in b {
        h = (*x as u32).wrapping_add(h << 6).wrapping_add(h << 16).wrapping_sub(h);
    }
    h
}
fn java31(b: &[u8]) -> u32 {
    let mut h: u32 = 0;
    for x in b {
        h = h.wrapping_mul(31).wrapping_add(*x as u32);
    }
    h
}
fn crc32(b: &[u8]) -> u32 {
    let mut c: u32 = 0xFFFF_FFFF;
    for x in b {
        c ^= *x as u32;
        for _ in 0..8 {
            c = if c & 1 != 0 { (c >> 1) ^ 0xEDB8_8320 } else { c >> 1 };
        }
    }
    !c
}
fn adler32(b: &[u8]) -> u32 {
    let (mut a, mut s) = (1u32, 0u32);
    for x in b {
        a = (a + *x as u32) % 65521;
        s = (s + a) % 65521;
    }
    (s << 16) | a
}
fn one_at_a_time(b: &[u8]) -> u32 {
    let mut h: u32 = 0;
    for x in b {
        h = h.wrapping_add(*x as u32);
        h = h.wrapping_add(h << 10);
        h ^= h >> 6;
    }
    h = h.wrapping_add(h << 3);
    h ^= h >> 11;
    h.wrapping_add(h << 15)
}
fn murmur3_32(b: &[u8]) -> u32 {
    let (c1, c2) = (0xcc9e_2d51u32, 0x1b87_3593u32);
    let mut h: u32 = 0;
    let mut chunks = b.chunks_exact(4);
    for c in &mut chunks {
        let mut k = u32::from_le_bytes([c[0], c[1], c[2], c[3]]);
        k = k.wrapping_mul(c1).rotate_left(15).wrapping_mul(c2);
        h = (h ^ k).rotate_left(13).wrapping_mul(5).wrapping_add(0xe654_6b64);
    }
    let r = chunks.remainder();
    let mut k: u32 = 0;
    for (i, x) in r.iter().enumerate() {
        k |= (*x as u32) << (8 * i);
    }
    if !r.is_empty() {
        k = k.wrapping_mul(c1).rotate_left(15).wrapping_mul(c2);
        h ^= k;
    }
    h ^= b.len() as u32;
    h ^= h >> 16;
    h = h.wrapping_mul(0x85eb_ca6b);
    h ^= h >> 13;
    h = h.wrapping_mul(0xc2b2_ae35);
    h ^ (h >> 16)
}

const HASHES: [(&str, fn(&[u8]) -> u32); 10] = [("fnv1a32", fnv1a32), ("fnv1_32", fnv1_32), ("djb2", djb2), ("djb2-xor", djb2x), ("sdbm", sdbm), ("java31", java31), ("crc32", crc32), ("adler32", adler32), ("one-at-a-time", one_at_a_time), ("murmur3_32", murmur3_32)];

fn candidate(i: u32) -> String {
    // a short prefix of the kind games use, then 5..=8 pseudo-random letters and digits
    const PRE: [&str; 4] = ["MID_", "AID_", "n", ""];
    const ALPHA: &[u8] = b"abcdefghijklmnopqrstuvwxyzABCDEFGHIJKLMNOPQRSTUVWXYZ0123456789_";
    let mut x = (i as u64).wrapping_mul(0x9E37_79B9_7F4A_7C15) ^ 0xD1B5_4A32_D192_ED03;
    x ^= x >> 29;
    x = x.wrapping_mul(0xBF58_476D_1CE4_E5B9);
    x ^= x >> 32;
    let len = 5 + (x % 4) as usize;
    let mut s = PRE[((x >> 2) % 4) as usize].to_string();
    let mut y = x >> 4;
    for _ in 0..len {
        s.push(ALPHA[(y % ALPHA.len() as u64) as usize] as char);
        y /= ALPHA.len() as u64;
    }
    s
}

/// FxHash (rustc-hash 1.x, 64-bit) of a `str` key as `Hash for str` feeds it: the bytes in
/// 8/4/2/1-byte little-endian reads, then 0xFF. 64 bits cannot be birthday-searched, but the
/// function is weak: numbered names whose digits sit on byte 7 and 8 collide within a series.
fn fxhash64_str(b: &[u8]) -> u64 {
    const K: u64 = 0x517c_c1b7_2722_0a95;
    let add = |h: u64, w: u64| (h.rotate_left(5) ^ w).wrapping_mul(K);
    let mut h = 0u64;
    let mut r = b;
    while r.len() >= 8 {
        h = add(h, u64::from_le_bytes([r[0], r[1], r[2], r[3], r[4], r[5], r[6], r[7]]));
        r = &r[8..];
    }
    if r.len() >= 4 {
        h = add(h, u32::from_le_bytes([r[0], r[1], r[2], r[3]]) as u64);
        r = &r[4..];
    }
    if r.len() >= 2 {
        h = add(h, u16::from_le_bytes([r[0], r[1]]) as u64);
        r = &r[2..];
    }
    if !r.is_empty() {
        h = add(h, r[0] as u64);
    }
    add(h, 0xFF)
}

/// the same function fed a `[u8]` / `Vec<u8>` key: a length prefix, then the bytes
fn fxhash64_slice(b: &[u8]) -> u64 {
    const K: u64 = 0x517c_c1b7_2722_0a95;
    let h0 = (0u64.rotate_left(5) ^ b.len() as u64).wrapping_mul(K);
    // continue from h0 over the bytes (no 0xFF terminator)
    let add = |h: u64, w: u64| (h.rotate_left(5) ^ w).wrapping_mul(K);
    let mut h = h0;
    let mut r = b;
    while r.len() >= 8 {
        h = add(h, u64::from_le_bytes([r[0], r[1], r[2], r[3], r[4], r[5], r[6], r[7]]));
        r = &r[8..];
    }
    if r.len() >= 4 {
        h = add(h, u32::from_le_bytes([r[0], r[1], r[2], r[3]]) as u64);
        r = &r[4..];
    }
    if r.len() >= 2 {
        h = add(h, u16::from_le_bytes([r[0], r[1]]) as u64);
        r = &r[2..];
    }
    if !r.is_empty() {
        h = add(h, r[0] as u64);
    }
    h
}

fn fx_pairs() -> Vec<(String, String, String)> {
    let mut out = Vec::new();
    for prefix in ["uWeapon", "uHead_F", "attack_"] {
        let mut seen: HashMap<u64, String> = HashMap::new();
        let mut found = 0;
        for a in b'0'..=b'z' {
            for b in b'0'..=b'z' {
                if !(a as char).is_ascii_alphanumeric() || !(b as char).is_ascii_alphanumeric() {
                    continue;
                }
                let s = format!("{}{}{}", prefix, a as char, b as char);
                if let Some(t) = seen.insert(fxhash64_slice(s.as_bytes()), s.clone()) {
                    if found < 2 {
                        out.push(("fxhash64-slice".to_string(), t, s));
                    }
                    found += 1;
                }
            }
        }
    }
    for prefix in ["uWeapon", "uHead_F", "MID_Bod", "AID_Uni"] {
        for suffix in ["", "_0", "_body"] {
            let mut seen: HashMap<u64, String> = HashMap::new();
            let mut found = 0;
            for n in 0..100 {
                let s = format!("{}{:02}{}", prefix, n, suffix);
                if let Some(t) = seen.insert(fxhash64_str(s.as_bytes()), s.clone()) {
                    if found < 1 {
                        out.push(("fxhash64".to_string(), t, s));
                    }
                    found += 1;
                }
            }
        }
    }
    out
}

/// (hash name, a, b) with a != b and hash(a) == hash(b); up to two pairs per hash function.
pub fn pairs() -> &'static Vec<(String, String, String)> {
    static P: OnceLock<Vec<(String, String, String)>> = OnceLock::new();
    P.get_or_init(|| {
        let mut out = fx_pairs();
        for (name, f) in HASHES {
            let mut seen: HashMap<u32, u32> = HashMap::new();
            let mut found = 0;
            for i in 0..600_000u32 {
                let s = candidate(i);
                let h = f(s.as_bytes());
                if let Some(j) = seen.insert(h, i) {
                    let t = candidate(j);
                    if t != s {
                        out.push((name.to_string(), t, s));
                        found += 1;
                        if found == 2 {
                            break;
                        }
                    }
                }
            }
        }
        out
    })
}
