//! Reference model of a bin archive: content model, canonical writer (C02), layout-family
//! writer (C01c), validating parser (C01b, C05) and the edit operations (C03).
//! Written from the format description in DESIGN Appendix A and the property statements.

use crate::sjis;
use std::collections::{BTreeMap, BTreeSet};

#[derive(Clone, Copy, PartialEq, Eq, Hash, Debug, PartialOrd, Ord)]
pub enum End {
    Little,
    Big,
}

impl End {
    pub fn u32(self, v: u32) -> [u8; 4] {
        match self {
            End::Little => v.to_le_bytes(),
            End::Big => v.to_be_bytes(),
        }
    }
    pub fn rd32(self, b: &[u8]) -> u32 {
        let a = [b[0], b[1], b[2], b[3]];
        match self {
            End::Little => u32::from_le_bytes(a),
            End::Big => u32::from_be_bytes(a),
        }
    }
}

#[derive(Clone, Debug, PartialEq, Eq, Hash)]
pub struct Content {
    pub endian: End,
    pub data: Vec<u8>,
    pub strings: BTreeMap<usize, String>,
    pub pointers: BTreeMap<usize, usize>,
    /// pending c-strings by cell address
    pub cstrings: BTreeMap<usize, String>,
    /// per-address order is content
    pub labels: BTreeMap<usize, Vec<String>>,
}

impl Content {
    pub fn new(endian: End) -> Self {
        Content {
            endian,
            data: vec![],
            strings: BTreeMap::new(),
            pointers: BTreeMap::new(),
            cstrings: BTreeMap::new(),
            labels: BTreeMap::new(),
        }
    }
    pub fn size(&self) -> usize {
        self.data.len()
    }
    pub fn label_count(&self) -> usize {
        self.labels.values().map(|v| v.len()).sum()
    }
    /// Is the content inside the domain of C01/C02 (so that serialize→parse must be exact)?
    pub fn in_roundtrip_domain(&self) -> bool {
        let size = self.size();
        let cell_ok = |a: &usize| a + 4 <= size;
        // at most one annotation per cell, annotations do not overlap
        let mut cells: Vec<usize> = self.strings.keys().chain(self.pointers.keys()).chain(self.cstrings.keys()).cloned().collect();
        cells.sort();
        for w in cells.windows(2) {
            if w[1] < w[0] + 4 {
                return false;
            }
        }
        cells.iter().all(cell_ok)
            && self.pointers.values().all(|t| *t <= size)
            && self.labels.keys().all(|a| *a <= size)
            && self.strings.values().chain(self.cstrings.values()).chain(self.labels.values().flatten()).all(|s| sjis::lossless(s))
    }
    pub fn annotated(&self, addr: usize) -> bool {
        // is byte `addr` covered by a pointer/string/c-string cell?
        self.strings.keys().chain(self.pointers.keys()).chain(self.cstrings.keys()).any(|a| addr >= *a && addr < *a + 4)
    }
}

// ------------------------------------------------------------------------------------
// c-string pool (format rule: distinct strings sorted by their Shift-JIS bytes,
// NUL-terminated, concatenated after the caller's data, pool padded to a multiple of 4)

pub struct Pool {
    pub bytes: Vec<u8>,
    pub offset_of: BTreeMap<String, usize>,
}

pub fn cstring_pool(c: &Content) -> Pool {
    let mut distinct: Vec<(Vec<u8>, String)> = Vec::new();
    for s in c.cstrings.values() {
        let b = sjis::encode(s).unwrap_or_default();
        if !distinct.iter().any(|(_, t)| t == s) {
            distinct.push((b, s.clone()));
        }
    }
    distinct.sort();
    let mut bytes = Vec::new();
    let mut offset_of = BTreeMap::new();
    for (b, s) in distinct {
        offset_of.insert(s, bytes.len());
        bytes.extend(b);
        bytes.push(0);
    }
    while bytes.len() % 4 != 0 {
        bytes.push(0);
    }
    Pool { bytes, offset_of }
}

/// Differences between a parsed image (data-region bytes, string cells, pointer cells) and `c` with
/// its pending c-strings materialised — with the ORDER of the c-string pool left open: the format
/// and the statements fix what each c-string cell must point at (its own NUL-terminated string
/// in the pool behind the data), not where in the pool each string sits.
pub fn diff_materialised(bytes: &[u8], strings: &BTreeMap<usize, String>, pointers: &BTreeMap<usize, usize>, c: &Content) -> Vec<String> {
    let mut d = Vec::new();
    let canon = materialise_cstrings(c);
    if bytes.len() != canon.size() {
        d.push(format!("re-parsed size {} != {} (data {} + padded c-string pool {})", bytes.len(), canon.size(), c.size(), canon.size() - c.size()));
        return d;
    }
    let base = c.data.len();
    let mut covered = vec![false; base];
    for a in c.strings.keys().chain(c.pointers.keys()).chain(c.cstrings.keys()) {
        for i in *a..(*a + 4).min(base) {
            covered[i] = true;
        }
    }
    for i in 0..base {
        if !covered[i] && bytes[i] != c.data[i] {
            d.push(format!("raw byte {} is {:?}, expected {:?}", i, bytes[i], c.data[i]));
            break;
        }
    }
    if *strings != c.strings {
        d.push(format!("strings {:?} != expected {:?}", strings, c.strings));
    }
    // ordinary pointers: exact; c-string cells: a pointer to the cell's own string in the pool
    let mut want_cells: BTreeSet<usize> = c.pointers.keys().cloned().collect();
    want_cells.extend(c.cstrings.keys().cloned());
    let got_cells: BTreeSet<usize> = pointers.keys().cloned().collect();
    if got_cells != want_cells {
        d.push(format!("pointers {:?} != expected cells {:?}", pointers, want_cells));
        return d;
    }
    for (a, t) in &c.pointers {
        if pointers.get(a) != Some(t) {
            d.push(format!("pointers {:?} != expected {:?} (+ c-string cells)", pointers, c.pointers));
            break;
        }
    }
    for (a, s) in &c.cstrings {
        let t = pointers[a];
        let want = sjis::encode(s).unwrap_or_default();
        let ok = t >= base && t + want.len() < bytes.len() && bytes[t..t + want.len()] == want[..] && bytes[t + want.len()] == 0 && (t == base || bytes[t - 1] == 0);
        if !ok {
            d.push(format!("c-string pointers: cell {} points at {} where the pool does not hold {:?} (pointers {:?})", a, t, s, pointers));
            break;
        }
    }
    // the pool holds every distinct c-string exactly once, NUL-terminated, then zero padding
    let mut want_entries: Vec<Vec<u8>> = Vec::new();
    for s in c.cstrings.values() {
        let b = sjis::encode(s).unwrap_or_default();
        if !want_entries.contains(&b) {
            want_entries.push(b);
        }
    }
    want_entries.sort();
    let used: usize = want_entries.iter().map(|e| e.len() + 1).sum();
    let mut got_entries: Vec<Vec<u8>> = Vec::new();
    let mut i = base;
    while i < base + used && i < bytes.len() {
        let end = bytes[i..].iter().position(|b| *b == 0).map(|p| i + p).unwrap_or(bytes.len());
        got_entries.push(bytes[i..end].to_vec());
        i = end + 1;
    }
    got_entries.sort();
    if got_entries != want_entries || bytes[(base + used).min(bytes.len())..].iter().any(|b| *b != 0) {
        d.push(format!("c-string pool {:02x?} does not hold exactly the distinct c-strings (any order) followed by zero padding", &bytes[base..]));
    }
    d
}

/// Content with the pending c-strings materialised the way the format stores them:
/// pool appended to the data, each c-string cell an ordinary internal pointer.
pub fn materialise_cstrings(c: &Content) -> Content {
    let pool = cstring_pool(c);
    let mut out = c.clone();
    let base = c.data.len();
    out.data.extend_from_slice(&pool.bytes);
    for (addr, s) in &c.cstrings {
        out.pointers.insert(*addr, base + pool.offset_of[s]);
    }
    out.cstrings.clear();
    out
}

// ------------------------------------------------------------------------------------
// Writers

#[derive(Clone, Debug, PartialEq, Eq)]
pub enum TextOrder {
    /// label names, then strings (canonical)
    NamesFirst,
    StringsFirst,
    Interleaved,
    /// longest strings first; a string that is the tail of one already stored is not stored
    /// again but addressed INSIDE the longer one (tail sharing, as linkers and packers do)
    TailShared,
}

#[derive(Clone, Debug)]
pub struct Layout {
    /// permutation of the pointer table relative to canonical order
    pub pointer_perm: Vec<usize>,
    /// permutation of the label table relative to canonical order (must keep the
    /// relative order of labels on one address)
    pub label_perm: Vec<usize>,
    pub text_order: TextOrder,
    /// store every use of a repeated string separately
    pub duplicate_strings: bool,
    /// one unused byte at the start of the text section
    pub lead_pad: bool,
}

/// Label table in canonical order: by address (LE) / by name (BE), same-address order kept.
/// For BE the order among equal names is by address (any tie order is acceptable; see
/// `be_order_is_determined`).
pub fn canonical_labels(c: &Content) -> Vec<(usize, String)> {
    let mut v: Vec<(usize, String)> = Vec::new();
    match c.endian {
        End::Little => {
            for (a, names) in &c.labels {
                for n in names {
                    v.push((*a, n.clone()));
                }
            }
        }
        End::Big => {
            let mut buckets: Vec<(&usize, &Vec<String>)> = c.labels.iter().collect();
            buckets.sort_by(|x, y| x.1.cmp(y.1).then(x.0.cmp(y.0)));
            for (a, names) in buckets {
                for n in names {
                    v.push((*a, n.clone()));
                }
            }
        }
    }
    v
}

/// For big-endian archives the statement fixes the table order only when every labelled
/// address carries exactly one label and all names are distinct.
pub fn be_order_is_determined(c: &Content) -> bool {
    if c.endian == End::Little {
        return true;
    }
    let mut names: Vec<&String> = Vec::new();
    for v in c.labels.values() {
        if v.len() != 1 {
            return false;
        }
        names.push(&v[0]);
    }
    let n = names.len();
    names.sort();
    names.dedup();
    names.len() == n
}

/// Canonical pointer table: internal pointers by ascending address, then string pointers
/// grouped by string in first-use (ascending address) order, ascending inside a group.
pub fn canonical_pointer_table(c: &Content) -> Vec<usize> {
    let mut t: Vec<usize> = c.pointers.keys().cloned().collect();
    let mut groups: Vec<(String, Vec<usize>)> = Vec::new();
    for (a, s) in &c.strings {
        match groups.iter_mut().find(|(g, _)| g == s) {
            Some((_, v)) => v.push(*a),
            None => groups.push((s.clone(), vec![*a])),
        }
    }
    for (_, v) in groups {
        t.extend(v);
    }
    t
}

fn enc(s: &str) -> Vec<u8> {
    let mut b = sjis::encode(s).expect("string outside the Shift-JIS domain");
    b.push(0);
    b
}

/// Write an image of `c` (which must have no pending c-strings) in the given layout.
pub fn write_layout(c: &Content, l: &Layout) -> Vec<u8> {
    assert!(c.cstrings.is_empty());
    let e = c.endian;
    let d = c.data.len();
    let ptrs_canon = canonical_pointer_table(c);
    let labels_canon = canonical_labels(c);
    let ptrs: Vec<usize> = l.pointer_perm.iter().map(|i| ptrs_canon[*i]).collect();
    let labels: Vec<(usize, String)> = l.label_perm.iter().map(|i| labels_canon[*i].clone()).collect();
    let p = ptrs.len();
    let n = labels.len();
    let text_start = d + 4 * p + 8 * n; // relative to 0x20

    // text section
    let mut text: Vec<u8> = Vec::new();
    if l.lead_pad {
        text.push(0x7E);
    }
    let mut shared: BTreeMap<String, usize> = BTreeMap::new();
    let place = |s: &str, text: &mut Vec<u8>, shared: &mut BTreeMap<String, usize>, dup: bool| -> usize {
        if !dup {
            if let Some(o) = shared.get(s) {
                return *o;
            }
        }
        let o = text.len();
        text.extend(enc(s));
        shared.insert(s.to_string(), o);
        o
    };
    let string_cells: Vec<(usize, String)> = c.strings.iter().map(|(a, s)| (*a, s.clone())).collect();
    let mut name_off: Vec<usize> = vec![0; n];
    let mut str_off: BTreeMap<usize, usize> = BTreeMap::new();
    match l.text_order {
        TextOrder::NamesFirst => {
            for (i, (_, nm)) in labels.iter().enumerate() {
                name_off[i] = place(nm, &mut text, &mut shared, l.duplicate_strings);
            }
            for (a, s) in &string_cells {
                str_off.insert(*a, place(s, &mut text, &mut shared, l.duplicate_strings));
            }
        }
        TextOrder::StringsFirst => {
            for (a, s) in &string_cells {
                str_off.insert(*a, place(s, &mut text, &mut shared, l.duplicate_strings));
            }
            for (i, (_, nm)) in labels.iter().enumerate() {
                name_off[i] = place(nm, &mut text, &mut shared, l.duplicate_strings);
            }
        }
        TextOrder::TailShared => {
            let mut all: Vec<String> = labels.iter().map(|l| l.1.clone()).chain(string_cells.iter().map(|s| s.1.clone())).collect();
            all.sort();
            all.dedup();
            all.sort_by(|a, b| enc(b).len().cmp(&enc(a).len()).then(a.cmp(b)));
            let mut placed: Vec<(Vec<u8>, usize)> = Vec::new();
            let mut off: BTreeMap<String, usize> = BTreeMap::new();
            for st in &all {
                let eb = enc(st);
                if let Some((lb, lo)) = placed.iter().find(|(lb, _)| lb.ends_with(&eb)) {
                    off.insert(st.clone(), lo + lb.len() - eb.len());
                } else {
                    off.insert(st.clone(), text.len());
                    placed.push((eb.clone(), text.len()));
                    text.extend(eb);
                }
            }
            for (i, (_, nm)) in labels.iter().enumerate() {
                name_off[i] = off[nm];
            }
            for (a, st) in &string_cells {
                str_off.insert(*a, off[st]);
            }
        }
        TextOrder::Interleaved => {
            let m = labels.len().max(string_cells.len());
            for i in 0..m {
                if let Some((a, s)) = string_cells.get(i) {
                    str_off.insert(*a, place(s, &mut text, &mut shared, l.duplicate_strings));
                }
                if let Some((_, nm)) = labels.get(i) {
                    name_off[i] = place(nm, &mut text, &mut shared, l.duplicate_strings);
                }
            }
        }
    }

    let mut data = c.data.clone();
    for (a, t) in &c.pointers {
        data[*a..*a + 4].copy_from_slice(&e.u32(*t as u32));
    }
    for (a, o) in &str_off {
        data[*a..*a + 4].copy_from_slice(&e.u32((text_start + *o) as u32));
    }
    let file_size = 0x20 + text_start + text.len();
    let mut out = Vec::with_capacity(file_size);
    out.extend(e.u32(file_size as u32));
    out.extend(e.u32(d as u32));
    out.extend(e.u32(p as u32));
    out.extend(e.u32(n as u32));
    out.extend([0u8; 16]);
    out.extend(&data);
    for a in &ptrs {
        out.extend(e.u32(*a as u32));
    }
    for (i, (a, _)) in labels.iter().enumerate() {
        out.extend(e.u32(*a as u32));
        out.extend(e.u32(name_off[i] as u32));
    }
    out.extend(&text);
    out
}

pub fn canonical_layout(c: &Content) -> Layout {
    Layout {
        pointer_perm: (0..c.pointers.len() + c.strings.len()).collect(),
        label_perm: (0..c.label_count()).collect(),
        text_order: TextOrder::NamesFirst,
        duplicate_strings: false,
        lead_pad: false,
    }
}

/// The canonical image (C02). `c` must have no pending c-strings.
pub fn write_canonical(c: &Content) -> Vec<u8> {
    write_layout(c, &canonical_layout(c))
}

/// All permutations of the label table that keep the relative order of labels on one address
/// (at most 6 labels are permuted).
pub fn label_table_perms(c: &Content) -> Vec<Vec<usize>> {
    let labels = canonical_labels(c);
    let nl = labels.len();
    if nl > 6 {
        return vec![(0..nl).collect(), (0..nl).rev().filter(|_| false).collect::<Vec<usize>>()].into_iter().filter(|v: &Vec<usize>| v.len() == nl).collect();
    }
    crate::util::permutations(nl)
        .into_iter()
        .filter(|perm| {
            for i in 0..perm.len() {
                for j in (i + 1)..perm.len() {
                    let (a, b) = (perm[i], perm[j]);
                    if labels[a].0 == labels[b].0 && a > b {
                        return false;
                    }
                }
            }
            true
        })
        .collect()
}

/// Every conforming layout of the family of C01(c) for this content.
pub fn layout_family(c: &Content, max_perm_items: usize) -> Vec<Layout> {
    let np = c.pointers.len() + c.strings.len();
    let labels = canonical_labels(c);
    let nl = labels.len();
    let pperms = if np <= max_perm_items { crate::util::permutations(np) } else { vec![(0..np).collect()] };
    let lperms_all = if nl <= max_perm_items { crate::util::permutations(nl) } else { vec![(0..nl).collect()] };
    // keep the relative order of labels on one address
    let lperms: Vec<Vec<usize>> = lperms_all
        .into_iter()
        .filter(|perm| {
            for i in 0..perm.len() {
                for j in (i + 1)..perm.len() {
                    let (a, b) = (perm[i], perm[j]);
                    if labels[a].0 == labels[b].0 && a > b {
                        return false;
                    }
                }
            }
            true
        })
        .collect();
    let has_repeats = {
        let mut all: Vec<&String> = c.strings.values().chain(labels.iter().map(|l| &l.1)).collect();
        let n = all.len();
        all.sort();
        all.dedup();
        all.len() != n
    };
    let mut out = Vec::new();
    for pp in &pperms {
        for lp in &lperms {
            out.push(Layout { pointer_perm: pp.clone(), label_perm: lp.clone(), text_order: TextOrder::TailShared, duplicate_strings: false, lead_pad: false });
            for to in [TextOrder::NamesFirst, TextOrder::StringsFirst, TextOrder::Interleaved] {
                for dup in if has_repeats { vec![false, true] } else { vec![false] } {
                    for pad in [false, true] {
                        out.push(Layout { pointer_perm: pp.clone(), label_perm: lp.clone(), text_order: to.clone(), duplicate_strings: dup, lead_pad: pad });
                    }
                }
            }
        }
    }
    out
}

// ------------------------------------------------------------------------------------
// Validating parser

#[derive(Debug, Clone)]
pub struct Parsed {
    pub content: Content,
    pub file_size_field: usize,
    pub data_size: usize,
    pub pointer_count: usize,
    pub label_count: usize,
    pub text_start_abs: usize,
    /// pointer table entries in file order
    pub pointer_table: Vec<usize>,
    /// label table in file order
    pub label_table: Vec<(usize, String)>,
    /// (offset relative to text start, string) for every NUL-terminated run of the text section
    pub text_runs: Vec<(usize, Vec<u8>)>,
}

fn cstr_at(b: &[u8], at: usize) -> Result<&[u8], String> {
    if at > b.len() {
        return Err(format!("string offset {:#x} outside the file", at));
    }
    match b[at..].iter().position(|x| *x == 0) {
        Some(n) => Ok(&b[at..at + n]),
        None => Err(format!("string at {:#x} is not NUL-terminated inside the file", at)),
    }
}

/// Strict parse: any deviation from the format is an Err naming it.
pub fn parse(bytes: &[u8], e: End) -> Result<Parsed, String> {
    if bytes.len() < 0x20 {
        return Err("shorter than the header".into());
    }
    let file_size_field = e.rd32(&bytes[0..]) as usize;
    let d = e.rd32(&bytes[4..]) as usize;
    let p = e.rd32(&bytes[8..]) as usize;
    let n = e.rd32(&bytes[12..]) as usize;
    let need = 0x20u128 + d as u128 + 4 * p as u128 + 8 * n as u128;
    if need > bytes.len() as u128 {
        return Err(format!("header declares {} bytes of data/tables, file has {}", need, bytes.len()));
    }
    if file_size_field != bytes.len() {
        return Err(format!("file size field {} != file length {}", file_size_field, bytes.len()));
    }
    let data = bytes[0x20..0x20 + d].to_vec();
    let ptab = 0x20 + d;
    let ltab = ptab + 4 * p;
    let text_start_abs = ltab + 8 * n;
    let mut c = Content::new(e);
    c.data = data;
    let mut pointer_table = Vec::new();
    for i in 0..p {
        let a = e.rd32(&bytes[ptab + 4 * i..]) as usize;
        if a + 4 > d {
            return Err(format!("pointer table entry {} = {:#x} outside the data region", i, a));
        }
        pointer_table.push(a);
        let v = e.rd32(&c.data[a..]) as usize;
        if v <= d {
            c.pointers.insert(a, v);
        } else {
            let s = cstr_at(bytes, 0x20 + v)?;
            c.strings.insert(a, sjis::decode(s));
        }
    }
    let mut label_table = Vec::new();
    for i in 0..n {
        let a = e.rd32(&bytes[ltab + 8 * i..]) as usize;
        let o = e.rd32(&bytes[ltab + 8 * i + 4..]) as usize;
        if a > d {
            return Err(format!("label {} address {:#x} outside the data region", i, a));
        }
        let s = cstr_at(bytes, text_start_abs + o)?;
        let name = sjis::decode(s);
        c.labels.entry(a).or_default().push(name.clone());
        label_table.push((a, name));
    }
    let mut text_runs = Vec::new();
    let mut at = text_start_abs;
    while at < bytes.len() {
        match bytes[at..].iter().position(|x| *x == 0) {
            Some(k) => {
                text_runs.push((at - text_start_abs, bytes[at..at + k].to_vec()));
                at += k + 1;
            }
            None => return Err("text section does not end with a NUL".into()),
        }
    }
    Ok(Parsed { content: c, file_size_field, data_size: d, pointer_count: p, label_count: n, text_start_abs, pointer_table, label_table, text_runs })
}

/// Does the header of `bytes` declare more data / pointers / labels than the buffer holds?
/// (C05: such input must be rejected.)
pub fn header_overdeclares(bytes: &[u8], e: End) -> bool {
    if bytes.len() < 0x20 {
        return true;
    }
    let d = e.rd32(&bytes[4..]) as u128;
    let p = e.rd32(&bytes[8..]) as u128;
    let n = e.rd32(&bytes[12..]) as u128;
    0x20 + d + 4 * p + 8 * n > bytes.len() as u128
}

// ------------------------------------------------------------------------------------
// Edit operations (C03) on the content model. Each returns Ok(()) if the operation is
// accepted, Err(()) if it must be rejected (model unchanged).

fn shift_keys<T: Clone>(m: &BTreeMap<usize, T>, f: impl Fn(usize) -> Option<usize>) -> BTreeMap<usize, T> {
    let mut out = BTreeMap::new();
    for (k, v) in m {
        if let Some(nk) = f(*k) {
            out.insert(nk, v.clone());
        }
    }
    out
}

impl Content {
    pub fn allocate_at_end(&mut self, n: usize) {
        self.data.extend(std::iter::repeat(0).take(n));
    }

    pub fn allocate(&mut self, a: usize, n: usize, ge: bool) -> Result<(), ()> {
        if a > self.size() || a % 4 != 0 || n % 4 != 0 {
            return Err(());
        }
        let tail = self.data.split_off(a);
        self.data.extend(std::iter::repeat(0).take(n));
        self.data.extend(tail);
        let cell = |k: usize| Some(if k >= a { k + n } else { k });
        let lab = |k: usize| Some(if k > a || (k == a && ge) { k + n } else { k });
        self.strings = shift_keys(&self.strings, cell);
        self.cstrings = shift_keys(&self.cstrings, cell);
        self.labels = shift_keys(&self.labels, lab);
        let mut np = BTreeMap::new();
        for (k, t) in &self.pointers {
            np.insert(cell(*k).unwrap(), lab(*t).unwrap());
        }
        self.pointers = np;
        Ok(())
    }

    /// `Err(())` = must be rejected. For (a == size, n == 0) either outcome is acceptable;
    /// callers handle that case before calling.
    pub fn deallocate(&mut self, a: usize, n: usize, ge: bool) -> Result<(), ()> {
        let size = self.size() as u128;
        if a as u128 >= size || a as u128 + n as u128 > size || a % 4 != 0 || n % 4 != 0 {
            return Err(());
        }
        self.data.drain(a..a + n);
        let inside = |k: usize| k >= a && k < a + n;
        let cell = |k: usize| if inside(k) { None } else { Some(if k >= a { k - n } else { k }) };
        let lab = |k: usize| {
            if inside(k) {
                None
            } else {
                Some(if k > a || (k == a && ge) { k - n } else { k })
            }
        };
        self.strings = shift_keys(&self.strings, cell);
        self.cstrings = shift_keys(&self.cstrings, cell);
        self.labels = shift_keys(&self.labels, lab);
        let mut np = BTreeMap::new();
        for (k, t) in &self.pointers {
            if let (Some(nk), Some(nt)) = (cell(*k), lab(*t)) {
                np.insert(nk, nt);
            }
        }
        self.pointers = np;
        Ok(())
    }

    /// Truncate at a cell boundary (a % 4 == 0).
    pub fn truncate(&mut self, a: usize) {
        if a >= self.size() {
            return;
        }
        self.data.truncate(a);
        self.strings.retain(|k, _| *k < a);
        self.cstrings.retain(|k, _| *k < a);
        self.pointers.retain(|k, _| *k < a);
        self.labels.retain(|k, _| *k < a);
    }

    fn cell_in_range(&self, a: usize) -> bool {
        (a as u128) + 4 <= self.size() as u128
    }

    pub fn write_string(&mut self, a: usize, v: Option<&str>) -> Result<(), ()> {
        if !self.cell_in_range(a) {
            return Err(());
        }
        match v {
            Some(s) => {
                self.strings.insert(a, s.to_string());
            }
            None => {
                self.strings.remove(&a);
            }
        }
        Ok(())
    }
    pub fn write_pointer(&mut self, a: usize, v: Option<usize>) -> Result<(), ()> {
        if !self.cell_in_range(a) {
            return Err(());
        }
        match v {
            Some(t) => {
                self.pointers.insert(a, t);
            }
            None => {
                self.pointers.remove(&a);
            }
        }
        Ok(())
    }
    pub fn write_c_string(&mut self, a: usize, s: &str) -> Result<(), ()> {
        if !self.cell_in_range(a) {
            return Err(());
        }
        self.cstrings.insert(a, s.to_string());
        Ok(())
    }
    pub fn write_label(&mut self, a: usize, s: &str) -> Result<(), ()> {
        if a > self.size() {
            return Err(());
        }
        self.labels.entry(a).or_default().push(s.to_string());
        Ok(())
    }
    pub fn write_labels(&mut self, a: usize, v: Vec<String>) -> Result<(), ()> {
        if a > self.size() {
            return Err(());
        }
        self.labels.insert(a, v);
        Ok(())
    }
    pub fn delete_labels(&mut self, a: usize) -> Result<(), ()> {
        if !self.cell_in_range(a) {
            return Err(());
        }
        self.labels.remove(&a);
        Ok(())
    }
    /// Err(()) also when the index is out of range for an existing bucket.
    pub fn delete_label(&mut self, a: usize, i: usize) -> Result<(), ()> {
        if !self.cell_in_range(a) {
            return Err(());
        }
        match self.labels.get_mut(&a) {
            Some(b) => {
                if i < b.len() {
                    b.remove(i);
                    Ok(())
                } else {
                    Err(())
                }
            }
            None => Ok(()),
        }
    }
}

#[cfg(test)]
mod tests {
    use super::*;
    #[test]
    fn canonical_roundtrip() {
        let mut c = Content::new(End::Little);
        c.data = vec![0; 12];
        c.strings.insert(0, "abc".into());
        c.pointers.insert(4, 8);
        c.labels.insert(0, vec!["L0".into(), "L1".into()]);
        c.labels.insert(12, vec!["end".into()]);
        let img = write_canonical(&c);
        let p = parse(&img, End::Little).unwrap();
        assert_eq!(p.content.strings, c.strings);
        assert_eq!(p.content.pointers, c.pointers);
        assert_eq!(p.content.labels, c.labels);
        for l in layout_family(&c, 3) {
            let img = write_layout(&c, &l);
            let p = parse(&img, End::Little).unwrap();
            assert_eq!(p.content.strings, c.strings);
            assert_eq!(p.content.labels, c.labels);
        }
    }
}
