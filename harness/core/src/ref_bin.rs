//! ref_bin (to be filled)
