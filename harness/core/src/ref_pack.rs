//! ref_pack (to be filled)
