//! Reference builders / readers for the two container formats layered on plain bytes and
//! on bin archives: the GameCube/Wii "pack" archive (C15) and the 3DS "arc" (C16).
//! Written from DESIGN Appendix A.

use crate::ref_bin::{self, Content, End};
use crate::sjis;

// ------------------------------------------------------------------------------------
// pack (big-endian): "pack" · count u16 · 0 u16 · count × {0, name ptr, body ptr, size} ·
// names · bodies; all pointers absolute.

#[derive(Clone, Debug)]
pub struct PackLayout {
    /// names stored after the bodies instead of before
    pub names_after: bool,
    /// bodies stored in reverse order
    pub reverse_bodies: bool,
    /// extra 32-byte gap before every body
    pub gaps: bool,
    /// names stored in reverse order
    pub reverse_names: bool,
}

pub fn pack_layouts() -> Vec<PackLayout> {
    let mut v = Vec::new();
    for names_after in [false, true] {
        for reverse_bodies in [false, true] {
            for gaps in [false, true] {
                for reverse_names in [false, true] {
                    v.push(PackLayout { names_after, reverse_bodies, gaps, reverse_names });
                }
            }
        }
    }
    v
}

fn align_to(v: &mut Vec<u8>, n: usize) {
    while v.len() % n != 0 {
        v.push(0);
    }
}

pub fn build_pack(files: &[(String, Vec<u8>)], l: &PackLayout) -> Vec<u8> {
    let n = files.len();
    let header_len = 8 + 16 * n;
    let mut tail: Vec<u8> = Vec::new(); // everything after the entry table
    let mut name_ptr = vec![0usize; n];
    let mut body_ptr = vec![0usize; n];
    let place_names = |tail: &mut Vec<u8>, name_ptr: &mut Vec<usize>| {
        let order: Vec<usize> = if l.reverse_names { (0..n).rev().collect() } else { (0..n).collect() };
        for i in order {
            name_ptr[i] = header_len + tail.len();
            tail.extend(sjis::encode(&files[i].0).expect("name outside Shift-JIS"));
            tail.push(0);
        }
    };
    let place_bodies = |tail: &mut Vec<u8>, body_ptr: &mut Vec<usize>| {
        let order: Vec<usize> = if l.reverse_bodies { (0..n).rev().collect() } else { (0..n).collect() };
        for i in order {
            while (header_len + tail.len()) % 32 != 0 {
                tail.push(0);
            }
            if l.gaps {
                tail.extend([0xEEu8; 32]);
            }
            body_ptr[i] = header_len + tail.len();
            tail.extend(&files[i].1);
        }
        while (header_len + tail.len()) % 32 != 0 {
            tail.push(0);
        }
    };
    if l.names_after {
        place_bodies(&mut tail, &mut body_ptr);
        place_names(&mut tail, &mut name_ptr);
    } else {
        place_names(&mut tail, &mut name_ptr);
        place_bodies(&mut tail, &mut body_ptr);
    }
    let mut out = Vec::new();
    out.extend(b"pack");
    out.extend((n as u16).to_be_bytes());
    out.extend([0, 0]);
    for i in 0..n {
        out.extend(0u32.to_be_bytes());
        out.extend((name_ptr[i] as u32).to_be_bytes());
        out.extend((body_ptr[i] as u32).to_be_bytes());
        out.extend((files[i].1.len() as u32).to_be_bytes());
    }
    out.extend(tail);
    out
}

/// Pack image in which a file whose bytes are a PREFIX of (or equal to) an already stored body
/// is not stored again but addressed inside that body (a de-duplicating packer). Bodies still
/// start on 32-byte boundaries; names before the bodies.
pub fn build_pack_shared(files: &[(String, Vec<u8>)], longest_first: bool) -> Vec<u8> {
    let n = files.len();
    let header_len = 8 + 16 * n;
    let mut tail: Vec<u8> = Vec::new();
    let mut name_ptr = vec![0usize; n];
    let mut body_ptr = vec![0usize; n];
    for i in 0..n {
        name_ptr[i] = header_len + tail.len();
        tail.extend(sjis::encode(&files[i].0).expect("name outside Shift-JIS"));
        tail.push(0);
    }
    let mut order: Vec<usize> = (0..n).collect();
    if longest_first {
        order.sort_by(|a, b| files[*b].1.len().cmp(&files[*a].1.len()).then(a.cmp(b)));
    }
    let mut placed: Vec<usize> = Vec::new();
    for i in order {
        if let Some(&j) = placed.iter().find(|&&j| files[j].1.starts_with(&files[i].1)) {
            body_ptr[i] = body_ptr[j];
            continue;
        }
        while (header_len + tail.len()) % 32 != 0 {
            tail.push(0);
        }
        body_ptr[i] = header_len + tail.len();
        tail.extend(&files[i].1);
        placed.push(i);
    }
    while (header_len + tail.len()) % 32 != 0 {
        tail.push(0);
    }
    let mut out = Vec::new();
    out.extend(b"pack");
    out.extend((n as u16).to_be_bytes());
    out.extend([0, 0]);
    for i in 0..n {
        out.extend(0u32.to_be_bytes());
        out.extend((name_ptr[i] as u32).to_be_bytes());
        out.extend((body_ptr[i] as u32).to_be_bytes());
        out.extend((files[i].1.len() as u32).to_be_bytes());
    }
    out.extend(tail);
    out
}

#[derive(Debug, Clone)]
pub struct PackEntry {
    pub name: String,
    pub name_ptr: usize,
    pub body_ptr: usize,
    pub size: usize,
    pub body: Vec<u8>,
}

/// Strict reader of a pack image.
pub fn read_pack(b: &[u8]) -> Result<Vec<PackEntry>, String> {
    if b.len() < 8 || &b[0..4] != b"pack" {
        return Err("no pack magic".into());
    }
    let n = u16::from_be_bytes([b[4], b[5]]) as usize;
    if 8 + 16 * n > b.len() {
        return Err("entry table runs past the file".into());
    }
    let mut v = Vec::new();
    for i in 0..n {
        let at = 8 + 16 * i;
        let rd = |o: usize| u32::from_be_bytes([b[at + o], b[at + o + 1], b[at + o + 2], b[at + o + 3]]) as usize;
        let (name_ptr, body_ptr, size) = (rd(4), rd(8), rd(12));
        if name_ptr >= b.len() {
            return Err(format!("entry {}: name pointer outside the file", i));
        }
        let end = b[name_ptr..].iter().position(|x| *x == 0).ok_or(format!("entry {}: name not terminated", i))?;
        let name = sjis::decode(&b[name_ptr..name_ptr + end]);
        if body_ptr + size > b.len() {
            return Err(format!("entry {}: body [{}, +{}) outside the file of {} bytes", i, body_ptr, size, b.len()));
        }
        v.push(PackEntry { name, name_ptr, body_ptr, size, body: b[body_ptr..body_ptr + size].to_vec() });
    }
    Ok(v)
}

// ------------------------------------------------------------------------------------
// 3DS arc = little-endian bin archive; data: [0x60 zero header] · bodies · "Count" → u32 n ·
// "Info" → n × {name string cell, u32 index, u32 size, u32 offset}

#[derive(Clone, Debug)]
pub struct ArcLayout {
    pub padded: bool,
    /// Count/Info tables before the bodies
    pub tables_first: bool,
    /// permutation of the records in the Info table
    pub record_order: Vec<usize>,
    /// permutation of the bodies in the data region
    pub body_order: Vec<usize>,
    /// Info table before the Count cell
    pub info_before_count: bool,
}

#[derive(Clone, Debug, Default)]
pub struct ArcTweak {
    pub omit_count_label: bool,
    pub omit_info_label: bool,
    /// record index whose name cell holds no string
    pub nameless_record: Option<usize>,
    /// (record index, k): the name cell holds a DATA POINTER instead of a string — to the start of
    /// the data (k = 0), to the record itself (1), to the end of the data region (2)
    pub nameless_pointer: Option<(usize, u8)>,
    /// the INDEX column of the records (the layout does not constrain it): 0 = position of the
    /// file, 1 = sparse (3·i + 2), 2 = counting down from 0xFFFF_FFFF, 3 = the same value in every record
    pub index_style: u8,
    /// (record index, new size field)
    pub size_override: Option<(usize, u32)>,
    /// (record index, new offset field)
    pub offset_override: Option<(usize, u32)>,
    /// retail style: every Info record additionally carries a label spelling its file name
    /// (0 = no, 1 = after "Info" on the first record, 2 = before it); names "Count"/"Info" are skipped
    pub label_records: u8,
    /// retail style: a label "Data" on the start of the body block
    pub data_label: bool,
    /// files with equal contents share ONE stored body (a de-duplicating packer)
    pub share_equal_bodies: bool,
    /// 0 = canonical label table; k > 0 = the k-th permutation of the label table that keeps the
    /// order of labels on one address (labels of one address need not be adjacent in the table)
    pub label_table_perm: usize,
    /// text section with tail sharing (a name that is the tail of another is stored inside it)
    pub tail_shared_text: bool,
}

pub struct ArcImage {
    pub bytes: Vec<u8>,
    /// data-region size (for planting out-of-range fields)
    pub data_size: usize,
    /// absolute data address of each file body, by file index
    pub body_addr: Vec<usize>,
    pub padded: bool,
}

pub fn build_arc(files: &[(String, Vec<u8>)], l: &ArcLayout, tw: &ArcTweak) -> ArcImage {
    let n = files.len();
    let mut c = Content::new(End::Little);
    let mut data: Vec<u8> = Vec::new();
    if l.padded {
        data.extend([0u8; 0x60]);
    } else {
        // a leading non-zero word tells the reader there is no padded header
        data.extend(0xC0DE_F11Eu32.to_le_bytes());
    }
    let mut body_addr = vec![0usize; n];
    let mut count_addr = 0usize;
    let mut info_addr = 0usize;
    let place_bodies = |data: &mut Vec<u8>, body_addr: &mut Vec<usize>| {
        let mut placed: Vec<usize> = Vec::new();
        for &i in &l.body_order {
            if tw.share_equal_bodies {
                if let Some(&j) = placed.iter().find(|&&j| files[j].1 == files[i].1) {
                    body_addr[i] = body_addr[j];
                    continue;
                }
            }
            body_addr[i] = data.len();
            data.extend(&files[i].1);
            align_to(data, 4);
            placed.push(i);
        }
    };
    let place_tables = |data: &mut Vec<u8>, count_addr: &mut usize, info_addr: &mut usize| {
        let put_count = |data: &mut Vec<u8>, count_addr: &mut usize| {
            *count_addr = data.len();
            data.extend((n as u32).to_le_bytes());
        };
        let put_info = |data: &mut Vec<u8>, info_addr: &mut usize| {
            *info_addr = data.len();
            data.extend(std::iter::repeat(0u8).take(16 * n));
        };
        if l.info_before_count {
            put_info(data, info_addr);
            put_count(data, count_addr);
        } else {
            put_count(data, count_addr);
            put_info(data, info_addr);
        }
    };
    let bodies_start;
    if l.tables_first {
        place_tables(&mut data, &mut count_addr, &mut info_addr);
        bodies_start = data.len();
        place_bodies(&mut data, &mut body_addr);
    } else {
        bodies_start = data.len();
        place_bodies(&mut data, &mut body_addr);
        place_tables(&mut data, &mut count_addr, &mut info_addr);
    }
    // fill the Info records
    let base = if l.padded { 0x60 } else { 0 };
    for (slot, &fi) in l.record_order.iter().enumerate() {
        let at = info_addr + 16 * slot;
        if let Some((r, k)) = tw.nameless_pointer {
            if r == slot {
                let target = match k {
                    0 => 0,
                    1 => at,
                    _ => data.len(),
                };
                c.pointers.insert(at, target);
            }
        }
        if tw.nameless_record != Some(slot) && tw.nameless_pointer.map(|x| x.0) != Some(slot) {
            c.strings.insert(at, files[fi].0.clone());
        }
        let mut size = files[fi].1.len() as u32;
        let mut off = (body_addr[fi] - base) as u32;
        if let Some((r, s)) = tw.size_override {
            if r == slot {
                size = s;
            }
        }
        if let Some((r, o)) = tw.offset_override {
            if r == slot {
                off = o;
            }
        }
        let index_field: u32 = match tw.index_style {
            0 => fi as u32,
            1 => 3 * fi as u32 + 2,
            2 => 0xFFFF_FFFF - fi as u32,
            _ => 7,
        };
        data[at + 4..at + 8].copy_from_slice(&index_field.to_le_bytes());
        data[at + 8..at + 12].copy_from_slice(&size.to_le_bytes());
        data[at + 12..at + 16].copy_from_slice(&off.to_le_bytes());
    }
    c.data = data;
    if tw.data_label {
        c.labels.entry(bodies_start).or_default().push("Data".into());
    }
    let record_label = |c: &mut Content, slot: usize| {
        let name = &files[l.record_order[slot]].0;
        if name != "Count" && name != "Info" && !name.is_empty() {
            c.labels.entry(info_addr + 16 * slot).or_default().push(name.clone());
        }
    };
    if tw.label_records == 2 {
        for slot in 0..n {
            record_label(&mut c, slot);
        }
    }
    if !tw.omit_count_label {
        c.labels.entry(count_addr).or_default().push("Count".into());
    }
    if !tw.omit_info_label {
        c.labels.entry(info_addr).or_default().push("Info".into());
    }
    if tw.label_records == 1 {
        for slot in 0..n {
            record_label(&mut c, slot);
        }
    }
    let data_size = c.data.len();
    let mut layout = ref_bin::canonical_layout(&c);
    if tw.label_table_perm > 0 {
        let perms = ref_bin::label_table_perms(&c);
        layout.label_perm = perms[tw.label_table_perm % perms.len()].clone();
    }
    if tw.tail_shared_text {
        layout.text_order = ref_bin::TextOrder::TailShared;
    }
    ArcImage { bytes: ref_bin::write_layout(&c, &layout), data_size, body_addr, padded: l.padded }
}

pub fn arc_layouts(n: usize) -> Vec<ArcLayout> {
    let perms = crate::util::permutations(n);
    let mut v = Vec::new();
    for padded in [true, false] {
        for tables_first in [false, true] {
            for info_before_count in [false, true] {
                for ro in &perms {
                    for bo in &perms {
                        v.push(ArcLayout { padded, tables_first, record_order: ro.clone(), body_order: bo.clone(), info_before_count });
                    }
                }
            }
        }
    }
    v
}
