//! Common main() for every property binary: argument handling, the two-build
//! coordinator, known-finding matching, replay artefacts, evidence, exit codes.
//!
//! Exit codes: 0 = property held on everything explored (KNOWN-FINDING lines may have
//! been printed), 1 = at least one unlisted violation (VIOLATION lines printed),
//! 2 = machinery error (never a verdict).

use serde::{Deserialize, Serialize};
use serde_json::{json, Map, Value};
use std::path::{Path, PathBuf};
use std::time::Instant;

#[derive(Clone, Copy, Debug, PartialEq, Eq)]
pub enum Tier {
    Quick,
    Thorough,
}

impl Tier {
    pub fn name(self) -> &'static str {
        match self {
            Tier::Quick => "quick",
            Tier::Thorough => "thorough",
        }
    }
    pub fn pick<T>(self, q: T, t: T) -> T {
        match self {
            Tier::Quick => q,
            Tier::Thorough => t,
        }
    }
}

/// Which arithmetic build this process is (the `checked` profile turns on
/// debug-assertions together with overflow-checks, for mila and harness alike).
static BUILD_OVERRIDE: std::sync::OnceLock<&'static str> = std::sync::OnceLock::new();

/// A binary linked against a differently configured mila (e.g. the `verif-hooks` feature)
/// names its build before calling `run_main`.
pub fn set_build_name(name: &'static str) {
    let _ = BUILD_OVERRIDE.set(name);
}

pub fn build_name() -> &'static str {
    if let Some(n) = BUILD_OVERRIDE.get() {
        return n;
    }
    if cfg!(debug_assertions) {
        "checked"
    } else {
        "unchecked"
    }
}

pub struct Ctx {
    pub prop: &'static str,
    pub tier: Tier,
    pub seed: u64,
    pub build: &'static str,
    pub root: PathBuf,
    pub exe: PathBuf,
    pub checked_bin: Option<PathBuf>,
    /// twin binary linked against mila built with the `verif-hooks` feature (owned hash order)
    pub hooked_bin: Option<PathBuf>,
    pub start: Instant,
    pub args: Vec<String>,
}

impl Ctx {
    pub fn is_checked(&self) -> bool {
        self.build == "checked"
    }
    pub fn elapsed(&self) -> f64 {
        self.start.elapsed().as_secs_f64()
    }
    /// Scratch directory for this run (tmpfs when available), removed by `cleanup_scratch`.
    pub fn scratch(&self, tag: &str) -> PathBuf {
        let base = if Path::new("/dev/shm").is_dir() {
            PathBuf::from("/dev/shm")
        } else {
            std::env::temp_dir()
        };
        let p = base.join(format!(
            "mila_verif_{}_{}_{}_{}_{}",
            self.prop,
            self.build,
            tag,
            std::process::id(),
            self.seed
        ));
        let _ = std::fs::remove_dir_all(&p);
        std::fs::create_dir_all(&p).expect("create scratch");
        p
    }
}

#[derive(Serialize, Deserialize, Clone, Debug)]
pub struct Violation {
    /// Stable identification of *what* fails (call site / input class); matched
    /// against known_findings.json.
    pub sig: String,
    /// One line for humans.
    pub summary: String,
    /// The exact case, replayable with `--replay`.
    pub case: Value,
}

#[derive(Serialize, Deserialize, Clone, Debug, Default)]
pub struct Coverage {
    pub evaluations: u64,
    pub distinct_nontrivial: u64,
    pub rule: String,
    pub samples: Vec<Value>,
    pub states: u64,
    pub transitions: u64,
    pub traces_validated_against_impl: u64,
    pub exhaustive: bool,
    /// Free-form measured details (bounds completed, histograms, witnesses ...).
    pub extra: Map<String, Value>,
}

#[derive(Serialize, Deserialize, Clone, Debug, Default)]
pub struct Outcome {
    pub coverage: Coverage,
    pub violations: Vec<Violation>,
    pub assumptions: Vec<String>,
    pub machinery_errors: Vec<String>,
    #[serde(default)]
    pub wall_s: f64,
    #[serde(default)]
    pub build: String,
}

impl Outcome {
    /// Recorded in the evidence and printed, never changes the exit code.
    pub fn warn(&mut self, msg: impl Into<String>) {
        let msg = msg.into();
        eprintln!("NOTE: {}", msg);
        let w = self.coverage.extra.entry("warnings".to_string()).or_insert_with(|| Value::Array(vec![]));
        if let Value::Array(a) = w {
            a.push(Value::String(msg));
        }
    }
    pub fn machinery(&mut self, msg: impl Into<String>) {
        self.machinery_errors.push(msg.into());
    }
    pub fn violate(&mut self, sig: impl Into<String>, summary: impl Into<String>, case: Value) {
        // keep at most 40 per signature to bound memory, and 400 overall
        let sig = sig.into();
        if self.violations.len() >= 400 {
            return;
        }
        if self.violations.iter().filter(|v| v.sig == sig).count() >= 40 {
            return;
        }
        self.violations.push(Violation {
            sig,
            summary: summary.into(),
            case,
        });
    }
}

#[derive(Deserialize, Debug, Clone)]
pub struct Finding {
    pub property: String,
    pub signature: String,
    pub status: String,
    #[serde(default)]
    pub commit: Option<String>,
    #[serde(default)]
    pub description: String,
}

#[derive(Deserialize, Debug, Default)]
struct FindingsFile {
    #[serde(default)]
    findings: Vec<Finding>,
}

pub struct PropDef {
    pub id: &'static str,
    /// evidence `level`
    pub level: &'static str,
    /// run every case in the `checked` build too (at every tier / only thorough / never)
    pub both_builds: BothBuilds,
    pub explore: fn(&Ctx) -> Outcome,
    /// Re-execute one recorded case without the explorer; returns the violations it shows.
    pub replay: fn(&Ctx, &Value) -> Vec<Violation>,
    /// E3 worker entry (reads cases on stdin); None if the property does not use E3.
    pub worker: Option<fn(&Ctx)>,
}

#[derive(Clone, Copy, PartialEq, Eq)]
pub enum BothBuilds {
    Always,
    ThoroughOnly,
    Never,
}

fn arg_value(args: &[String], name: &str) -> Option<String> {
    args.iter()
        .position(|a| a == name)
        .and_then(|i| args.get(i + 1).cloned())
}

fn hash_hex(s: &str) -> String {
    // FNV-1a 64 — only used to name replay files.
    let mut h: u64 = 0xcbf29ce484222325;
    for b in s.as_bytes() {
        h ^= *b as u64;
        h = h.wrapping_mul(0x100000001b3);
    }
    format!("{:016x}", h)
}

pub fn run_main(def: PropDef) -> ! {
    let args: Vec<String> = std::env::args().collect();
    let root = PathBuf::from(std::env::var("VERIF_ROOT").unwrap_or_else(|_| "/verif".into()));
    let tier = match arg_value(&args, "--tier")
        .or_else(|| std::env::var("VERIF_TIER").ok())
        .as_deref()
    {
        Some("thorough") => Tier::Thorough,
        _ => Tier::Quick,
    };
    let seed = std::env::var("VERIF_SEED")
        .ok()
        .and_then(|s| s.parse::<u64>().ok())
        .unwrap_or(0);
    let ctx = Ctx {
        prop: def.id,
        tier,
        seed,
        build: build_name(),
        root: root.clone(),
        exe: std::env::current_exe().expect("current_exe"),
        checked_bin: arg_value(&args, "--checked-bin").map(PathBuf::from),
        hooked_bin: arg_value(&args, "--hooked-bin").map(PathBuf::from),
        start: Instant::now(),
        args: args.clone(),
    };

    if args.iter().any(|a| a == "--worker") {
        match def.worker {
            Some(w) => {
                w(&ctx);
                std::process::exit(0);
            }
            None => {
                eprintln!("{}: no worker mode", def.id);
                std::process::exit(2);
            }
        }
    }

    if let Some(path) = arg_value(&args, "--replay") {
        crate::util::install_quiet_panic_hook();
        let text = std::fs::read_to_string(&path).unwrap_or_else(|e| {
            eprintln!("cannot read replay file {}: {}", path, e);
            std::process::exit(2)
        });
        let v: Value = serde_json::from_str(&text).unwrap_or_else(|e| {
            eprintln!("bad replay file {}: {}", path, e);
            std::process::exit(2)
        });
        let want_build = v.get("build").and_then(|b| b.as_str()).unwrap_or("unchecked");
        if want_build != ctx.build {
            let twin = match want_build {
                "checked" => ctx.checked_bin.clone(),
                "hooked" => ctx.hooked_bin.clone(),
                _ => None,
            };
            if let Some(cb) = &twin {
                let st = std::process::Command::new(cb)
                    .args(["--replay", &path])
                    .env("VERIF_ROOT", &root)
                    .status()
                    .expect("spawn checked replay");
                std::process::exit(st.code().unwrap_or(2));
            }
            eprintln!(
                "replay artefact was recorded in the '{}' build; this binary is '{}'",
                want_build, ctx.build
            );
            std::process::exit(2);
        }
        let case = v.get("case").cloned().unwrap_or(Value::Null);
        let vs = (def.replay)(&ctx, &case);
        if vs.is_empty() {
            println!("REPLAY property={} result=pass (no violation reproduced)", def.id);
            std::process::exit(0);
        }
        for x in &vs {
            println!("REPLAY property={} result=violation sig={} :: {}", def.id, x.sig, x.summary);
        }
        std::process::exit(1);
    }

    let partial = arg_value(&args, "--partial");
    let want_checked = partial.is_none()
        && ctx.build == "unchecked"
        && match def.both_builds {
            BothBuilds::Always => true,
            BothBuilds::ThoroughOnly => tier == Tier::Thorough,
            BothBuilds::Never => false,
        };

    // Start the checked-build twin (same bounds) concurrently.
    let mut child = None;
    let partial_path = root.join("target").join("partial").join(format!(
        "{}.checked.{}.json",
        def.id,
        std::process::id()
    ));
    if want_checked {
        match &ctx.checked_bin {
            Some(cb) if cb.exists() => {
                let _ = std::fs::create_dir_all(partial_path.parent().unwrap());
                let _ = std::fs::remove_file(&partial_path);
                let c = std::process::Command::new(cb)
                    .args(["--tier", tier.name(), "--partial"])
                    .arg(&partial_path)
                    .env("VERIF_ROOT", &root)
                    .env("VERIF_SEED", seed.to_string())
                    .stdout(std::process::Stdio::inherit())
                    .stderr(std::process::Stdio::inherit())
                    .spawn();
                match c {
                    Ok(c) => child = Some(c),
                    Err(e) => {
                        eprintln!("MACHINERY: cannot spawn checked build {}: {}", cb.display(), e);
                        std::process::exit(2);
                    }
                }
            }
            _ => {
                eprintln!(
                    "MACHINERY: property {} needs the checked build but --checked-bin is missing",
                    def.id
                );
                std::process::exit(2);
            }
        }
    }

    // Start the hooked twin (mila built with the verif-hooks feature), when the check has one.
    let mut hooked_child = None;
    let hooked_partial = root.join("target").join("partial").join(format!(
        "{}.hooked.{}.json",
        def.id,
        std::process::id()
    ));
    if partial.is_none() && ctx.build == "unchecked" {
        if let Some(hb) = &ctx.hooked_bin {
            if !hb.exists() {
                eprintln!("MACHINERY: hooked binary {} is missing", hb.display());
                std::process::exit(2);
            }
            let _ = std::fs::create_dir_all(hooked_partial.parent().unwrap());
            let _ = std::fs::remove_file(&hooked_partial);
            match std::process::Command::new(hb)
                .args(["--tier", tier.name(), "--partial"])
                .arg(&hooked_partial)
                .env("VERIF_ROOT", &root)
                .env("VERIF_SEED", seed.to_string())
                .spawn()
            {
                Ok(c) => hooked_child = Some(c),
                Err(e) => {
                    eprintln!("MACHINERY: cannot spawn hooked build {}: {}", hb.display(), e);
                    std::process::exit(2);
                }
            }
        }
    }

    // Silence the default panic message: panics of the subject are caught and reported
    // by the harness; the location is captured through util::catch.
    crate::util::install_quiet_panic_hook();

    // A panic of the harness itself (not of the subject, which is always run under
    // util::catch) is a machinery error, never a verdict and never an unexplained crash.
    let mut out = match crate::util::catch(|| (def.explore)(&ctx)) {
        Ok(o) => o,
        Err(p) => {
            let mut o = Outcome::default();
            o.machinery(format!("the harness panicked at {}: {}", p.location, p.message));
            o
        }
    };
    out.wall_s = ctx.elapsed();
    out.build = ctx.build.to_string();

    // Confirm every violation by replaying it twice (determinism of the report).
    let mut confirmed = Vec::new();
    let mut seen_sigs: Vec<String> = Vec::new();
    for v in out.violations.drain(..) {
        let first_of_sig = !seen_sigs.contains(&v.sig);
        if first_of_sig {
            seen_sigs.push(v.sig.clone());
            let r1 = (def.replay)(&ctx, &v.case);
            let r2 = (def.replay)(&ctx, &v.case);
            let ok1 = r1.iter().any(|x| x.sig == v.sig);
            let ok2 = r2.iter().any(|x| x.sig == v.sig);
            if !(ok1 && ok2) {
                out.machinery_errors.push(format!(
                    "violation '{}' did not reproduce on replay ({} / {}): {}",
                    v.sig, ok1, ok2, v.summary
                ));
                continue;
            }
        }
        confirmed.push(v);
    }
    out.violations = confirmed;

    if let Some(p) = partial {
        let text = serde_json::to_string(&out).expect("serialize outcome");
        std::fs::write(&p, text).expect("write partial");
        std::process::exit(if out.machinery_errors.is_empty() { 0 } else { 2 });
    }

    let mut outcomes = vec![out];
    if let Some(mut c) = child {
        let st = c.wait().expect("wait checked child");
        match std::fs::read_to_string(&partial_path)
            .ok()
            .and_then(|t| serde_json::from_str::<Outcome>(&t).ok())
        {
            Some(o) => outcomes.push(o),
            None => {
                eprintln!(
                    "MACHINERY: checked build of {} produced no result (status {:?})",
                    def.id, st
                );
                std::process::exit(2);
            }
        }
        let _ = std::fs::remove_file(&partial_path);
    }

    if let Some(mut c) = hooked_child {
        let st = c.wait().expect("wait hooked child");
        match std::fs::read_to_string(&hooked_partial)
            .ok()
            .and_then(|t| serde_json::from_str::<Outcome>(&t).ok())
        {
            Some(o) => outcomes.push(o),
            None => {
                eprintln!(
                    "MACHINERY: hooked build of {} produced no result (status {:?})",
                    def.id, st
                );
                std::process::exit(2);
            }
        }
        let _ = std::fs::remove_file(&hooked_partial);
    }

    finish(&ctx, &def, outcomes)
}

fn finish(ctx: &Ctx, def: &PropDef, outcomes: Vec<Outcome>) -> ! {
    let known_path = ctx.root.join("known_findings.json");
    let findings: Vec<Finding> = std::fs::read_to_string(&known_path)
        .ok()
        .and_then(|t| serde_json::from_str::<FindingsFile>(&t).ok())
        .unwrap_or_default()
        .findings
        .into_iter()
        .filter(|f| f.property == def.id)
        .collect();

    let mut machinery: Vec<String> = Vec::new();
    let mut known_lines: Vec<String> = Vec::new();
    let mut viol_lines: Vec<String> = Vec::new();
    let mut n_viol = 0i64;
    let mut n_known = 0i64;
    let replay_dir = ctx.root.join("replays").join(def.id);

    // merged coverage
    let mut cov = Map::new();
    let mut evaluations = 0u64;
    let mut distinct = 0u64;
    let mut states = 0u64;
    let mut transitions = 0u64;
    let mut traces = 0u64;
    let mut exhaustive = true;
    let mut builds = Map::new();
    let mut assumptions: Vec<String> = Vec::new();
    for (i, o) in outcomes.iter().enumerate() {
        evaluations += o.coverage.evaluations;
        distinct = distinct.max(o.coverage.distinct_nontrivial);
        states = states.max(o.coverage.states);
        transitions += o.coverage.transitions;
        traces += o.coverage.traces_validated_against_impl;
        exhaustive &= o.coverage.exhaustive;
        if i == 0 {
            cov.insert("rule".into(), json!(o.coverage.rule));
            cov.insert("samples".into(), json!(o.coverage.samples));
            for (k, v) in &o.coverage.extra {
                cov.insert(k.clone(), v.clone());
            }
        }
        let mut b = o.coverage.extra.clone();
        b.insert("evaluations".into(), json!(o.coverage.evaluations));
        b.insert("distinct_nontrivial".into(), json!(o.coverage.distinct_nontrivial));
        b.insert("states".into(), json!(o.coverage.states));
        b.insert("transitions".into(), json!(o.coverage.transitions));
        b.insert("wall_s".into(), json!(o.wall_s));
        b.insert("violations".into(), json!(o.violations.len()));
        builds.insert(o.build.clone(), Value::Object(b));
        for a in &o.assumptions {
            if !assumptions.contains(a) {
                assumptions.push(a.clone());
            }
        }
        for m in &o.machinery_errors {
            machinery.push(format!("[{}] {}", o.build, m));
        }

        let mut reported: Vec<String> = Vec::new();
        for v in &o.violations {
            let is_known = findings
                .iter()
                .any(|f| f.status == "known" && f.signature == v.sig);
            if is_known {
                n_known += 1;
                let line = format!("KNOWN-FINDING: property={} {} [{}]", def.id, v.sig, o.build);
                if !known_lines.contains(&line) {
                    known_lines.push(line);
                }
                continue;
            }
            n_viol += 1;
            if reported.contains(&v.sig) || viol_lines.len() >= 25 {
                continue;
            }
            reported.push(v.sig.clone());
            let _ = std::fs::create_dir_all(&replay_dir);
            let art = json!({
                "property": def.id,
                "build": o.build,
                "sig": v.sig,
                "summary": v.summary,
                "case": v.case,
            });
            let name = format!("{}_{}.json", o.build, hash_hex(&format!("{}{}", v.sig, v.case)));
            let path = replay_dir.join(name);
            if let Err(e) = std::fs::write(&path, serde_json::to_string_pretty(&art).unwrap()) {
                machinery.push(format!("cannot write replay artefact {}: {}", path.display(), e));
            }
            viol_lines.push(format!(
                "VIOLATION property={} replay={}",
                def.id,
                path.display()
            ));
            eprintln!("  [{}] {} :: {}", o.build, v.sig, v.summary);
        }
    }
    cov.insert("evaluations".into(), json!(evaluations));
    cov.insert("distinct_nontrivial".into(), json!(distinct));
    cov.insert("states".into(), json!(states));
    cov.insert("transitions".into(), json!(transitions));
    cov.insert("traces_validated_against_impl".into(), json!(traces));
    cov.insert("exhaustive".into(), json!(exhaustive));
    cov.insert("builds".into(), Value::Object(builds));
    cov.insert("known_findings_matched".into(), json!(n_known));
    if !machinery.is_empty() {
        cov.insert("machinery_errors".into(), json!(machinery));
    }

    let ev = json!({
        "property_id": def.id,
        "tier": ctx.tier.name(),
        "seed": ctx.seed,
        "level": def.level,
        "coverage": Value::Object(cov),
        "assumptions": assumptions,
        "wall_s": ctx.elapsed(),
        "violations": n_viol,
    });
    let ev_path = ctx.root.join("evidence").join(format!("{}.json", def.id));
    let _ = std::fs::create_dir_all(ev_path.parent().unwrap());
    if let Err(e) = std::fs::write(&ev_path, serde_json::to_string_pretty(&ev).unwrap()) {
        eprintln!("MACHINERY: cannot write evidence {}: {}", ev_path.display(), e);
        std::process::exit(2);
    }

    for l in &known_lines {
        println!("{}", l);
    }
    for l in &viol_lines {
        println!("{}", l);
    }
    println!(
        "{} {} [{}]: evaluations={} states={} transitions={} distinct_nontrivial={} violations={} known={} wall={:.1}s",
        def.id,
        ctx.tier.name(),
        outcomes.iter().map(|o| o.build.as_str()).collect::<Vec<_>>().join("+"),
        evaluations,
        states,
        transitions,
        distinct,
        n_viol,
        n_known,
        ctx.elapsed()
    );
    if !machinery.is_empty() {
        for m in &machinery {
            eprintln!("MACHINERY: {}", m);
        }
        if viol_lines.is_empty() {
            std::process::exit(2);
        }
    }
    std::process::exit(if viol_lines.is_empty() { 0 } else { 1 })
}
