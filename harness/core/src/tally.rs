//! Mergeable per-thread statistics for bounded-exhaustive sweeps (engine E2).

use crate::driver::{Coverage, Outcome, Violation};
use serde_json::{json, Value};
use std::collections::BTreeMap;

#[derive(Default, Clone, Debug, serde::Serialize, serde::Deserialize)]
pub struct Tally {
    /// cases executed (each a distinct member of the enumerated family)
    pub cases: u64,
    /// cases that are non-trivial by the property's rule
    pub nontrivial: u64,
    /// calls into mila made
    pub calls: u64,
    /// histogram of observed outcome classes / structural classes
    pub classes: BTreeMap<String, u64>,
    pub violations: Vec<Violation>,
    pub samples: Vec<Value>,
}

impl Tally {
    pub fn new() -> Self {
        Self::default()
    }
    pub fn class(&mut self, name: &str) {
        *self.classes.entry(name.to_string()).or_insert(0) += 1;
    }
    pub fn class_n(&mut self, name: &str, n: u64) {
        *self.classes.entry(name.to_string()).or_insert(0) += n;
    }
    pub fn sample(&mut self, v: Value) {
        if self.samples.len() < 4 {
            self.samples.push(v);
        }
    }
    pub fn violate(&mut self, sig: impl Into<String>, summary: impl Into<String>, case: Value) {
        let sig = sig.into();
        if self.violations.len() >= 200 {
            return;
        }
        if self.violations.iter().filter(|v| v.sig == sig).count() >= 8 {
            return;
        }
        self.violations.push(Violation {
            sig,
            summary: summary.into(),
            case,
        });
    }
    pub fn merge(mut self, other: Tally) -> Tally {
        self.cases += other.cases;
        self.nontrivial += other.nontrivial;
        self.calls += other.calls;
        for (k, v) in other.classes {
            *self.classes.entry(k).or_insert(0) += v;
        }
        for v in other.violations {
            if self.violations.len() < 400 {
                self.violations.push(v);
            }
        }
        for s in other.samples {
            if self.samples.len() < 6 {
                self.samples.push(s);
            }
        }
        self
    }
    pub fn absorb(&mut self, other: Tally) {
        let me = std::mem::take(self);
        *self = me.merge(other);
    }

    /// Turn the tally into an Outcome. `layers` documents the completed bounds.
    pub fn into_outcome(self, rule: &str, exhaustive: bool, extra: Vec<(&str, Value)>) -> Outcome {
        let mut cov = Coverage {
            evaluations: self.cases,
            distinct_nontrivial: self.nontrivial,
            rule: rule.to_string(),
            samples: self.samples,
            states: self.cases,
            transitions: self.calls,
            traces_validated_against_impl: self.cases,
            exhaustive,
            extra: Default::default(),
        };
        cov.extra.insert("outcome_classes".into(), json!(self.classes));
        cov.extra
            .insert("distinct_outcome_classes".into(), json!(self.classes.len()));
        for (k, v) in extra {
            cov.extra.insert(k.to_string(), v);
        }
        // violations are sorted so that the report does not depend on thread timing
        let mut violations = self.violations;
        violations.sort_by(|a, b| {
            (a.sig.as_str(), a.case.to_string().len(), a.case.to_string())
                .cmp(&(b.sig.as_str(), b.case.to_string().len(), b.case.to_string()))
        });
        Outcome {
            coverage: cov,
            violations,
            assumptions: vec![],
            machinery_errors: vec![],
            wall_s: 0.0,
            build: String::new(),
        }
    }
}
