//! ref_text (to be filled)
