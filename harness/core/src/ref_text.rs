//! Reference model of a text archive: insertion-ordered map with newline escaping (C07)
//! and an independent reader of the file image (C06).

use crate::ref_bin::{self, End};
use crate::sjis;

#[derive(Clone, Copy, Debug, PartialEq, Eq, Hash)]
pub enum Fmt {
    ShiftJis,
    Unicode,
}

/// What `set_message` stores: every two-character sequence backslash,'n' becomes a newline
/// (left to right, non-overlapping).
pub fn unescape(m: &str) -> String {
    let mut out = String::new();
    let cs: Vec<char> = m.chars().collect();
    let mut i = 0;
    while i < cs.len() {
        if cs[i] == '\\' && i + 1 < cs.len() && cs[i + 1] == 'n' {
            out.push('\n');
            i += 2;
        } else {
            out.push(cs[i]);
            i += 1;
        }
    }
    out
}

/// What `get_message` returns: every newline comes back as backslash,'n'.
pub fn escape(stored: &str) -> String {
    let mut out = String::new();
    for c in stored.chars() {
        if c == '\n' {
            out.push('\\');
            out.push('n');
        } else {
            out.push(c);
        }
    }
    out
}

#[derive(Clone, Debug, PartialEq, Eq, Hash)]
pub struct TextModel {
    pub title: String,
    /// stored (unescaped) values in insertion order
    pub entries: Vec<(String, String)>,
    pub dirty: bool,
}

impl TextModel {
    pub fn new() -> Self {
        TextModel { title: String::new(), entries: vec![], dirty: false }
    }
    pub fn set_message(&mut self, k: &str, m: &str) {
        let v = unescape(m);
        match self.entries.iter_mut().find(|(key, _)| key == k) {
            Some(e) => e.1 = v,
            None => self.entries.push((k.to_string(), v)),
        }
        self.dirty = true;
    }
    pub fn delete_message(&mut self, k: &str) {
        self.entries.retain(|(key, _)| key != k);
    }
    pub fn get_message(&self, k: &str) -> Option<String> {
        self.entries.iter().find(|(key, _)| key == k).map(|(_, v)| escape(v))
    }
    pub fn has_message(&self, k: &str) -> bool {
        self.entries.iter().any(|(key, _)| key == k)
    }
}

impl Default for TextModel {
    fn default() -> Self {
        Self::new()
    }
}

#[derive(Debug, Clone, PartialEq, Eq)]
pub struct ReadBack {
    pub title: Option<String>,
    /// (record start address, key = first label on that address, message)
    pub records: Vec<(usize, Option<String>, String)>,
}

/// Independent reader of a text-archive image (DESIGN Appendix A). Strict: any deviation
/// (unaligned record, missing terminator, leftover bytes, pointers present) is an Err.
pub fn read_image(bytes: &[u8], fmt: Fmt, e: End) -> Result<ReadBack, String> {
    let p = ref_bin::parse(bytes, e)?;
    if p.pointer_count != 0 {
        return Err(format!("text archive image has {} pointers", p.pointer_count));
    }
    let d = &p.content.data;
    let mut pos = 0usize;
    let pad4 = |x: usize| (x + 3) / 4 * 4;
    let mut title = None;
    if fmt == Fmt::Unicode {
        let n = d.iter().position(|b| *b == 0).ok_or("title is not NUL-terminated")?;
        title = Some(sjis::decode(&d[..n]));
        let end = pad4(n + 1);
        if end > d.len() || d[n..end].iter().any(|b| *b != 0) {
            return Err("title padding is not zero / runs past the data".into());
        }
        pos = end;
    }
    let mut records = Vec::new();
    while pos < d.len() {
        if pos % 4 != 0 {
            return Err(format!("record at {} is not 4-byte aligned", pos));
        }
        let start = pos;
        let msg;
        match fmt {
            Fmt::ShiftJis => {
                let n = d[pos..].iter().position(|b| *b == 0).ok_or(format!("message at {} is not terminated", pos))?;
                msg = sjis::decode(&d[pos..pos + n]);
                pos += n + 1;
            }
            Fmt::Unicode => {
                let mut units: Vec<u16> = Vec::new();
                loop {
                    if pos + 2 > d.len() {
                        return Err(format!("message at {} is not terminated", start));
                    }
                    let u = u16::from_le_bytes([d[pos], d[pos + 1]]);
                    pos += 2;
                    if u == 0 {
                        break;
                    }
                    units.push(u);
                }
                msg = String::from_utf16(&units).map_err(|_| format!("message at {} is not valid UTF-16", start))?;
            }
        }
        let end = pad4(pos);
        if end > d.len() || d[pos..end].iter().any(|b| *b != 0) {
            return Err(format!("padding after the message at {} is not zero / runs past the data", start));
        }
        pos = end;
        let key = p.content.labels.get(&start).and_then(|v| v.first().cloned());
        records.push((start, key, msg));
    }
    // every label must sit on a record start
    for a in p.content.labels.keys() {
        if !records.iter().any(|r| r.0 == *a) {
            return Err(format!("label on address {} which is not the start of a message", a));
        }
    }
    Ok(ReadBack { title, records })
}

#[cfg(test)]
mod tests {
    use super::*;
    #[test]
    fn esc() {
        assert_eq!(unescape("a\\nb"), "a\nb");
        assert_eq!(unescape("\\\\n"), "\\\n");
        assert_eq!(escape("a\nb"), "a\\nb");
        assert_eq!(unescape(&escape("x\n\\y")), "x\n\\y");
    }
}

/// Reference WRITER of a text-archive image (DESIGN Appendix A), independent of mila: a bin
/// archive whose data is `[title: Shift-JIS, NUL, pad to 4]` (UTF-16 format only) followed by one
/// record per entry `[message: Shift-JIS | UTF-16LE code units, NUL | NUL NUL, pad to 4]`, the
/// entry's key being the label on the record's start address. Stored messages are written as
/// given (no escaping). Returns None if a title / key / Shift-JIS message is not encodable.
pub fn write_image(fmt: Fmt, e: End, title: &str, entries: &[(String, String)]) -> Option<Vec<u8>> {
    let mut c = ref_bin::Content::new(e);
    let mut d: Vec<u8> = Vec::new();
    let pad4 = |d: &mut Vec<u8>| {
        while d.len() % 4 != 0 {
            d.push(0);
        }
    };
    if fmt == Fmt::Unicode {
        d.extend(crate::sjis::encode(title)?);
        d.push(0);
        pad4(&mut d);
    }
    for (k, m) in entries {
        crate::sjis::encode(k)?;
        c.labels.entry(d.len()).or_default().push(k.clone());
        match fmt {
            Fmt::ShiftJis => {
                d.extend(crate::sjis::encode(m)?);
                d.push(0);
            }
            Fmt::Unicode => {
                for u in m.encode_utf16() {
                    d.extend(u.to_le_bytes());
                }
                d.extend([0, 0]);
            }
        }
        pad4(&mut d);
    }
    c.data = d;
    Some(ref_bin::write_canonical(&c))
}
