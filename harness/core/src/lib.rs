//! vcore — engines, evidence/replay writers and reference models (oracles).
//! This crate deliberately has NO dependency on mila: everything here is either
//! machinery or an independently written specification of a format.

pub mod alloc;
pub mod bfs;
pub mod collide;
pub mod driver;
pub mod isolate;
pub mod tally;
pub mod util;

pub mod ref_aset;
pub mod ref_bin;
pub mod ref_lz;
pub mod ref_loc;
pub mod ref_pack;
pub mod ref_pix;
pub mod ref_tex;
pub mod ref_text;
pub mod sjis;

pub use driver::{run_main, Ctx, Outcome, Tier, Violation};
pub use tally::Tally;
