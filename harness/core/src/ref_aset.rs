//! Reference writer of an animation-set image (DESIGN Appendix A), independent of mila:
//! little-endian bin archive; `00` u32 4 · `04` string cell (meta) · `08` u32 0x100 ·
//! `0C` label "AnimClipNameTable", 257 optional string cells · then per set: [label on this
//! address] u32 group mask · per present group: u32 slot mask + one string cell per set bit.

use crate::ref_bin::{self, Content, End};

/// `sets[k][0]` is the set's label, `sets[k][1..=256]` its slots.
pub fn write_image(meta: Option<&str>, clip: &[Option<String>], sets: &[Vec<Option<String>>]) -> Vec<u8> {
    assert_eq!(clip.len(), 257);
    let mut c = Content::new(End::Little);
    let mut d: Vec<u8> = Vec::new();
    d.extend(4u32.to_le_bytes());
    if let Some(m) = meta {
        c.strings.insert(4, m.to_string());
    }
    d.extend([0u8; 4]);
    d.extend(0x100u32.to_le_bytes());
    c.labels.insert(0x0C, vec!["AnimClipNameTable".to_string()]);
    for s in clip {
        if let Some(s) = s {
            c.strings.insert(d.len(), s.clone());
        }
        d.extend([0u8; 4]);
    }
    for set in sets {
        assert_eq!(set.len(), 257);
        if let Some(l) = &set[0] {
            c.labels.entry(d.len()).or_default().push(l.clone());
        }
        let mut main = 0u32;
        for g in 0..8 {
            if (0..32).any(|b| set[1 + g * 32 + b].is_some()) {
                main |= 1 << g;
            }
        }
        d.extend(main.to_le_bytes());
        for g in 0..8 {
            if main & (1 << g) == 0 {
                continue;
            }
            let mut mask = 0u32;
            for b in 0..32 {
                if set[1 + g * 32 + b].is_some() {
                    mask |= 1 << b;
                }
            }
            d.extend(mask.to_le_bytes());
            for b in 0..32 {
                if let Some(s) = &set[1 + g * 32 + b] {
                    c.strings.insert(d.len(), s.clone());
                    d.extend([0u8; 4]);
                }
            }
        }
    }
    c.data = d;
    ref_bin::write_canonical(&c)
}
