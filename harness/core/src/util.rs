//! Small helpers: panic capture with location, hex, odometers.

use std::cell::RefCell;
use std::panic::{catch_unwind, AssertUnwindSafe};

thread_local! {
    static LAST_PANIC: RefCell<Option<String>> = const { RefCell::new(None) };
}
/// last panic of ANY thread (fallback: a panic inside a rayon worker is re-raised in the
/// calling thread without going through the hook again)
static LAST_PANIC_ANY: std::sync::Mutex<Option<String>> = std::sync::Mutex::new(None);

/// Panic hook that prints nothing and remembers `file:line: message` per thread.
pub fn install_quiet_panic_hook() {
    std::panic::set_hook(Box::new(|info| {
        let loc = info
            .location()
            .map(|l| format!("{}:{}", short_file(l.file()), l.line()))
            .unwrap_or_else(|| "?".into());
        let msg = if let Some(s) = info.payload().downcast_ref::<&str>() {
            (*s).to_string()
        } else if let Some(s) = info.payload().downcast_ref::<String>() {
            s.clone()
        } else {
            "<non-string panic>".into()
        };
        if let Ok(mut g) = LAST_PANIC_ANY.lock() {
            *g = Some(format!("{}|{}", loc, msg));
        }
        LAST_PANIC.with(|p| *p.borrow_mut() = Some(format!("{}|{}", loc, msg)));
    }));
}

/// Keep the tail of a path that identifies the crate file without machine-specific prefixes.
pub fn short_file(f: &str) -> String {
    if let Some(i) = f.find("/registry/src/") {
        let rest = &f[i + "/registry/src/".len()..];
        // drop the registry host directory
        if let Some(j) = rest.find('/') {
            return rest[j + 1..].to_string();
        }
    }
    if let Some(i) = f.find("/rustc/") {
        let rest = &f[i + "/rustc/".len()..];
        if let Some(j) = rest.find('/') {
            return format!("rust:{}", &rest[j + 1..]);
        }
    }
    if let Some(i) = f.find("/library/") {
        return format!("rust:{}", &f[i + 1..]);
    }
    f.trim_start_matches("/repo/").to_string()
}

#[derive(Debug, Clone)]
pub struct PanicInfo {
    /// `file:line`
    pub location: String,
    pub message: String,
}

/// Run `f`, converting a panic into `Err(PanicInfo)`.
pub fn catch<T>(f: impl FnOnce() -> T) -> Result<T, PanicInfo> {
    LAST_PANIC.with(|p| *p.borrow_mut() = None);
    match catch_unwind(AssertUnwindSafe(f)) {
        Ok(v) => Ok(v),
        Err(_) => {
            let s = LAST_PANIC
                .with(|p| p.borrow_mut().take())
                .or_else(|| LAST_PANIC_ANY.lock().ok().and_then(|g| g.clone()))
                .unwrap_or_else(|| "?|?".into());
            let (loc, msg) = s.split_once('|').unwrap_or(("?", "?"));
            Err(PanicInfo {
                location: loc.to_string(),
                message: msg.chars().take(200).collect(),
            })
        }
    }
}

pub fn hex(b: &[u8]) -> String {
    let mut s = String::with_capacity(b.len() * 2);
    for x in b {
        s.push_str(&format!("{:02x}", x));
    }
    s
}

pub fn unhex(s: &str) -> Vec<u8> {
    let s = s.as_bytes();
    let mut out = Vec::with_capacity(s.len() / 2);
    let val = |c: u8| -> u8 {
        match c {
            b'0'..=b'9' => c - b'0',
            b'a'..=b'f' => c - b'a' + 10,
            b'A'..=b'F' => c - b'A' + 10,
            _ => 0,
        }
    };
    let mut i = 0;
    while i + 1 < s.len() {
        out.push(val(s[i]) * 16 + val(s[i + 1]));
        i += 2;
    }
    out
}

/// All sequences of length `len` over `0..base`, in odometer order (first index slowest).
pub fn odometer(base: usize, len: usize) -> impl Iterator<Item = Vec<usize>> {
    let total: u128 = (base as u128).pow(len as u32);
    (0..total).map(move |mut n| {
        let mut v = vec![0usize; len];
        for i in (0..len).rev() {
            v[i] = (n % base as u128) as usize;
            n /= base as u128;
        }
        v
    })
}

/// All permutations of 0..n (lexicographic).
pub fn permutations(n: usize) -> Vec<Vec<usize>> {
    fn rec(cur: &mut Vec<usize>, used: &mut Vec<bool>, n: usize, out: &mut Vec<Vec<usize>>) {
        if cur.len() == n {
            out.push(cur.clone());
            return;
        }
        for i in 0..n {
            if !used[i] {
                used[i] = true;
                cur.push(i);
                rec(cur, used, n, out);
                cur.pop();
                used[i] = false;
            }
        }
    }
    let mut out = Vec::new();
    rec(&mut Vec::new(), &mut vec![false; n], n, &mut out);
    out
}

/// Size ladder: 2^k-1, 2^k, 2^k+1 for every k with 2^k <= max (from 2^7), plus a few round
/// numbers in between — thresholds that lie between "small" and "a few large samples".
pub fn ladder(max: usize) -> Vec<usize> {
    let mut v = vec![100usize, 300, 1000, 3000, 5000, 10_000, 50_000, 100_000];
    let mut p = 128usize;
    while p <= max {
        v.extend([p - 1, p, p + 1]);
        p *= 2;
    }
    v.retain(|x| *x <= max);
    v.sort();
    v.dedup();
    v
}
