//! Measuring / capping global allocator (engine E3 and in-process guards).
//!
//! Pass-through to the system allocator that
//!  * records the largest single request since `reset_max()` (per process — workers are
//!    single-threaded while a case runs), and
//!  * refuses (returns null ⇒ the allocation site aborts via handle_alloc_error) any
//!    single request above the hard cap, after writing `CAPALLOC refused <n>` to stderr
//!    and lifting the cap so that the runtime can still print its own abort message.
//!
//! The hard cap is off (usize::MAX) unless a worker turns it on.

use std::alloc::{GlobalAlloc, Layout, System};
use std::sync::atomic::{AtomicUsize, Ordering::Relaxed};

pub struct CapAlloc;

static HARD_CAP: AtomicUsize = AtomicUsize::new(usize::MAX);
static MAX_REQ: AtomicUsize = AtomicUsize::new(0);

#[inline]
fn note(size: usize) -> bool {
    if size > MAX_REQ.load(Relaxed) {
        MAX_REQ.store(size, Relaxed);
    }
    if size > HARD_CAP.load(Relaxed) {
        HARD_CAP.store(usize::MAX, Relaxed);
        let msg = format_refusal(size);
        write_stderr(&msg.0[..msg.1]);
        return false;
    }
    true
}

fn format_refusal(size: usize) -> ([u8; 64], usize) {
    let mut buf = [0u8; 64];
    let prefix = b"CAPALLOC refused ";
    buf[..prefix.len()].copy_from_slice(prefix);
    let mut n = prefix.len();
    let mut digits = [0u8; 24];
    let mut d = 0;
    let mut v = size;
    if v == 0 {
        digits[0] = b'0';
        d = 1;
    }
    while v > 0 {
        digits[d] = b'0' + (v % 10) as u8;
        v /= 10;
        d += 1;
    }
    for i in (0..d).rev() {
        buf[n] = digits[i];
        n += 1;
    }
    buf[n] = b'\n';
    n += 1;
    (buf, n)
}

fn write_stderr(b: &[u8]) {
    use std::io::Write;
    use std::os::fd::FromRawFd;
    // File::write does not allocate.
    let mut f = std::mem::ManuallyDrop::new(unsafe { std::fs::File::from_raw_fd(2) });
    let _ = f.write_all(b);
}

unsafe impl GlobalAlloc for CapAlloc {
    unsafe fn alloc(&self, layout: Layout) -> *mut u8 {
        if !note(layout.size()) {
            return std::ptr::null_mut();
        }
        System.alloc(layout)
    }
    unsafe fn alloc_zeroed(&self, layout: Layout) -> *mut u8 {
        if !note(layout.size()) {
            return std::ptr::null_mut();
        }
        System.alloc_zeroed(layout)
    }
    unsafe fn dealloc(&self, ptr: *mut u8, layout: Layout) {
        System.dealloc(ptr, layout)
    }
    unsafe fn realloc(&self, ptr: *mut u8, layout: Layout, new_size: usize) -> *mut u8 {
        if !note(new_size) {
            return std::ptr::null_mut();
        }
        System.realloc(ptr, layout, new_size)
    }
}

#[global_allocator]
static GLOBAL: CapAlloc = CapAlloc;

pub fn set_hard_cap(n: usize) {
    HARD_CAP.store(n, Relaxed);
}
pub fn reset_max() {
    MAX_REQ.store(0, Relaxed);
}
pub fn max_request() -> usize {
    MAX_REQ.load(Relaxed)
}
