//! sjis (to be filled)
