//! Shift-JIS carrier domain. The codec itself (encoding_rs) is taken as given by the
//! properties ("strings that the Shift-JIS codec represents losslessly"); this module
//! computes that domain by enumeration and offers encode/decode for the reference writers.

use encoding_rs::SHIFT_JIS;
use std::sync::OnceLock;

pub fn encode(s: &str) -> Option<Vec<u8>> {
    let (b, _, bad) = SHIFT_JIS.encode(s);
    if bad {
        None
    } else {
        Some(b.into_owned())
    }
}

pub fn decode(b: &[u8]) -> String {
    let (s, _, _) = SHIFT_JIS.decode(b);
    s.into_owned()
}

/// NUL-free and encode→decode is the identity.
pub fn lossless(s: &str) -> bool {
    if s.contains('\0') {
        return false;
    }
    match encode(s) {
        Some(b) => !b.contains(&0) && decode(&b) == s,
        None => false,
    }
}

/// Every Unicode scalar value that Shift-JIS represents losslessly (computed once).
pub fn domain() -> &'static Vec<char> {
    static D: OnceLock<Vec<char>> = OnceLock::new();
    D.get_or_init(|| {
        let mut v = Vec::new();
        let mut buf = [0u8; 4];
        for cp in 1u32..=0x10FFFF {
            if let Some(c) = char::from_u32(cp) {
                let s: &str = c.encode_utf8(&mut buf);
                if lossless(s) {
                    v.push(c);
                }
            }
        }
        v
    })
}

// ------------------------------------------------------------------------------------
// Catalogue of "tricky" strings, shared by every string-bearing check (names, labels,
// strings, c-strings, keys, titles, messages). All are inside the lossless domain.

fn lead_class(b: u8) -> u8 {
    match b {
        0x81 => 0,
        0x82..=0x9E => 1,
        0x9F => 2,
        0xE0 => 3,
        0xE1..=0xEE => 4,
        0xEF..=0xF9 => 5,
        0xFA => 6,
        0xFB => 7,
        _ => 8,
    }
}

fn trail_class(b: u8) -> u8 {
    match b {
        0x40 => 0,
        0x41..=0x5B => 1,
        0x5C => 2, // ASCII backslash
        0x5D..=0x6D => 3,
        0x6E => 4, // ASCII 'n'
        0x6F..=0x7E => 5,
        0x80 => 6,
        0x81..=0x9F => 7, // looks like a lead byte
        0xA0..=0xDF => 8, // looks like half-width katakana / UTF-8 continuation
        0xE0..=0xEF => 9,
        _ => 10,
    }
}

/// One lossless two-byte character per (lead-byte class × trail-byte class) that exists,
/// plus the first and last half-width katakana: ≤ 101 characters.
pub fn class_representatives() -> &'static Vec<char> {
    static R: OnceLock<Vec<char>> = OnceLock::new();
    R.get_or_init(|| {
        let mut seen = std::collections::BTreeMap::new();
        let mut buf = [0u8; 4];
        for c in domain() {
            let b = encode(c.encode_utf8(&mut buf)).unwrap();
            if b.len() == 2 {
                seen.entry((lead_class(b[0]), trail_class(b[1]))).or_insert(*c);
            }
        }
        let mut v: Vec<char> = seen.values().cloned().collect();
        v.extend(['｡', 'ﾟ']);
        v
    })
}

/// Strings that have broken decoders/encoders before: trail byte 0x5C ('\\'), trail byte
/// 'n', half-width katakana pairs that are valid UTF-8, characters that are two bytes in
/// UTF-8 *and* in Shift-JIS with ASCII after them, IBM-extension kanji (lead 0xFA..0xFC) at
/// the end of a string, pairs whose code-point order and Shift-JIS byte order differ.
pub fn tricky_strings() -> &'static Vec<String> {
    static T: OnceLock<Vec<String>> = OnceLock::new();
    T.get_or_init(|| {
        let mut v: Vec<String> = [
            "ソ", "ソn", "表示", "能\\n", "a\\b", "\\", "十ソ", "ﾂｱ", "ﾊｲ", "ｶﾞ", "ﾃｽﾄ.bin", "ｿ", "HP×2", "×", "×÷", "αβγx", "Жa", "§1", "°C", "±0",
            "マーク", "マルス", "ー", "漢", "字", "Ａ", "あ", "增", "a增", "栁", "喆", "桒原", "髙", "﨑x", "纊", "黑", "Count", "Info", "Data", " ", "a b", ".", "..",
        ]
        .iter()
        .map(|s| s.to_string())
        .collect();
        // white space at either end (a writer that "cleans up" names), also the full-width space
        for w in [" x", "x ", "\tx", "x\t", "\u{3000}x", "x\u{3000}", "  ", "\u{3000}", " a b "] {
            v.push(w.to_string());
        }
        // text that SPELLS an escape of some other notation (a reader or writer that "helpfully"
        // normalises it changes the content), and line-break pairs
        for w in ["&#65;", "Costs &#8364;5", "&#x41;", "&amp;", "&lt;b&gt;", "%41", "%E3%81%82", "\\u0041", "\\x41", "\\0", "\\t", "{0}", "%s", "$(x)", "a\r\nb", "\r\n", "\n\r", "a\rb"] {
            v.push(w.to_string());
        }
        // runs of characters that are ONE byte in Shift-JIS and THREE in UTF-8 (half-width
        // katakana): a buffer sized from the other encoding's length is too small for them
        v.push("ﾏｯﾌﾟﾃﾞｰﾀ".to_string());
        v.push("ｱｲｳｴｵｶｷｸｹｺ.bin".to_string());
        for n in [5usize, 16, 40, 100] {
            v.push("ｱ".repeat(n));
        }
        // Shift-JIS byte strings that are ALSO well-formed UTF-8 as a whole: a kanji with lead byte
        // E0..EF and trail byte 80..BF followed by a half-width katakana A1..BF is a valid 3-byte
        // UTF-8 sequence (the 2-byte class C2..DF + A1..BF is the half-width pairs above)
        {
            let mut seen_leads = std::collections::BTreeSet::new();
            for ch in domain() {
                let b = encode(&ch.to_string()).unwrap_or_default();
                if b.len() == 2 && (0xE0..=0xEF).contains(&b[0]) && (0x80..=0xBF).contains(&b[1]) && seen_leads.insert(b[0]) {
                    let cand = format!("{}ｱ", ch);
                    if std::str::from_utf8(&encode(&cand).unwrap_or_default()).is_ok() {
                        v.push(cand.clone());
                        v.push(format!("MID_{}", cand));
                        v.push(format!("{}{}", cand, cand));
                    } else {
                        seen_leads.remove(&b[0]);
                    }
                }
            }
        }
        for c in class_representatives() {
            v.push(c.to_string());
            v.push(format!("{}n", c));
            v.push(format!("a{}", c));
        }
        // adjacent representatives (a trail byte followed by a lead byte of every class)
        let reps = class_representatives();
        for w in reps.windows(2) {
            v.push(format!("{}{}", w[0], w[1]));
        }
        v.retain(|s| lossless(s));
        v.sort();
        v.dedup();
        v
    })
}

/// Pairs (a, b) with a < b as Rust strings (code points) but a > b as Shift-JIS bytes.
pub fn collation_inversions() -> Vec<(String, String)> {
    let cands = ["ー", "ル", "あ", "漢", "字", "Ａ", "ア", "ｱ", "亜", "一", "龠", "弌", "×", "α", "Ж", "─", "増", "增"];
    let mut v = Vec::new();
    for a in cands {
        for b in cands {
            if a < b && lossless(a) && lossless(b) && encode(a).unwrap() > encode(b).unwrap() {
                v.push((a.to_string(), b.to_string()));
            }
        }
    }
    v
}

/// Pairs of DISTINCT names that become equal under case folding (ASCII, full-width Latin, Greek,
/// Cyrillic): a table keyed by a folded name loses one of them.
pub fn case_pairs() -> Vec<(String, String)> {
    [("Map01.cmp", "map01.cmp"), ("README.TXT", "Readme.txt"), ("Ａ", "ａ"), ("Ω", "ω"), ("Ж.bin", "ж.bin"), ("A", "a"), ("x_Ａb", "x_ａb")]
        .iter()
        .map(|(a, b)| (a.to_string(), b.to_string()))
        .filter(|(a, b)| lossless(a) && lossless(b))
        .collect()
}

/// Pairs (long, short) where `short` is a proper suffix of `long` as strings AND as Shift-JIS
/// bytes, with heads of different UTF-8 / Shift-JIS lengths (a writer that shares tails, or a
/// reader that indexes the text pool by string starts, meets these).
pub fn suffix_pairs() -> Vec<(String, String)> {
    [("攻撃力", "力"), ("MID_H_Chrom", "Chrom"), ("unit_model.bin", "model.bin"), ("ｱｲｳ", "ｳ"), ("日本", "本"), ("xソ", "ソ"), ("aé".replace('é', "×").as_str(), "×"), ("ab", "b"), ("ab", ""), ("漢字ab", "ab"), ("ﾂｱ.bin", ".bin"), ("クロム_Body", "Body"), ("ｶﾞ_x", "_x")]
        .iter()
        .map(|(a, b)| (a.to_string(), b.to_string()))
        .filter(|(a, b)| lossless(a) && (b.is_empty() || lossless(b)) && encode(a).unwrap().ends_with(&encode(b).unwrap_or_default()))
        .collect()
}
