//! Shift-JIS carrier domain. The codec itself (encoding_rs) is taken as given by the
//! properties ("strings that the Shift-JIS codec represents losslessly"); this module
//! computes that domain by enumeration and offers encode/decode for the reference writers.

use encoding_rs::SHIFT_JIS;
use std::sync::OnceLock;

pub fn encode(s: &str) -> Option<Vec<u8>> {
    let (b, _, bad) = SHIFT_JIS.encode(s);
    if bad {
        None
    } else {
        Some(b.into_owned())
    }
}

pub fn decode(b: &[u8]) -> String {
    let (s, _, _) = SHIFT_JIS.decode(b);
    s.into_owned()
}

/// NUL-free and encode→decode is the identity.
pub fn lossless(s: &str) -> bool {
    if s.contains('\0') {
        return false;
    }
    match encode(s) {
        Some(b) => !b.contains(&0) && decode(&b) == s,
        None => false,
    }
}

/// Every Unicode scalar value that Shift-JIS represents losslessly (computed once).
pub fn domain() -> &'static Vec<char> {
    static D: OnceLock<Vec<char>> = OnceLock::new();
    D.get_or_init(|| {
        let mut v = Vec::new();
        let mut buf = [0u8; 4];
        for cp in 1u32..=0x10FFFF {
            if let Some(c) = char::from_u32(cp) {
                let s: &str = c.encode_utf8(&mut buf);
                if lossless(s) {
                    v.push(c);
                }
            }
        }
        v
    })
}
