//! ref_pix (to be filled)
