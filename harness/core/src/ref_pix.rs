//! Reference pixel decoders, written from the hardware format definitions (PICA200 texture
//! layout, Khronos OES_compressed_ETC1_RGB8_texture, GameCube GX texture formats) — not from
//! mila's code. DESIGN Appendix A is the summary this file implements.
//!
//! A decoded pixel is four *expectations* rather than four bytes, because the property
//! fixes some channels exactly (ETC1 colours, the 0xFF alpha of formats without alpha),
//! bounds others ("within one quantisation step of the linear expansion of the source
//! bits") and leaves some open (RGB of an A8 pixel; blocks the ETC1 rules do not define).

#[derive(Clone, Copy, Debug, PartialEq, Eq, Hash)]
pub enum Chan {
    /// the output byte is fixed
    Exact(u8),
    /// the channel comes from a `bits`-wide source field holding `v`:
    /// |out − v·255/(2^bits−1)| ≤ 255/(2^bits−1)
    Linear { v: u32, bits: u32 },
    /// the statement does not constrain the byte
    Any,
}

impl Chan {
    #[inline]
    pub fn accepts(self, out: u8) -> bool {
        match self {
            Chan::Exact(e) => e == out,
            Chan::Any => true,
            Chan::Linear { v, bits } => {
                let m = (1i64 << bits) - 1;
                ((out as i64) * m - (v as i64) * 255).abs() <= 255
            }
        }
    }
    pub fn describe(self) -> String {
        match self {
            Chan::Exact(e) => format!("={}", e),
            Chan::Any => "any".into(),
            Chan::Linear { v, bits } => {
                let m = (1i64 << bits) - 1;
                let lo = ((v as i64 * 255 - 255) + m - 1).div_euclid(m).max(0);
                let hi = ((v as i64 * 255 + 255).div_euclid(m)).min(255);
                format!("{}..={} ({} of {} bits)", lo, hi, v, bits)
            }
        }
    }
    pub fn is_pinned(self) -> bool {
        matches!(self, Chan::Exact(_))
    }
}

/// R, G, B, A
pub type Px = [Chan; 4];

pub const ANY_PX: Px = [Chan::Any; 4];

/// First pixel/channel at which `got` (RGBA bytes) is not accepted by `exp`.
pub fn first_mismatch(exp: &[Px], got: &[u8]) -> Option<(usize, usize)> {
    for (i, px) in exp.iter().enumerate() {
        for c in 0..4 {
            if !px[c].accepts(got[i * 4 + c]) {
                return Some((i, c));
            }
        }
    }
    None
}

pub fn describe_px(p: &Px) -> String {
    format!("[R {} G {} B {} A {}]", p[0].describe(), p[1].describe(), p[2].describe(), p[3].describe())
}

// ---------------------------------------------------------------------------------------
// 3DS (PICA200) texture formats

#[derive(Clone, Copy, Debug, PartialEq, Eq, Hash)]
pub enum Fmt {
    Rgba8,
    Rgba5551,
    Rgb565,
    Rgba4,
    La8,
    L8,
    A8,
    Etc1,
    Etc1A4,
}

impl Fmt {
    pub const ALL: [Fmt; 9] = [Fmt::Rgba8, Fmt::Rgba5551, Fmt::Rgb565, Fmt::Rgba4, Fmt::La8, Fmt::L8, Fmt::A8, Fmt::Etc1, Fmt::Etc1A4];

    /// value of the `pixel_format` field in CTPK / BCH / CGFX
    pub fn code(self) -> u32 {
        match self {
            Fmt::Rgba8 => 0,
            Fmt::Rgba5551 => 2,
            Fmt::Rgb565 => 3,
            Fmt::Rgba4 => 4,
            Fmt::La8 => 5,
            Fmt::L8 => 7,
            Fmt::A8 => 8,
            Fmt::Etc1 => 12,
            Fmt::Etc1A4 => 13,
        }
    }
    pub fn from_code(c: u32) -> Option<Fmt> {
        Fmt::ALL.iter().copied().find(|f| f.code() == c)
    }
    pub fn name(self) -> &'static str {
        match self {
            Fmt::Rgba8 => "RGBA8",
            Fmt::Rgba5551 => "RGBA5551",
            Fmt::Rgb565 => "RGB565",
            Fmt::Rgba4 => "RGBA4",
            Fmt::La8 => "LA8",
            Fmt::L8 => "L8",
            Fmt::A8 => "A8",
            Fmt::Etc1 => "ETC1",
            Fmt::Etc1A4 => "ETC1A4",
        }
    }
    pub fn from_name(n: &str) -> Option<Fmt> {
        Fmt::ALL.iter().copied().find(|f| f.name() == n)
    }
    pub fn is_etc(self) -> bool {
        matches!(self, Fmt::Etc1 | Fmt::Etc1A4)
    }
    /// bits per pixel
    pub fn bpp(self) -> usize {
        match self {
            Fmt::Rgba8 => 32,
            Fmt::Rgba5551 | Fmt::Rgb565 | Fmt::Rgba4 | Fmt::La8 => 16,
            Fmt::L8 | Fmt::A8 | Fmt::Etc1A4 => 8,
            Fmt::Etc1 => 4,
        }
    }
    /// exact payload size of a w×h texture (w, h multiples of 8)
    pub fn payload_len(self, w: usize, h: usize) -> usize {
        w * h * self.bpp() / 8
    }
    /// bytes of one ETC block (colour word, preceded by the alpha word for ETC1A4)
    pub fn block_len(self) -> usize {
        match self {
            Fmt::Etc1 => 8,
            Fmt::Etc1A4 => 16,
            _ => 0,
        }
    }
}

/// Position inside an 8×8 tile of the m-th stored pixel (Morton / Z-order: x takes bits
/// 0, 2, 4 of m and y bits 1, 3, 5).
#[inline]
pub fn morton_xy(m: usize) -> (usize, usize) {
    let x = (m & 1) | ((m >> 1) & 2) | ((m >> 2) & 4);
    let y = ((m >> 1) & 1) | ((m >> 2) & 2) | ((m >> 3) & 4);
    (x, y)
}

/// Inverse of `morton_xy`.
#[inline]
pub fn morton_index(x: usize, y: usize) -> usize {
    let mut m = 0;
    for b in 0..3 {
        m |= ((x >> b) & 1) << (2 * b);
        m |= ((y >> b) & 1) << (2 * b + 1);
    }
    m
}

/// Index (in stored order) of the pixel shown at (x, y) of a w-wide non-ETC texture:
/// tiles of 8×8 row-major, Morton order inside.
#[inline]
pub fn source_index(w: usize, x: usize, y: usize) -> usize {
    let tile = (y / 8) * (w / 8) + x / 8;
    tile * 64 + morton_index(x % 8, y % 8)
}

/// (stored block number, pixel number inside the block) shown at (x, y) of a w-wide ETC
/// texture: four 4×4 blocks per 8×8 tile in Z order (left-top, right-top, left-bottom,
/// right-bottom), pixel number = 4·column + row.
#[inline]
pub fn etc_source(w: usize, x: usize, y: usize) -> (usize, usize) {
    let tile = (y / 8) * (w / 8) + x / 8;
    let b = ((y % 8) / 4) * 2 + (x % 8) / 4;
    (tile * 4 + b, 4 * (x % 4) + (y % 4))
}

#[inline]
fn lin(v: u32, bits: u32) -> Chan {
    Chan::Linear { v, bits }
}

#[inline]
fn field(value: u32, hi: u32, lo: u32) -> u32 {
    (value >> lo) & ((1u32 << (hi - lo + 1)) - 1)
}

/// One stored value (already assembled little-endian) of a non-ETC format.
pub fn decode_value(fmt: Fmt, v: u32) -> Px {
    const OPAQUE: Chan = Chan::Exact(0xFF);
    match fmt {
        // file bytes A, B, G, R  ⇒  little-endian word R<<24 | G<<16 | B<<8 | A
        Fmt::Rgba8 => [lin(field(v, 31, 24), 8), lin(field(v, 23, 16), 8), lin(field(v, 15, 8), 8), lin(field(v, 7, 0), 8)],
        Fmt::Rgba5551 => [lin(field(v, 15, 11), 5), lin(field(v, 10, 6), 5), lin(field(v, 5, 1), 5), lin(field(v, 0, 0), 1)],
        Fmt::Rgb565 => [lin(field(v, 15, 11), 5), lin(field(v, 10, 5), 6), lin(field(v, 4, 0), 5), OPAQUE],
        Fmt::Rgba4 => [lin(field(v, 15, 12), 4), lin(field(v, 11, 8), 4), lin(field(v, 7, 4), 4), lin(field(v, 3, 0), 4)],
        Fmt::La8 => {
            let l = lin(field(v, 15, 8), 8);
            [l, l, l, lin(field(v, 7, 0), 8)]
        }
        Fmt::L8 => {
            let l = lin(v & 0xFF, 8);
            [l, l, l, OPAQUE]
        }
        // no colour bits in the source: RGB is left open
        Fmt::A8 => [Chan::Any, Chan::Any, Chan::Any, lin(v & 0xFF, 8)],
        Fmt::Etc1 | Fmt::Etc1A4 => ANY_PX,
    }
}

// ---------------------------------------------------------------------------------------
// ETC1 (Khronos OES_compressed_ETC1_RGB8_texture, section 3.9.x "ETC1 compressed textures")

/// Intensity modifier sets, indexed by table codeword, then by the 2-bit pixel index value
/// (msb·2 + lsb): 0 ⇒ +a, 1 ⇒ +b, 2 ⇒ −a, 3 ⇒ −b with (a, b) the small/large modifier.
pub const ETC1_MODIFIERS: [[i32; 4]; 8] = [
    [2, 8, -2, -8],
    [5, 17, -5, -17],
    [9, 29, -9, -29],
    [13, 42, -13, -42],
    [18, 60, -18, -60],
    [24, 80, -24, -80],
    [33, 106, -33, -106],
    [47, 183, -47, -183],
];

#[inline]
fn bits64(w: u64, hi: u32, lo: u32) -> u32 {
    ((w >> lo) & ((1u64 << (hi - lo + 1)) - 1)) as u32
}

/// The two base colours of a block; `None` when the block is in differential mode and a
/// base+delta sum leaves 0..=31 (the ETC1 rules do not define the result).
pub fn etc1_base_colours(word: u64) -> Option<([u8; 3], [u8; 3])> {
    let diff = bits64(word, 33, 33) == 1;
    let mut c1 = [0u8; 3];
    let mut c2 = [0u8; 3];
    for (ch, top) in [63u32, 55, 47].into_iter().enumerate() {
        if !diff {
            let a = bits64(word, top, top - 3);
            let b = bits64(word, top - 4, top - 7);
            c1[ch] = (a * 17) as u8; // 4 → 8 bits by replication
            c2[ch] = (b * 17) as u8;
        } else {
            let a = bits64(word, top, top - 4) as i32;
            let d3 = bits64(word, top - 5, top - 7) as i32;
            let d = if d3 >= 4 { d3 - 8 } else { d3 }; // 3-bit two's complement
            let b = a + d;
            if !(0..=31).contains(&b) {
                return None;
            }
            c1[ch] = ((a << 3) | (a >> 2)) as u8; // 5 → 8 bits by replication
            c2[ch] = ((b << 3) | (b >> 2)) as u8;
        }
    }
    Some((c1, c2))
}

/// Decode one 64-bit ETC1 block; result indexed by pixel number 4·x + y.
pub fn etc1_block(word: u64) -> Option<[[u8; 3]; 16]> {
    let (c1, c2) = etc1_base_colours(word)?;
    let flip = bits64(word, 32, 32) == 1;
    let cw1 = bits64(word, 39, 37) as usize;
    let cw2 = bits64(word, 36, 34) as usize;
    let mut out = [[0u8; 3]; 16];
    for x in 0..4usize {
        for y in 0..4usize {
            let n = 4 * x + y;
            // flip = 0: two 2×4 sub-blocks side by side; flip = 1: two 4×2 sub-blocks on top of each other
            let second = if flip { y >= 2 } else { x >= 2 };
            let (base, cw) = if second { (c2, cw2) } else { (c1, cw1) };
            let msb = ((word >> (16 + n)) & 1) as usize;
            let lsb = ((word >> n) & 1) as usize;
            let m = ETC1_MODIFIERS[cw][msb * 2 + lsb];
            for ch in 0..3 {
                out[n][ch] = (base[ch] as i32 + m).clamp(0, 255) as u8;
            }
        }
    }
    Some(out)
}

#[derive(Clone, Copy, Debug, Default)]
pub struct Etc1Fields {
    pub diff: bool,
    pub flip: bool,
    pub table1: u8,
    pub table2: u8,
    /// per channel R, G, B: individual mode (base1 4 bits, base2 4 bits);
    /// differential mode (base 5 bits, delta as raw 3-bit two's complement)
    pub colour: [(u8, u8); 3],
    pub msb: u16,
    pub lsb: u16,
}

/// Assemble a block word from its fields (the inverse of the bit layout used by `etc1_block`).
pub fn etc1_compose(f: &Etc1Fields) -> u64 {
    let mut w: u64 = 0;
    for (ch, top) in [63u32, 55, 47].into_iter().enumerate() {
        let (a, b) = f.colour[ch];
        if f.diff {
            w |= ((a & 31) as u64) << (top - 4);
            w |= ((b & 7) as u64) << (top - 7);
        } else {
            w |= ((a & 15) as u64) << (top - 3);
            w |= ((b & 15) as u64) << (top - 7);
        }
    }
    w |= ((f.table1 & 7) as u64) << 37;
    w |= ((f.table2 & 7) as u64) << 34;
    w |= (f.diff as u64) << 33;
    w |= (f.flip as u64) << 32;
    w |= (f.msb as u64) << 16;
    w |= f.lsb as u64;
    w
}

/// Serialise blocks in 3DS order: per block [alpha word LE (ETC1A4 only)] colour word LE.
pub fn etc_payload(fmt: Fmt, blocks: &[(u64, u64)]) -> Vec<u8> {
    let mut v = Vec::with_capacity(blocks.len() * fmt.block_len());
    for &(alpha, colour) in blocks {
        if fmt == Fmt::Etc1A4 {
            v.extend_from_slice(&alpha.to_le_bytes());
        }
        v.extend_from_slice(&colour.to_le_bytes());
    }
    v
}

pub struct Decoded {
    /// w·h expectations, row-major
    pub px: Vec<Px>,
    /// ETC blocks whose colours the rules leave undefined (all their pixels are `Any`)
    pub undefined_blocks: usize,
}

/// Reference decoding of a whole 3DS texture. `None` unless w, h are multiples of 8 and the
/// payload has exactly the size the format requires.
pub fn decode_3ds(fmt: Fmt, w: usize, h: usize, data: &[u8]) -> Option<Decoded> {
    if w == 0 || h == 0 || w % 8 != 0 || h % 8 != 0 || data.len() != fmt.payload_len(w, h) {
        return None;
    }
    let mut px = vec![ANY_PX; w * h];
    let mut undefined_blocks = 0;
    if !fmt.is_etc() {
        let bytes = fmt.bpp() / 8;
        for y in 0..h {
            for x in 0..w {
                let s = source_index(w, x, y);
                let mut v: u32 = 0;
                for k in 0..bytes {
                    v |= (data[s * bytes + k] as u32) << (8 * k);
                }
                px[y * w + x] = decode_value(fmt, v);
            }
        }
    } else {
        let bl = fmt.block_len();
        let nblocks = w * h / 16;
        let mut blocks: Vec<Option<[[u8; 3]; 16]>> = Vec::with_capacity(nblocks);
        let mut alphas: Vec<u64> = Vec::with_capacity(nblocks);
        for b in 0..nblocks {
            let raw = &data[b * bl..(b + 1) * bl];
            let (a, c) = if fmt == Fmt::Etc1A4 {
                (u64::from_le_bytes(raw[0..8].try_into().unwrap()), u64::from_le_bytes(raw[8..16].try_into().unwrap()))
            } else {
                (u64::MAX, u64::from_le_bytes(raw[0..8].try_into().unwrap()))
            };
            let d = etc1_block(c);
            if d.is_none() {
                undefined_blocks += 1;
            }
            blocks.push(d);
            alphas.push(a);
        }
        for y in 0..h {
            for x in 0..w {
                let (b, n) = etc_source(w, x, y);
                if let Some(col) = &blocks[b] {
                    let a = if fmt == Fmt::Etc1A4 {
                        // 4 bits per pixel, pixel n in bits 4n+3..4n of the alpha word
                        lin(((alphas[b] >> (4 * n)) & 15) as u32, 4)
                    } else {
                        Chan::Exact(0xFF)
                    };
                    px[y * w + x] = [Chan::Exact(col[n][0]), Chan::Exact(col[n][1]), Chan::Exact(col[n][2]), a];
                }
            }
        }
    }
    Some(Decoded { px, undefined_blocks })
}

// ---------------------------------------------------------------------------------------
// GameCube / Wii

/// RGB5A3 (big-endian u16 in the file; `v` is the assembled value): bit 15 set ⇒ opaque
/// RGB555, clear ⇒ 3-bit alpha + RGB444.
pub fn rgb5a3(v: u16) -> Px {
    let v = v as u32;
    if v & 0x8000 != 0 {
        [lin(field(v, 14, 10), 5), lin(field(v, 9, 5), 5), lin(field(v, 4, 0), 5), Chan::Exact(0xFF)]
    } else {
        [lin(field(v, 11, 8), 4), lin(field(v, 7, 4), 4), lin(field(v, 3, 0), 4), lin(field(v, 14, 12), 3)]
    }
}

/// Stored size of a CI8 image: whole 8×4 blocks.
pub fn ci8_len(w: usize, h: usize) -> usize {
    ((w + 7) / 8) * ((h + 3) / 4) * 32
}

/// Index (in stored order) of the CI8 pixel shown at (x, y): 8×4 blocks row-major,
/// rows of 8 inside a block.
#[inline]
pub fn ci8_source_index(w: usize, x: usize, y: usize) -> usize {
    let bw = (w + 7) / 8;
    ((y / 4) * bw + x / 8) * 32 + (y % 4) * 8 + (x % 8)
}

/// The w·h palette indices of a CI8 image, row-major, cropped to the stated dimensions.
pub fn ci8_indices(w: usize, h: usize, data: &[u8]) -> Option<Vec<u8>> {
    if data.len() != ci8_len(w, h) {
        return None;
    }
    let mut v = Vec::with_capacity(w * h);
    for y in 0..h {
        for x in 0..w {
            v.push(data[ci8_source_index(w, x, y)]);
        }
    }
    Some(v)
}

/// Reference decoding of a CI8 image with an RGB5A3 palette. `None` if sizes are wrong or an
/// index used by a visible pixel is outside the palette.
pub fn decode_ci8(w: usize, h: usize, data: &[u8], palette: &[u16]) -> Option<Vec<Px>> {
    let idx = ci8_indices(w, h, data)?;
    let mut v = Vec::with_capacity(w * h);
    for i in idx {
        v.push(rgb5a3(*palette.get(i as usize)?));
    }
    Some(v)
}

// ---------------------------------------------------------------------------------------
// deterministic filler for payloads (splitmix64)

pub struct Rng(pub u64);

impl Rng {
    pub fn next(&mut self) -> u64 {
        self.0 = self.0.wrapping_add(0x9E3779B97F4A7C15);
        let mut z = self.0;
        z = (z ^ (z >> 30)).wrapping_mul(0xBF58476D1CE4E5B9);
        z = (z ^ (z >> 27)).wrapping_mul(0x94D049BB133111EB);
        z ^ (z >> 31)
    }
    pub fn below(&mut self, n: u64) -> u64 {
        self.next() % n
    }
}

/// A pseudo-random ETC1 colour word whose result the rules define. With
/// `allow_negative_delta` false, differential blocks only use deltas 0..=3.
pub fn random_defined_etc1_word(rng: &mut Rng, allow_negative_delta: bool) -> u64 {
    let r = rng.next();
    let mut f = Etc1Fields {
        diff: r & 1 == 1,
        flip: r & 2 == 2,
        table1: ((r >> 2) & 7) as u8,
        table2: ((r >> 5) & 7) as u8,
        colour: [(0, 0); 3],
        msb: (r >> 16) as u16,
        lsb: (r >> 32) as u16,
    };
    for ch in 0..3 {
        if f.diff {
            loop {
                let a = rng.below(32) as i32;
                let d = if allow_negative_delta { rng.below(8) as i32 - 4 } else { rng.below(4) as i32 };
                if (0..=31).contains(&(a + d)) {
                    f.colour[ch] = (a as u8, (d & 7) as u8);
                    break;
                }
            }
        } else {
            f.colour[ch] = (rng.below(16) as u8, rng.below(16) as u8);
        }
    }
    etc1_compose(&f)
}

/// Deterministic payload of exactly the required size for a w×h texture. ETC payloads only
/// contain blocks the ETC1 rules define.
pub fn random_payload(fmt: Fmt, w: usize, h: usize, seed: u64, allow_negative_delta: bool) -> Vec<u8> {
    let mut rng = Rng(seed ^ ((fmt.code() as u64) << 40) ^ ((w as u64) << 20) ^ h as u64);
    if fmt.is_etc() {
        let blocks: Vec<(u64, u64)> = (0..w * h / 16).map(|_| (rng.next(), random_defined_etc1_word(&mut rng, allow_negative_delta))).collect();
        etc_payload(fmt, &blocks)
    } else {
        let n = fmt.payload_len(w, h);
        let mut v = Vec::with_capacity(n + 8);
        while v.len() < n {
            v.extend_from_slice(&rng.next().to_le_bytes());
        }
        v.truncate(n);
        v
    }
}

#[cfg(test)]
mod tests {
    use super::*;

    #[test]
    fn morton_is_a_bijection_and_matches_the_z_curve() {
        let mut seen = [false; 64];
        for m in 0..64 {
            let (x, y) = morton_xy(m);
            assert!(x < 8 && y < 8);
            assert_eq!(morton_index(x, y), m);
            seen[y * 8 + x] = true;
        }
        assert!(seen.iter().all(|b| *b));
        // first eight positions of the Z curve
        let first: Vec<(usize, usize)> = (0..8).map(morton_xy).collect();
        assert_eq!(first, vec![(0, 0), (1, 0), (0, 1), (1, 1), (2, 0), (3, 0), (2, 1), (3, 1)]);
    }

    #[test]
    fn etc1_hand_computed() {
        // individual mode, R1=15 G1=0 B1=8, R2=1 G2=2 B2=3, tables 0 and 7, no flip,
        // pixel 0: msb 0 lsb 0 (+2); pixel 8 (x=2,y=0): msb 1 lsb 1 (−183)
        let f = Etc1Fields { diff: false, flip: false, table1: 0, table2: 7, colour: [(15, 1), (0, 2), (8, 3)], msb: 1 << 8, lsb: 1 << 8 };
        let w = etc1_compose(&f);
        assert_eq!(w >> 32, 0xF102831C);
        let d = etc1_block(w).unwrap();
        assert_eq!(d[0], [255, 2, 138]);
        assert_eq!(d[8], [0, 0, 0]);
        assert_eq!(d[12], [17 + 47, 34 + 47, 51 + 47]);
        // differential: base 31, delta −4 → 27; base 0, delta +3 → 3; base 16 delta 0
        let f = Etc1Fields { diff: true, flip: true, table1: 1, table2: 1, colour: [(31, 4), (0, 3), (16, 0)], msb: 0, lsb: 0 };
        let d = etc1_block(etc1_compose(&f)).unwrap();
        assert_eq!(d[0], [255, 5, 132 + 5]); // top half: base1 = (255, 0, 132) + 5
        assert_eq!(d[2], [(27 << 3 | 27 >> 2) + 5, (3 << 3) + 5, 132 + 5]); // y = 2: second sub-block
        // out of range
        let f = Etc1Fields { diff: true, colour: [(0, 7), (0, 0), (0, 0)], ..Default::default() };
        assert!(etc1_block(etc1_compose(&f)).is_none());
        let f = Etc1Fields { diff: true, colour: [(0, 0), (0, 0), (31, 1)], ..Default::default() };
        assert!(etc1_block(etc1_compose(&f)).is_none());
    }

    #[test]
    fn tolerance() {
        assert!(Chan::Linear { v: 31, bits: 5 }.accepts(255));
        assert!(Chan::Linear { v: 31, bits: 5 }.accepts(248));
        assert!(!Chan::Linear { v: 31, bits: 5 }.accepts(246));
        assert!(Chan::Linear { v: 0, bits: 5 }.accepts(8));
        assert!(!Chan::Linear { v: 0, bits: 5 }.accepts(9));
        assert!(Chan::Linear { v: 7, bits: 3 }.accepts(224));
        assert!(Chan::Linear { v: 200, bits: 8 }.accepts(201));
        assert!(!Chan::Linear { v: 200, bits: 8 }.accepts(202));
    }

    #[test]
    fn ci8_blocks() {
        assert_eq!(ci8_len(1, 1), 32);
        assert_eq!(ci8_len(9, 5), 128);
        assert_eq!(ci8_source_index(16, 8, 0), 32);
        assert_eq!(ci8_source_index(16, 0, 4), 64);
        assert_eq!(ci8_source_index(16, 3, 2), 19);
    }
}
