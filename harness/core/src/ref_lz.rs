//! Reference LZ10 / LZ11 token-level decoder-validator and encoder, written from the
//! format description (DESIGN Appendix A / GBATEK), independent of mila and nintendo-lz.

#[derive(Clone, Copy, Debug, PartialEq, Eq)]
pub enum Kind {
    Lz10,
    Lz11,
}

#[derive(Clone, Copy, Debug, PartialEq, Eq, Hash)]
pub enum Token {
    Lit(u8),
    /// copy `len` bytes starting `disp` bytes back (disp ≥ 1); may overlap (len > disp)
    Ref { len: usize, disp: usize },
}

#[derive(Debug, Clone)]
pub struct Decoded {
    pub data: Vec<u8>,
    pub tokens: Vec<Token>,
    pub declared_len: usize,
    /// bytes of the stream consumed by header + tokens
    pub consumed: usize,
    /// number of tokens in the last flag group (1..=8; 0 when there is no group)
    pub last_group_tokens: usize,
}

#[derive(Debug, Clone, PartialEq, Eq)]
pub enum LzError {
    TooShort,
    BadType(u8),
    Truncated { at: usize },
    RefBeforeStart { produced: usize, disp: usize },
    BadRefLength { len: usize },
    Overshoot { declared: usize, produced: usize },
    Leftover { consumed: usize, total: usize },
}

impl LzError {
    pub fn class(&self) -> &'static str {
        match self {
            LzError::TooShort => "too-short",
            LzError::BadType(_) => "bad-type",
            LzError::Truncated { .. } => "truncated",
            LzError::RefBeforeStart { .. } => "ref-before-start",
            LzError::BadRefLength { .. } => "bad-ref-length",
            LzError::Overshoot { .. } => "overshoot",
            LzError::Leftover { .. } => "leftover",
        }
    }
}

/// Strictly validate and expand a bare LZ10 or LZ11 stream.
/// `allow_leftover`: when true, trailing bytes after the last token are tolerated
/// (used when judging *decoders*; compressor output must have none).
pub fn decode(stream: &[u8], kind: Kind, allow_leftover: bool) -> Result<Decoded, LzError> {
    if stream.len() < 4 {
        return Err(LzError::TooShort);
    }
    let want = match kind {
        Kind::Lz10 => 0x10,
        Kind::Lz11 => 0x11,
    };
    if stream[0] != want {
        return Err(LzError::BadType(stream[0]));
    }
    let mut declared = stream[1] as usize | (stream[2] as usize) << 8 | (stream[3] as usize) << 16;
    let mut pos = 4usize;
    if declared == 0 && kind == Kind::Lz11 {
        if stream.len() < 8 {
            return Err(LzError::Truncated { at: stream.len() });
        }
        declared = u32::from_le_bytes([stream[4], stream[5], stream[6], stream[7]]) as usize;
        pos = 8;
    }
    let mut data: Vec<u8> = Vec::with_capacity(declared.min(1 << 24));
    let mut tokens = Vec::new();
    let mut last_group_tokens = 0usize;
    let next = |pos: &mut usize| -> Result<u8, LzError> {
        if *pos >= stream.len() {
            return Err(LzError::Truncated { at: *pos });
        }
        let b = stream[*pos];
        *pos += 1;
        Ok(b)
    };
    while data.len() < declared {
        let flags = next(&mut pos)?;
        last_group_tokens = 0;
        for bit in (0..8).rev() {
            if data.len() >= declared {
                break;
            }
            last_group_tokens += 1;
            if (flags >> bit) & 1 == 0 {
                let b = next(&mut pos)?;
                data.push(b);
                tokens.push(Token::Lit(b));
            } else {
                let b0 = next(&mut pos)? as usize;
                let b1 = next(&mut pos)? as usize;
                let (len, disp);
                match kind {
                    Kind::Lz10 => {
                        len = (b0 >> 4) + 3;
                        disp = (((b0 & 0xF) << 8) | b1) + 1;
                    }
                    Kind::Lz11 => {
                        let n = b0 >> 4;
                        if n >= 2 {
                            len = n + 1;
                            disp = (((b0 & 0xF) << 8) | b1) + 1;
                        } else if n == 0 {
                            let b2 = next(&mut pos)? as usize;
                            len = (((b0 & 0xF) << 4) | (b1 >> 4)) + 0x11;
                            disp = (((b1 & 0xF) << 8) | b2) + 1;
                        } else {
                            let b2 = next(&mut pos)? as usize;
                            let b3 = next(&mut pos)? as usize;
                            len = (((b0 & 0xF) << 12) | (b1 << 4) | (b2 >> 4)) + 0x111;
                            disp = (((b2 & 0xF) << 8) | b3) + 1;
                        }
                    }
                }
                if disp > data.len() {
                    return Err(LzError::RefBeforeStart { produced: data.len(), disp });
                }
                if len < 3 {
                    return Err(LzError::BadRefLength { len });
                }
                if data.len() + len > declared {
                    return Err(LzError::Overshoot { declared, produced: data.len() + len });
                }
                let start = data.len() - disp;
                for i in 0..len {
                    let v = data[start + i];
                    data.push(v);
                }
                tokens.push(Token::Ref { len, disp });
            }
        }
    }
    if !allow_leftover && pos != stream.len() {
        return Err(LzError::Leftover { consumed: pos, total: stream.len() });
    }
    Ok(Decoded { data, tokens, declared_len: declared, consumed: pos, last_group_tokens })
}

/// Expand a token sequence (panics if a reference reaches before the start — callers
/// generate only valid sequences through `TokenGen`).
pub fn expand(prefix: &[u8], tokens: &[Token]) -> Vec<u8> {
    let mut data = prefix.to_vec();
    for t in tokens {
        match *t {
            Token::Lit(b) => data.push(b),
            Token::Ref { len, disp } => {
                let start = data.len() - disp;
                for i in 0..len {
                    let v = data[start + i];
                    data.push(v);
                }
            }
        }
    }
    data
}

pub fn ref_len_range(kind: Kind) -> (usize, usize) {
    match kind {
        Kind::Lz10 => (3, 18),
        Kind::Lz11 => (3, 0x111 + 0xFFFF),
    }
}

/// LZ11 length form: 0 = one-nibble (3..=16), 1 = 17..=272 (3 bytes), 2 = 273..=65808 (4 bytes)
pub fn lz11_form(len: usize) -> usize {
    if len <= 16 {
        0
    } else if len <= 272 {
        1
    } else {
        2
    }
}

/// Encode a token sequence as a bare stream with the given declared length.
/// `disp_raw_override`: if Some((token_index, raw_disp_minus_1_field)), that reference's
/// 12-bit displacement field is replaced (used to plant references before the start).
pub fn encode(tokens: &[Token], kind: Kind, declared: usize, disp_override: Option<(usize, usize)>) -> Vec<u8> {
    encode_with_header(tokens, kind, declared, disp_override, false)
}

/// `force_extended`: LZ11 only — use the 8-byte header (24-bit size 0, 32-bit size follows)
/// whatever the size; the format gives that form no minimum.
pub fn encode_with_header(tokens: &[Token], kind: Kind, declared: usize, disp_override: Option<(usize, usize)>, force_extended: bool) -> Vec<u8> {
    let mut out = Vec::new();
    out.push(match kind {
        Kind::Lz10 => 0x10,
        Kind::Lz11 => 0x11,
    });
    if declared < (1 << 24) && !(declared == 0 && kind == Kind::Lz11) && !(force_extended && kind == Kind::Lz11) {
        out.push((declared & 0xFF) as u8);
        out.push(((declared >> 8) & 0xFF) as u8);
        out.push(((declared >> 16) & 0xFF) as u8);
    } else {
        out.extend_from_slice(&[0, 0, 0]);
        out.extend_from_slice(&(declared as u32).to_le_bytes());
    }
    for (gi, group) in tokens.chunks(8).enumerate() {
        let mut flags = 0u8;
        let mut body = Vec::new();
        for (i, t) in group.iter().enumerate() {
            match *t {
                Token::Lit(b) => body.push(b),
                Token::Ref { len, disp } => {
                    flags |= 1 << (7 - i);
                    let mut d = disp - 1;
                    if let Some((ti, raw)) = disp_override {
                        if ti == gi * 8 + i {
                            d = raw & 0xFFF;
                        }
                    }
                    match kind {
                        Kind::Lz10 => {
                            assert!((3..=18).contains(&len));
                            body.push((((len - 3) << 4) | (d >> 8)) as u8);
                            body.push((d & 0xFF) as u8);
                        }
                        Kind::Lz11 => match lz11_form(len) {
                            0 => {
                                assert!(len >= 3);
                                body.push((((len - 1) << 4) | (d >> 8)) as u8);
                                body.push((d & 0xFF) as u8);
                            }
                            1 => {
                                let l = len - 0x11;
                                body.push((l >> 4) as u8);
                                body.push((((l & 0xF) << 4) | (d >> 8)) as u8);
                                body.push((d & 0xFF) as u8);
                            }
                            _ => {
                                let l = len - 0x111;
                                assert!(l <= 0xFFFF);
                                body.push((0x10 | (l >> 12)) as u8);
                                body.push(((l >> 4) & 0xFF) as u8);
                                body.push((((l & 0xF) << 4) | (d >> 8)) as u8);
                                body.push((d & 0xFF) as u8);
                            }
                        },
                    }
                }
            }
        }
        out.push(flags);
        out.extend(body);
    }
    out
}

/// header size of what the library's compressors emit
pub fn header_len(kind: Kind, lz13_wrapper: bool) -> usize {
    let _ = kind;
    4 + if lz13_wrapper { 4 } else { 0 }
}

/// C10 expansion bound: header + n + ceil(n/8)
pub fn expansion_bound(header: usize, n: usize) -> usize {
    header + n + (n + 7) / 8
}

/// C10 effectiveness bound for an input of n bytes with period p (p ≤ 4096, n > p):
/// header + (p+2) literals + r references of w bytes + one flag byte per eight tokens,
/// r = ceil((n-p)/L)+1.
pub fn periodic_bound(header: usize, n: usize, p: usize, w: usize, l: usize) -> usize {
    let lits = p + 2;
    let r = (n - p + l - 1) / l + 1;
    let tokens = lits + r;
    header + lits + r * w + (tokens + 7) / 8
}

#[cfg(test)]
mod tests {
    use super::*;
    #[test]
    fn roundtrip_tokens() {
        for kind in [Kind::Lz10, Kind::Lz11] {
            let toks = vec![
                Token::Lit(1),
                Token::Lit(2),
                Token::Ref { len: 5, disp: 2 },
                Token::Lit(9),
                Token::Ref { len: 18, disp: 1 },
            ];
            let data = expand(&[], &toks);
            let s = encode(&toks, kind, data.len(), None);
            let d = decode(&s, kind, false).unwrap();
            assert_eq!(d.data, data);
            assert_eq!(d.tokens, toks);
        }
        let toks = vec![Token::Lit(7), Token::Ref { len: 300, disp: 1 }, Token::Ref { len: 17, disp: 301 }, Token::Ref { len: 272, disp: 5 }];
        let data = expand(&[], &toks);
        let s = encode(&toks, Kind::Lz11, data.len(), None);
        let d = decode(&s, Kind::Lz11, false).unwrap();
        assert_eq!(d.data, data);
        assert_eq!(d.tokens, toks);
    }
}
