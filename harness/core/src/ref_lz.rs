//! ref_lz (to be filled)
