//! Builders of conforming texture containers (CTPK, BCH, CGFX, TPL) from a list of textures,
//! each with a family of layouts: the movable sections in every order, with 0- or 16-byte
//! gaps, entries inside a section forward or reversed, shared or duplicated name storage.
//! Field offsets follow DESIGN Appendix A (3dbrew / Ohana3DS / YAGCD descriptions of the
//! formats, and the anchors named by property C20). mila has no writer for these formats.
//!
//! Independence caveat (DESIGN §2.6): the public documentation of BCH/CGFX is thin, so a
//! misreading shared by these builders and by mila's parsers would go unnoticed.

use crate::sjis;
use crate::util::permutations;

#[derive(Clone, Debug)]
pub struct TexSpec {
    pub name: String,
    pub width: usize,
    pub height: usize,
    /// 3DS `pixel_format` code (CTPK/BCH/CGFX); TPL image format (9 = CI8)
    pub format: u32,
    pub payload: Vec<u8>,
    /// TPL only: palette entries (RGB5A3)
    pub palette: Vec<u16>,
}

#[derive(Clone, Copy, Debug, PartialEq, Eq, Hash)]
pub enum Container {
    Ctpk,
    Bch,
    Cgfx,
    Tpl,
}

impl Container {
    pub const ALL: [Container; 4] = [Container::Ctpk, Container::Bch, Container::Cgfx, Container::Tpl];
    pub fn name(self) -> &'static str {
        match self {
            Container::Ctpk => "ctpk",
            Container::Bch => "bch",
            Container::Cgfx => "cgfx",
            Container::Tpl => "tpl",
        }
    }
    pub fn from_name(n: &str) -> Option<Container> {
        Container::ALL.iter().copied().find(|c| c.name() == n)
    }
    pub fn stores_names(self) -> bool {
        !matches!(self, Container::Tpl)
    }
    pub fn checks_magic(self) -> bool {
        !matches!(self, Container::Ctpk)
    }
}

#[derive(Clone, Debug, PartialEq, Eq)]
pub struct Layout {
    /// index into the permutations of the container's movable sections
    pub order: usize,
    /// bytes of filler between sections (and, with `FLAG_INNER_GAPS`, between entries)
    pub gap: usize,
    pub flags: u32,
    /// BCH backward-compatibility byte (selects the extended header)
    pub compat: u8,
}

/// entries of the name section in reverse order
pub const FLAG_REV_NAMES: u32 = 1;
/// payloads in reverse order inside the payload section
pub const FLAG_REV_PAYLOADS: u32 = 2;
/// equal names stored once and referenced by all their users
pub const FLAG_SHARE_NAMES: u32 = 4;
/// filler between the entries inside sections too, and before the first payload
pub const FLAG_INNER_GAPS: u32 = 8;
/// per-texture records (BCH objects + command blocks, CGFX TXOBs, TPL headers) in reverse order
pub const FLAG_REV_RECORDS: u32 = 16;
/// BCH: pointer table after the objects; CGFX: the DICT entry refers to its own copy of the name
pub const FLAG_ALT_TABLE: u32 = 32;
/// textures whose payload bytes are equal share ONE stored payload (whatever their formats)
pub const FLAG_SHARE_PAYLOADS: u32 = 64;

impl Layout {
    pub fn canonical() -> Layout {
        Layout { order: 0, gap: 0, flags: 0, compat: 0x21 }
    }
    pub fn has(&self, f: u32) -> bool {
        self.flags & f != 0
    }
    pub fn describe(&self) -> String {
        format!("order={} gap={} flags={:#x} compat={:#x}", self.order, self.gap, self.flags, self.compat)
    }
}

pub struct Built {
    pub bytes: Vec<u8>,
    /// [start, end) of each texture's payload, in texture order
    pub payload_ranges: Vec<(usize, usize)>,
    /// true when the file uses a self-relative offset that points backwards (CGFX only)
    pub backward_offsets: bool,
}

impl Built {
    /// Smallest prefix length that keeps every texture payload whole.
    pub fn payload_end(&self) -> usize {
        self.payload_ranges.iter().filter(|(s, e)| e > s).map(|(_, e)| *e).max().unwrap_or(0)
    }
}

const FILL: u8 = 0xCD;

struct W {
    b: Vec<u8>,
}

impl W {
    fn new() -> W {
        W { b: Vec::new() }
    }
    fn pos(&self) -> usize {
        self.b.len()
    }
    fn u8(&mut self, v: u8) {
        self.b.push(v);
    }
    fn u16le(&mut self, v: u16) {
        self.b.extend_from_slice(&v.to_le_bytes());
    }
    fn u32le(&mut self, v: u32) {
        self.b.extend_from_slice(&v.to_le_bytes());
    }
    fn u16be(&mut self, v: u16) {
        self.b.extend_from_slice(&v.to_be_bytes());
    }
    fn u32be(&mut self, v: u32) {
        self.b.extend_from_slice(&v.to_be_bytes());
    }
    fn bytes(&mut self, v: &[u8]) {
        self.b.extend_from_slice(v);
    }
    fn fill(&mut self, n: usize) {
        self.b.extend(std::iter::repeat(FILL).take(n));
    }
    fn zeros(&mut self, n: usize) {
        self.b.extend(std::iter::repeat(0).take(n));
    }
    fn put32le(&mut self, at: usize, v: u32) {
        self.b[at..at + 4].copy_from_slice(&v.to_le_bytes());
    }
    fn put32be(&mut self, at: usize, v: u32) {
        self.b[at..at + 4].copy_from_slice(&v.to_be_bytes());
    }
}

fn order_of(n: usize, nsec: usize, rev: bool) -> Vec<usize> {
    let _ = nsec;
    if rev {
        (0..n).rev().collect()
    } else {
        (0..n).collect()
    }
}

/// Name storage: returns (blob, offset of each texture's name inside the blob).
fn name_blob(names: &[Vec<u8>], l: &Layout) -> (Vec<u8>, Vec<usize>) {
    let n = names.len();
    let mut blob = Vec::new();
    let mut off = vec![usize::MAX; n];
    for i in order_of(n, 0, l.has(FLAG_REV_NAMES)) {
        if l.has(FLAG_SHARE_NAMES) {
            if let Some(j) = (0..n).find(|&j| off[j] != usize::MAX && names[j] == names[i]) {
                off[i] = off[j];
                continue;
            }
        }
        if l.has(FLAG_INNER_GAPS) && !blob.is_empty() {
            // filler between names must not contain NUL-less runs that change a name: FILL + NUL
            blob.extend(std::iter::repeat(FILL).take(l.gap.max(1) - 1));
            blob.push(0);
        }
        off[i] = blob.len();
        blob.extend_from_slice(&names[i]);
        blob.push(0);
    }
    (blob, off)
}

/// Payload storage: returns (blob, offset of each payload inside the blob).
fn payload_blob(texs: &[TexSpec], l: &Layout) -> (Vec<u8>, Vec<usize>) {
    let n = texs.len();
    let mut blob = Vec::new();
    let mut off = vec![0usize; n];
    if l.has(FLAG_INNER_GAPS) {
        blob.extend(std::iter::repeat(FILL).take(16));
    }
    let mut placed: Vec<usize> = Vec::new();
    for i in order_of(n, 0, l.has(FLAG_REV_PAYLOADS)) {
        if l.has(FLAG_SHARE_PAYLOADS) {
            if let Some(&j) = placed.iter().find(|&&j| texs[j].payload == texs[i].payload) {
                off[i] = off[j];
                continue;
            }
        }
        placed.push(i);
        off[i] = blob.len();
        blob.extend_from_slice(&texs[i].payload);
        if l.has(FLAG_INNER_GAPS) {
            blob.extend(std::iter::repeat(FILL).take(16));
        }
    }
    (blob, off)
}

// ---------------------------------------------------------------------------------------
// CTPK

pub fn ctpk_layouts() -> Vec<Layout> {
    let mut v = Vec::new();
    for order in 0..6 {
        for gap in [0usize, 16] {
            for flags in 0..16u32 {
                v.push(Layout { order, gap, flags, compat: 0 });
            }
        }
    }
    v
}

/// Sections: header `00..20`, texture info table `20..` (both fixed by the format), then in
/// the layout's order: names, payload section, miscellaneous (bitmap sizes, hashes, short info).
pub fn build_ctpk(texs: &[TexSpec], l: &Layout) -> Built {
    let n = texs.len();
    let names: Vec<Vec<u8>> = texs.iter().map(|t| sjis::encode(&t.name).expect("name must be Shift-JIS encodable")).collect();
    let (nblob, noff) = name_blob(&names, l);
    let (pblob, poff) = payload_blob(texs, l);
    let mut w = W::new();
    w.bytes(b"CTPK");
    w.u16le(1);
    w.u16le(n as u16);
    let hdr_section_base = w.pos();
    w.u32le(0); // payload section base
    w.u32le(pblob.len() as u32);
    let hdr_hash = w.pos();
    w.u32le(0);
    let hdr_short = w.pos();
    w.u32le(0);
    w.zeros(8);
    let info = w.pos();
    for t in texs {
        w.u32le(0); // name pointer
        w.u32le(t.payload.len() as u32);
        w.u32le(0); // payload offset
        w.u32le(t.format);
        w.u16le(t.width as u16);
        w.u16le(t.height as u16);
        w.u8(1); // mip levels
        w.u8(2); // type: 2D
        w.u16le(0); // cube direction
        w.u32le(0); // bitmap size pointer
        w.u32le(0x5F00_0000); // time stamp
    }
    let perm = &permutations(3)[l.order % 6];
    let mut ranges = vec![(0usize, 0usize); n];
    for &sec in perm {
        w.fill(l.gap);
        match sec {
            0 => {
                let base = w.pos();
                w.bytes(&nblob);
                for i in 0..n {
                    w.put32le(info + i * 0x20, (base + noff[i]) as u32);
                }
            }
            1 => {
                let base = w.pos();
                w.bytes(&pblob);
                w.put32le(hdr_section_base, base as u32);
                for i in 0..n {
                    w.put32le(info + i * 0x20 + 8, poff[i] as u32);
                    ranges[i] = (base + poff[i], base + poff[i] + texs[i].payload.len());
                }
            }
            _ => {
                // bitmap size table (one u32 per texture, relative pointer / 4 in the info entry)
                let bm = w.pos();
                for (i, t) in texs.iter().enumerate() {
                    w.put32le(info + i * 0x20 + 0x18, ((bm - info) / 4 + i) as u32);
                    w.u32le(t.payload.len() as u32);
                }
                w.put32le(hdr_hash, w.pos() as u32);
                for i in 0..n {
                    w.u32le(0x1234_5678 ^ i as u32);
                    w.u32le(i as u32);
                }
                w.put32le(hdr_short, w.pos() as u32);
                for t in texs {
                    w.u8(t.format as u8);
                    w.u8(1);
                    w.u8(0);
                    w.u8(0);
                }
            }
        }
    }
    Built { bytes: w.b, payload_ranges: ranges, backward_offsets: false }
}

// ---------------------------------------------------------------------------------------
// BCH

pub const BCH_COMPAT: [u8; 4] = [0, 7, 0x21, 0x23];
pub const BCH_FLAG_SETS: [u32; 4] = [0, 0x3F, 0x2A, 0x15];

/// `full`: every flag combination (64) instead of the four covering sets.
pub fn bch_layouts(full: bool) -> Vec<Layout> {
    let mut v = Vec::new();
    let flag_sets: Vec<u32> = if full { (0..64).collect() } else { BCH_FLAG_SETS.to_vec() };
    for order in 0..24 {
        for gap in [0usize, 16] {
            for &flags in &flag_sets {
                for compat in BCH_COMPAT {
                    v.push(Layout { order, gap, flags, compat });
                }
            }
        }
    }
    v
}

/// Sections after the header, in the layout's order: contents, strings, commands, raw data;
/// then (extended header only) an empty raw-ext section, and the relocation table.
pub fn build_bch(texs: &[TexSpec], l: &Layout) -> Built {
    let n = texs.len();
    let ext = l.compat > 20;
    let names: Vec<Vec<u8>> = texs.iter().map(|t| t.name.as_bytes().to_vec()).collect();
    let (mut sblob, mut soff) = name_blob(&names, l);
    // a leading entry so that name offset 0 is not the only value ever used
    if l.has(FLAG_INNER_GAPS) {
        let mut b = b"bch_strings\0".to_vec();
        for o in soff.iter_mut() {
            *o += b.len();
        }
        b.extend_from_slice(&sblob);
        sblob = b;
    }
    let (rblob, roff) = payload_blob(texs, l);
    let inner = if l.has(FLAG_INNER_GAPS) { 16 } else { 0 };

    // commands section: one block per texture
    let mut mblob = W::new();
    let mut moff = vec![0usize; n];
    mblob.fill(inner);
    for i in order_of(n, 0, l.has(FLAG_REV_RECORDS)) {
        moff[i] = mblob.pos();
        let t = &texs[i];
        mblob.u16le(t.height as u16);
        mblob.u16le(t.width as u16);
        mblob.u32le(0x000F_0082); // PICA command word (texture size register)
        mblob.u32le(0);
        mblob.u32le(0x000F_0085);
        mblob.u32le(roff[i] as u32);
        mblob.u32le(0x000F_0085);
        mblob.u32le(t.format);
        mblob.u32le(0x000F_008E);
        mblob.fill(inner);
    }
    let mblob = mblob.b;

    // contents section: content header (0x24: texture table offset, count), pointer table, objects
    let mut c = W::new();
    c.zeros(0x24);
    let tbl_field = c.pos();
    c.u32le(0);
    c.u32le(n as u32);
    c.zeros(0x10); // further content tables (unused here)
    let mut ooff = vec![0usize; n];
    let write_objects = |c: &mut W, ooff: &mut Vec<usize>| {
        c.fill(inner);
        for i in order_of(n, 0, l.has(FLAG_REV_RECORDS)) {
            ooff[i] = c.pos();
            c.u32le(moff[i] as u32); // 00 texture unit 0 commands
            c.u32le(moff[i] as u32); // 04 unit 1
            c.u32le(moff[i] as u32); // 08 unit 2
            c.u32le(8); // 0C command word count
            c.u32le(8);
            c.u32le(8);
            c.u32le(0); // 18
            c.u32le(soff[i] as u32); // 1C name
            c.fill(inner);
        }
    };
    let tbl;
    if l.has(FLAG_ALT_TABLE) {
        write_objects(&mut c, &mut ooff);
        tbl = c.pos();
        for i in 0..n {
            c.u32le(ooff[i] as u32);
        }
    } else {
        c.fill(inner);
        tbl = c.pos();
        for _ in 0..n {
            c.u32le(0);
        }
        write_objects(&mut c, &mut ooff);
        for i in 0..n {
            c.put32le(tbl + 4 * i, ooff[i] as u32);
        }
    }
    c.put32le(tbl_field, tbl as u32);
    let cblob = c.b;

    let mut w = W::new();
    w.bytes(b"BCH\0");
    w.u8(l.compat);
    w.u8(l.compat);
    w.u16le(0xA7C4);
    let addr_at = w.pos();
    let nwords = if ext { 6 } else { 5 };
    w.zeros(4 * nwords); // addresses
    let len_at = w.pos();
    w.zeros(4 * nwords); // lengths
    w.u32le(0); // uninitialised data length
    w.u32le(0); // uninitialised commands length
    // word index of each section in the address/length groups
    // contents 0, strings 1, commands 2, raw 3, [raw ext 4], relocation 4|5
    let blobs: [&[u8]; 4] = [&cblob, &sblob, &mblob, &rblob];
    let perm = &permutations(4)[l.order % 24];
    let mut ranges = vec![(0usize, 0usize); n];
    for &sec in perm {
        w.fill(l.gap);
        let base = w.pos();
        w.bytes(blobs[sec]);
        w.put32le(addr_at + 4 * sec, base as u32);
        w.put32le(len_at + 4 * sec, blobs[sec].len() as u32);
        if sec == 3 {
            for i in 0..n {
                ranges[i] = (base + roff[i], base + roff[i] + texs[i].payload.len());
            }
        }
    }
    w.fill(l.gap);
    if ext {
        let p = w.pos() as u32;
        w.put32le(addr_at + 16, p);
        w.put32le(len_at + 16, 0);
    }
    let reloc = w.pos();
    for i in 0..n {
        w.u32le(0x0200_0000 | (moff[i] as u32 / 4 + 4));
    }
    let ri = if ext { 5 } else { 4 };
    w.put32le(addr_at + 4 * ri, reloc as u32);
    w.put32le(len_at + 4 * ri, (4 * n) as u32);
    Built { bytes: w.b, payload_ranges: ranges, backward_offsets: false }
}

// ---------------------------------------------------------------------------------------
// CGFX

/// Orders of (DICT, TXOBs, names, payloads) in which every self-relative offset points
/// forward: DICT before TXOBs before names and payloads.
pub fn cgfx_forward_orders() -> Vec<usize> {
    permutations(4)
        .iter()
        .enumerate()
        .filter(|(_, p)| {
            let pos = |s: usize| p.iter().position(|&x| x == s).unwrap();
            pos(0) < pos(1) && pos(1) < pos(2) && pos(1) < pos(3)
        })
        .map(|(i, _)| i)
        .collect()
}

pub fn cgfx_layouts(forward: bool) -> Vec<Layout> {
    let fwd = cgfx_forward_orders();
    let mut v = Vec::new();
    for order in 0..24 {
        if fwd.contains(&order) != forward {
            continue;
        }
        for gap in [0usize, 16] {
            for flags in 0..64u32 {
                v.push(Layout { order, gap, flags, compat: 0 });
            }
        }
    }
    v
}

const TXOB_LEN: usize = 0x58;

/// Header `00..14`, DATA block `14..9C` (16 dictionary references, fixed by the format), then
/// in the layout's order: texture DICT, TXOB records, names, payloads. All references are
/// self-relative (value + position of the field); a target placed before the field that refers
/// to it is encoded in two's complement and reported through `backward_offsets`.
pub fn build_cgfx(texs: &[TexSpec], l: &Layout) -> Built {
    let n = texs.len();
    // names: texture i's TXOB name, and (FLAG_ALT_TABLE) a separate copy for the DICT entry
    let mut names: Vec<Vec<u8>> = texs.iter().map(|t| t.name.as_bytes().to_vec()).collect();
    let dict_copy = l.has(FLAG_ALT_TABLE);
    if dict_copy {
        for i in 0..n {
            names.push(texs[i].name.as_bytes().to_vec());
        }
    }
    // sharing would merge the copies again; with separate copies only share among TXOB names
    let (nblob, noff) = if dict_copy && l.has(FLAG_SHARE_NAMES) {
        let (mut b1, o1) = name_blob(&names[..n], l);
        let (b2, o2) = name_blob(&names[n..], l);
        let shift = b1.len();
        b1.extend_from_slice(&b2);
        let mut o = o1;
        o.extend(o2.into_iter().map(|x| x + shift));
        (b1, o)
    } else {
        name_blob(&names, l)
    };
    let (pblob, poff) = payload_blob(texs, l);
    let inner = if l.has(FLAG_INNER_GAPS) { 16 } else { 0 };
    let dict_len = 0x1C + 0x10 * n;
    let rec_order = order_of(n, 0, l.has(FLAG_REV_RECORDS));
    let mut txob_rel = vec![0usize; n];
    let mut tx_len = inner;
    for &i in &rec_order {
        txob_rel[i] = tx_len;
        tx_len += TXOB_LEN + inner;
    }

    let mut w = W::new();
    w.bytes(b"CGFX");
    w.u16le(0xFEFF);
    w.u16le(0x14);
    w.u32le(0x0500_0000);
    let size_at = w.pos();
    w.u32le(0);
    w.u32le(1); // blocks
    debug_assert_eq!(w.pos(), 0x14);
    w.bytes(b"DATA");
    let data_size_at = w.pos();
    w.u32le(0);
    let data_entries = w.pos();
    w.zeros(16 * 8);
    w.put32le(data_entries + 8, n as u32);

    let perm = &permutations(4)[l.order % 24];
    // first pass: section bases
    let lens = [dict_len, tx_len, nblob.len(), pblob.len()];
    let mut base = [0usize; 4];
    let mut p = w.pos();
    for &sec in perm {
        p += l.gap;
        base[sec] = p;
        p += lens[sec];
    }
    let total = p;
    let mut backward = false;
    let mut rel = |field_at: usize, target: usize| -> u32 {
        if target < field_at {
            backward = true;
        }
        (target as i64 - field_at as i64) as u32
    };
    let dict_ref = rel(data_entries + 12, base[0]);
    w.put32le(data_entries + 12, dict_ref);
    let mut ranges = vec![(0usize, 0usize); n];
    for &sec in perm {
        w.fill(l.gap);
        debug_assert_eq!(w.pos(), base[sec]);
        match sec {
            0 => {
                w.bytes(b"DICT");
                w.u32le(dict_len as u32);
                w.u32le(n as u32);
                // root node
                w.u32le(0xFFFF_FFFF);
                w.u16le(if n > 0 { 1 } else { 0 });
                w.u16le(0);
                w.u32le(0);
                w.u32le(0);
                for i in 0..n {
                    w.u32le(i as u32); // reference bit
                    w.u16le(((i + 1) % (n + 1)) as u16);
                    w.u16le(i as u16);
                    let at = w.pos();
                    let name_target = base[2] + noff[if dict_copy { n + i } else { i }];
                    w.u32le(rel(at, name_target));
                    let at = w.pos();
                    w.u32le(rel(at, base[1] + txob_rel[i]));
                }
            }
            1 => {
                w.fill(inner);
                for &i in &rec_order {
                    let t = &texs[i];
                    let s = w.pos();
                    debug_assert_eq!(s, base[1] + txob_rel[i]);
                    w.u32le(0x2000_0011); // 00 type flags (image texture)
                    w.bytes(b"TXOB"); // 04
                    w.u32le(0x0500_0000); // 08 revision
                    w.u32le(rel(s + 0x0C, base[2] + noff[i])); // 0C name
                    w.u32le(0); // 10 user data count
                    w.u32le(0); // 14 user data offset
                    w.u32le(t.height as u32); // 18
                    w.u32le(t.width as u32); // 1C
                    w.u32le(0x6752); // 20 GL format
                    w.u32le(0x1401); // 24 GL type
                    w.u32le(1); // 28 mip levels
                    w.u32le(0); // 2C texture object
                    w.u32le(0); // 30 location flags
                    w.u32le(t.format); // 34
                    w.u32le(0); // 38
                    w.u32le(t.height as u32); // 3C image: height
                    w.u32le(t.width as u32); // 40 image: width
                    w.u32le(t.payload.len() as u32); // 44 image: byte size
                    w.u32le(rel(s + 0x48, base[3] + poff[i])); // 48 image: data
                    w.u32le(0); // 4C dynamic allocator
                    w.u32le(t.format_bits()); // 50 bits per pixel
                    w.u32le(0); // 54
                    debug_assert_eq!(w.pos() - s, TXOB_LEN);
                    w.fill(inner);
                }
            }
            2 => w.bytes(&nblob),
            _ => {
                w.bytes(&pblob);
                for i in 0..n {
                    ranges[i] = (base[3] + poff[i], base[3] + poff[i] + texs[i].payload.len());
                }
            }
        }
    }
    debug_assert_eq!(w.pos(), total);
    let len = w.pos() as u32;
    w.put32le(size_at, len);
    w.put32le(data_size_at, len - 0x14);
    Built { bytes: w.b, payload_ranges: ranges, backward_offsets: backward }
}

impl TexSpec {
    fn format_bits(&self) -> u32 {
        let px = (self.width * self.height).max(1);
        (self.payload.len() * 8 / px) as u32
    }
}

// ---------------------------------------------------------------------------------------
// TPL

/// `orders`: which of the 120 section permutations to use.
pub fn tpl_layouts(orders: &[usize]) -> Vec<Layout> {
    let mut v = Vec::new();
    for &order in orders {
        for gap in [0usize, 16] {
            for flags in [0u32, FLAG_REV_RECORDS, FLAG_REV_PAYLOADS, FLAG_REV_RECORDS | FLAG_REV_PAYLOADS | FLAG_INNER_GAPS] {
                v.push(Layout { order, gap, flags, compat: 0 });
            }
        }
    }
    v
}

pub const TPL_CI8: u32 = 9;
pub const TPL_PAL_RGB5A3: u32 = 2;

/// Header `00..0C`, then in the layout's order: image table, image headers, palette headers,
/// image data, palette data. Every pointer is absolute; everything big-endian.
pub fn build_tpl(texs: &[TexSpec], l: &Layout) -> Built {
    let n = texs.len();
    let inner = if l.has(FLAG_INNER_GAPS) { 16 } else { 0 };
    let mut w = W::new();
    w.u32be(0x0020_AF30);
    w.u32be(n as u32);
    let table_ptr_at = w.pos();
    w.u32be(0);
    let perm = &permutations(5)[l.order % 120];
    let rec = order_of(n, 0, l.has(FLAG_REV_RECORDS));
    let dat = order_of(n, 0, l.has(FLAG_REV_PAYLOADS));
    // fix-ups: (field position, which kind, texture)
    let mut table_at = 0usize;
    let mut img_hdr = vec![0usize; n];
    let mut pal_hdr = vec![0usize; n];
    let mut img_dat = vec![0usize; n];
    let mut pal_dat = vec![0usize; n];
    for &sec in perm {
        w.fill(l.gap);
        match sec {
            0 => {
                table_at = w.pos();
                w.zeros(8 * n);
            }
            1 => {
                w.fill(inner);
                for &i in &rec {
                    let t = &texs[i];
                    img_hdr[i] = w.pos();
                    w.u16be(t.height as u16);
                    w.u16be(t.width as u16);
                    w.u32be(t.format);
                    w.u32be(0); // data pointer
                    w.u32be(0); // wrap s
                    w.u32be(0); // wrap t
                    w.u32be(1); // min filter
                    w.u32be(1); // mag filter
                    w.u32be(0); // LOD bias (0.0)
                    w.u8(0);
                    w.u8(0);
                    w.u8(0);
                    w.u8(0);
                    w.fill(inner);
                }
            }
            2 => {
                w.fill(inner);
                for &i in &rec {
                    let t = &texs[i];
                    pal_hdr[i] = w.pos();
                    w.u16be(t.palette.len() as u16);
                    w.u8(0);
                    w.u8(0);
                    w.u32be(TPL_PAL_RGB5A3);
                    w.u32be(0); // data pointer
                    w.fill(inner);
                }
            }
            3 => {
                w.fill(inner);
                for &i in &dat {
                    img_dat[i] = w.pos();
                    w.bytes(&texs[i].payload);
                    w.fill(inner);
                }
            }
            _ => {
                w.fill(inner);
                for &i in &dat {
                    pal_dat[i] = w.pos();
                    for &c in &texs[i].palette {
                        w.u16be(c);
                    }
                    w.fill(inner);
                }
            }
        }
    }
    w.put32be(table_ptr_at, table_at as u32);
    let mut ranges = vec![(0usize, 0usize); n];
    for i in 0..n {
        w.put32be(table_at + 8 * i, img_hdr[i] as u32);
        w.put32be(table_at + 8 * i + 4, pal_hdr[i] as u32);
        w.put32be(img_hdr[i] + 8, img_dat[i] as u32);
        w.put32be(pal_hdr[i] + 8, pal_dat[i] as u32);
        ranges[i] = (img_dat[i], img_dat[i] + texs[i].payload.len());
    }
    Built { bytes: w.b, payload_ranges: ranges, backward_offsets: false }
}

pub fn build(c: Container, texs: &[TexSpec], l: &Layout) -> Built {
    match c {
        Container::Ctpk => build_ctpk(texs, l),
        Container::Bch => build_bch(texs, l),
        Container::Cgfx => build_cgfx(texs, l),
        Container::Tpl => build_tpl(texs, l),
    }
}

#[cfg(test)]
mod tests {
    use super::*;

    #[test]
    fn cgfx_has_two_forward_orders() {
        assert_eq!(cgfx_forward_orders().len(), 2);
    }

    #[test]
    fn payloads_are_where_the_ranges_say() {
        let texs: Vec<TexSpec> = (0..3)
            .map(|i| TexSpec { name: format!("n{}", i % 2), width: 8, height: 8, format: 7, payload: vec![i as u8 + 1; 64], palette: vec![0x8000; 4] })
            .collect();
        for c in Container::ALL {
            let layouts = match c {
                Container::Ctpk => ctpk_layouts(),
                Container::Bch => bch_layouts(false),
                Container::Cgfx => {
                    let mut v = cgfx_layouts(true);
                    v.extend(cgfx_layouts(false));
                    v
                }
                Container::Tpl => tpl_layouts(&(0..120).collect::<Vec<_>>()),
            };
            for l in &layouts {
                let mut t = texs.clone();
                if c == Container::Tpl {
                    for x in t.iter_mut() {
                        x.format = TPL_CI8;
                        x.payload = vec![x.payload[0]; 64];
                    }
                }
                let b = build(c, &t, l);
                for (i, (s, e)) in b.payload_ranges.iter().enumerate() {
                    assert_eq!(&b.bytes[*s..*e], &t[i].payload[..], "{:?} {:?}", c, l);
                }
                if c == Container::Cgfx {
                    assert_eq!(b.backward_offsets, !cgfx_forward_orders().contains(&l.order));
                }
            }
        }
    }
}
