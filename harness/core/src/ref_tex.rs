//! ref_tex (to be filled)
