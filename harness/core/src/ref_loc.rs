//! Localisation specification: 6 localizers × 8 languages → marker / unsupported,
//! and the composition rule. Written from the property statement (C14), not from the code.

#[derive(Clone, Copy, Debug, PartialEq, Eq)]
pub enum Loc {
    NoOp,
    FE9,
    FE10,
    FE13,
    FE14,
    FE15,
}
pub const LOCS: [Loc; 6] = [Loc::NoOp, Loc::FE9, Loc::FE10, Loc::FE13, Loc::FE14, Loc::FE15];

#[derive(Clone, Copy, Debug, PartialEq, Eq)]
pub enum Lang {
    EnglishNA,
    EnglishEU,
    Japanese,
    Spanish,
    French,
    Italian,
    German,
    Dutch,
}
pub const LANGS: [Lang; 8] = [
    Lang::EnglishNA,
    Lang::EnglishEU,
    Lang::Japanese,
    Lang::Spanish,
    Lang::French,
    Lang::Italian,
    Lang::German,
    Lang::Dutch,
];

#[derive(Clone, Debug, PartialEq, Eq)]
pub enum Marker {
    /// identity mapping (NoOp localizer)
    Identity,
    /// language directory inserted between directory part and final component ("" = none)
    Dir(&'static str),
    /// prefix glued to the final component ("" = none)
    Prefix(&'static str),
    Unsupported,
}

pub fn marker(loc: Loc, lang: Lang) -> Marker {
    use Lang::*;
    match loc {
        Loc::NoOp => Marker::Identity,
        Loc::FE9 => match lang {
            Japanese | EnglishNA | EnglishEU => Marker::Prefix(""),
            Spanish => Marker::Prefix("s_"),
            German => Marker::Prefix("d_"),
            Italian => Marker::Prefix("i_"),
            French => Marker::Prefix("f_"),
            Dutch => Marker::Unsupported,
        },
        Loc::FE10 => match lang {
            Japanese => Marker::Prefix(""),
            EnglishNA | EnglishEU => Marker::Prefix("e_"),
            Spanish => Marker::Prefix("s_"),
            German => Marker::Prefix("d_"),
            Italian => Marker::Prefix("i_"),
            French => Marker::Prefix("f_"),
            Dutch => Marker::Unsupported,
        },
        Loc::FE13 => match lang {
            Japanese => Marker::Dir(""),
            EnglishNA => Marker::Dir("E"),
            EnglishEU => Marker::Dir("U"),
            Spanish => Marker::Dir("S"),
            French => Marker::Dir("F"),
            German => Marker::Dir("G"),
            Italian => Marker::Dir("I"),
            Dutch => Marker::Unsupported,
        },
        Loc::FE14 => match lang {
            Japanese => Marker::Dir(""),
            EnglishNA => Marker::Dir("@E"),
            EnglishEU => Marker::Dir("@U"),
            Spanish => Marker::Dir("@S"),
            French => Marker::Dir("@F"),
            German => Marker::Dir("@G"),
            Italian => Marker::Dir("@I"),
            Dutch => Marker::Unsupported,
        },
        Loc::FE15 => match lang {
            Japanese => Marker::Dir("@J"),
            EnglishNA => Marker::Dir("@NOA_EN"),
            EnglishEU => Marker::Dir("@NOE_EN"),
            Spanish => Marker::Dir("@NOE_SP"),
            French => Marker::Dir("@NOE_FR"),
            German => Marker::Dir("@NOE_GE"),
            Italian => Marker::Dir("@NOE_IT"),
            Dutch => Marker::Dir("@NOE_DU"),
        },
    }
}

/// Expected result for a relative path made of plain components (optionally with a
/// trailing slash). `None` = an error is required. `Some(s)` = must equal `s`.
pub fn expected(loc: Loc, lang: Lang, path: &str) -> Option<String> {
    let m = marker(loc, lang);
    if m == Marker::Identity {
        return Some(path.to_string());
    }
    let comps: Vec<&str> = path.split('/').filter(|c| !c.is_empty()).collect();
    if comps.is_empty() || comps.iter().any(|c| *c == "." || *c == "..") {
        return None; // no final component
    }
    if m == Marker::Unsupported {
        return None;
    }
    let (dir, last) = if comps.len() == 1 {
        // single component: treated as the directory, marker appended
        (comps[0].to_string(), "")
    } else {
        (comps[..comps.len() - 1].join("/"), comps[comps.len() - 1])
    };
    Some(match m {
        Marker::Dir("") | Marker::Prefix("") => format!("{}/{}", dir, last),
        Marker::Dir(d) => format!("{}/{}/{}", dir, d, last),
        Marker::Prefix(p) => format!("{}/{}{}", dir, p, last),
        _ => unreachable!(),
    })
}

/// Is a path degenerate (no final component)? For those only "Err, no panic" is required
/// (and nothing at all but "no panic" for the identity localizer).
pub fn is_degenerate(path: &str) -> bool {
    let comps: Vec<&str> = path.split('/').filter(|c| !c.is_empty()).collect();
    comps.is_empty() || comps.iter().any(|c| *c == "." || *c == "..")
}
