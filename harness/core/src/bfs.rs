//! Engine E1 — explicit-state breadth-first exploration of the *real* transition
//! function. Level-synchronous and deterministic: the frontier of depth d is expanded in
//! parallel (rayon), results are merged in (frontier order × action order), so the set of
//! representative histories, every count and the first counterexample are identical from
//! run to run and independent of the number of threads.
//!
//! A node is (key, state, history). `key` is the canonical observable state used for
//! de-duplication; `state` is whatever the system needs to rebuild the real object
//! (usually the history itself or a snapshot); `history` is the shortest action list
//! that reached it (BFS ⇒ first counterexample is the shortest).

use rayon::prelude::*;
use std::collections::HashSet;
use std::fmt::Debug;
use std::hash::Hash;
use std::sync::Arc;

pub enum Step<S> {
    /// transition executed and conforms to the reference model
    Next { state: S, witnesses: u64 },
    /// action not applicable here (not counted as a transition)
    Skip,
    /// the real code diverged from the oracle; the successor is terminal
    Violation { sig: String, summary: String, witnesses: u64 },
}

pub trait System: Sync {
    type State: Clone + Send + Sync;
    type Key: Hash + Eq + Send + Sync + Clone;
    type Action: Clone + Debug + Send + Sync;

    fn init(&self) -> Vec<Self::State>;
    fn key(&self, s: &Self::State) -> Self::Key;
    fn actions(&self, s: &Self::State) -> Vec<Self::Action>;
    /// Execute one action on the real system rebuilt from `s` (+ `history`) and compare
    /// with the reference model.
    fn step(&self, s: &Self::State, history: &[Self::Action], a: &Self::Action) -> Step<Self::State>;
    /// States outside the boundary are counted but not expanded.
    fn within(&self, _s: &Self::State) -> bool {
        true
    }
    /// Evaluated once for every distinct state when it is first reached (in parallel):
    /// observers that depend on the state only. Returns divergences as (sig, summary).
    fn inspect(&self, _s: &Self::State) -> Vec<(String, String)> {
        vec![]
    }
    /// Names of the reachability witnesses (bit i of `witnesses`).
    fn witness_names(&self) -> Vec<&'static str> {
        vec![]
    }
}

#[derive(Debug, Clone)]
pub struct Counterexample<A> {
    pub sig: String,
    pub summary: String,
    pub history: Vec<A>,
}

#[derive(Debug)]
pub struct Report<A> {
    pub states: u64,
    pub transitions: u64,
    pub max_depth_reached: usize,
    pub depth_completed: usize,
    /// true when the frontier became empty (full reachable space explored)
    pub fixpoint: bool,
    pub states_per_depth: Vec<u64>,
    pub boundary_states: u64,
    pub witness_counts: Vec<(String, u64)>,
    pub violations: Vec<Counterexample<A>>,
    pub sample_histories: Vec<Vec<A>>,
    /// states on which `inspect` ran
    pub inspected: u64,
    /// frontier states left unexpanded because the state cap was reached inside a level
    pub unexpanded_due_to_cap: u64,
}

struct Node<S, A> {
    state: S,
    history: Arc<Vec<A>>,
}

pub fn explore<Sy: System>(sys: &Sy, max_depth: Option<usize>, max_states: Option<u64>) -> Report<Sy::Action> {
    let names = sys.witness_names();
    let mut wcounts = vec![0u64; names.len()];
    let mut seen: HashSet<Sy::Key> = HashSet::new();
    let mut frontier: Vec<Node<Sy::State, Sy::Action>> = Vec::new();
    for s in sys.init() {
        if seen.insert(sys.key(&s)) {
            frontier.push(Node {
                state: s,
                history: Arc::new(vec![]),
            });
        }
    }
    let mut rep = Report {
        states: seen.len() as u64,
        transitions: 0,
        max_depth_reached: 0,
        depth_completed: 0,
        fixpoint: false,
        states_per_depth: vec![frontier.len() as u64],
        boundary_states: 0,
        witness_counts: vec![],
        violations: vec![],
        sample_histories: vec![],
        inspected: 0,
        unexpanded_due_to_cap: 0,
    };
    // observers on the initial states
    let init_findings: Vec<Vec<(String, String)>> = frontier.par_iter().map(|n| sys.inspect(&n.state)).collect();
    for (node, f) in frontier.iter().zip(init_findings) {
        for (sig, summary) in f {
            rep.violations.push(Counterexample { sig, summary, history: (*node.history).clone() });
        }
    }
    rep.inspected = frontier.len() as u64;
    let mut depth = 0usize;
    loop {
        if frontier.is_empty() {
            rep.fixpoint = true;
            break;
        }
        if let Some(md) = max_depth {
            if depth >= md {
                break;
            }
        }
        if let Some(ms) = max_states {
            if rep.states >= ms {
                break;
            }
        }
        // expand in parallel; keep per-node results in order
        type Out<S, K, A> = (Vec<(K, S, A, u64)>, Vec<(String, String, A, u64)>, u64, bool);
        let mut next_frontier: Vec<Node<Sy::State, Sy::Action>> = Vec::new();
        let mut state_cap_hit = false;
        // the frontier is expanded in chunks so that only one chunk's successors are alive at a time
        for chunk in frontier.chunks(4096) {
        if state_cap_hit {
            rep.unexpanded_due_to_cap += chunk.len() as u64;
            continue;
        }
        let results: Vec<Out<Sy::State, Sy::Key, Sy::Action>> = chunk
            .par_iter()
            .map(|node| {
                let mut nexts = Vec::new();
                let mut viols = Vec::new();
                let mut trans = 0u64;
                let within = sys.within(&node.state);
                if within {
                    for a in sys.actions(&node.state) {
                        match sys.step(&node.state, &node.history, &a) {
                            Step::Next { state, witnesses } => {
                                trans += 1;
                                let k = sys.key(&state);
                                nexts.push((k, state, a, witnesses));
                            }
                            Step::Skip => {}
                            Step::Violation { sig, summary, witnesses } => {
                                trans += 1;
                                viols.push((sig, summary, a, witnesses));
                            }
                        }
                    }
                }
                (nexts, viols, trans, within)
            })
            .collect();

        for (node, (nexts, viols, trans, within)) in chunk.iter().zip(results.into_iter()) {
            rep.transitions += trans;
            if !within {
                rep.boundary_states += 1;
            }
            for (sig, summary, a, w) in viols {
                for (i, c) in wcounts.iter_mut().enumerate() {
                    if w & (1 << i) != 0 {
                        *c += 1;
                    }
                }
                if rep.violations.len() < 200
                    && rep.violations.iter().filter(|v| v.sig == sig).count() < 5
                {
                    let mut h = (*node.history).clone();
                    h.push(a);
                    rep.violations.push(Counterexample {
                        sig,
                        summary,
                        history: h,
                    });
                }
            }
            for (k, state, a, w) in nexts {
                for (i, c) in wcounts.iter_mut().enumerate() {
                    if w & (1 << i) != 0 {
                        *c += 1;
                    }
                }
                if seen.insert(k) {
                    let mut h = (*node.history).clone();
                    h.push(a);
                    if rep.sample_histories.len() < 3 && h.len() >= 2 {
                        rep.sample_histories.push(h.clone());
                    }
                    next_frontier.push(Node {
                        state,
                        history: Arc::new(h),
                    });
                }
            }
        }
        if let Some(ms) = max_states {
            if seen.len() as u64 >= ms {
                state_cap_hit = true;
            }
        }
        }
        // state observers on every newly reached state
        let findings: Vec<Vec<(String, String)>> = next_frontier.par_iter().map(|n| sys.inspect(&n.state)).collect();
        rep.inspected += next_frontier.len() as u64;
        for (node, f) in next_frontier.iter().zip(findings) {
            for (sig, summary) in f {
                if rep.violations.len() < 200 && rep.violations.iter().filter(|v| v.sig == sig).count() < 5 {
                    rep.violations.push(Counterexample { sig, summary, history: (*node.history).clone() });
                }
            }
        }
        depth += 1;
        rep.depth_completed = depth;
        rep.states = seen.len() as u64;
        rep.states_per_depth.push(next_frontier.len() as u64);
        if !next_frontier.is_empty() {
            rep.max_depth_reached = depth;
        }
        frontier = next_frontier;
    }
    rep.witness_counts = names
        .iter()
        .zip(wcounts.iter())
        .map(|(n, c)| (n.to_string(), *c))
        .collect();
    rep
}
