fn main(){
    let t=std::time::Instant::now();
    let p=vcore::collide::pairs();
    println!("{} pairs in {:?}", p.len(), t.elapsed());
    for x in p { println!("{:?}", x); }
}
