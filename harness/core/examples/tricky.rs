fn main(){
    let t=vcore::sjis::tricky_strings();
    println!("{} strings, {} reps", t.len(), vcore::sjis::class_representatives().len());
    println!("{:?}", &t[..40.min(t.len())]);
    println!("{:?}", vcore::sjis::collation_inversions());
    for s in ["增","栁","喆","桒原","髙","﨑x","纊","黑","〜","HP×2","Жa"] { println!("{} lossless={} {:x?}", s, vcore::sjis::lossless(s), vcore::sjis::encode(s)); }
}
