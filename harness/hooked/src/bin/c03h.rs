//! C03, hooked twin — mila built with its `verif-hooks` feature. The same explicit-state search
//! as the plain check (one level less deep), but every relocation transition (allocate,
//! allocate_at_end, deallocate, truncate, writer-side allocate) is executed once per forced
//! hash iteration order of each annotation map of the pre-state: a relocation that walks a map
//! and moves its entries (an order-dependent overwrite) shows under SOME iteration orders
//! only, and with std's per-instance random hashing neither the detection nor the replay of
//! such a defect is deterministic. Here both are.

use props::c03sys::{self, explore, replay};
use vcore::driver::{BothBuilds, PropDef};

fn main() {
    vcore::driver::set_build_name("hooked");
    let _ = c03sys::SET_OVERRIDES.set(mila::verif_hooks::set_hash_overrides);
    c03sys::FORCE.store(true, std::sync::atomic::Ordering::Relaxed);
    vcore::run_main(PropDef { id: "C03", level: "model_checking", both_builds: BothBuilds::Never, explore, replay, worker: None })
}
