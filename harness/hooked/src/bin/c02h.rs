//! C02, hooked twin — the one source of nondeterminism inside mila's bin archive, the
//! iteration order of its `HashMap`s, is OWNED here instead of sampled: mila is built with
//! its `verif-hooks` feature, whose hasher lets the checker force the hash of chosen keys.
//! For every content of a small family and for every annotation map (strings, pointers,
//! labels) EVERY permutation of that map's keys is forced as its iteration order (bucket
//! rank = forced hash), and jointly every permutation of all annotated addresses when there
//! are at most 5; the realised orders are read back through the observation hook and the
//! run only counts a content as covered when all t! orders of each map were really seen.
//! Oracle: the same as the plain check — one single image, equal to the canonical image
//! (or, for big-endian name ties, identical images + name order + structural correctness);
//! parse → serialize of the canonical image under every forced order is the identity.

use mila::verif_hooks::set_hash_overrides;
use mila::BinArchive;
use props::arch::{self, Call};
use props::binfam;
use props::c02judge::{judge_images, sig};
use rayon::prelude::*;
use serde_json::{json, Value};
use std::collections::{BTreeMap, BTreeSet};
use vcore::driver::{BothBuilds, Ctx, Outcome, PropDef, Tier, Violation};
use vcore::ref_bin::{self, Content, End};
use vcore::{util, Tally};

const CELL_OPTIONS: usize = 6;

/// cell k of an L-byte archive: raw, pointer→0, pointer→L, string "abc", string "L0", string ""
fn set_cell(c: &mut Content, a: usize, o: usize, l: usize) {
    match o {
        0 => c.data[a..a + 4].copy_from_slice(&[0x11, 0x22, 0x33, 0x44]),
        1 => {
            c.pointers.insert(a, 0);
        }
        2 => {
            c.pointers.insert(a, l);
        }
        3 => {
            c.strings.insert(a, "abc".into());
        }
        4 => {
            c.strings.insert(a, "L0".into());
        }
        _ => {
            c.strings.insert(a, "".into());
        }
    }
}

/// label configurations over the addresses {0, 4, .., L}: none; same name everywhere;
/// distinct names in reverse address order; names colliding with a string; two labels on
/// the first address
fn label_cfgs(l: usize) -> Vec<BTreeMap<usize, Vec<String>>> {
    let addrs: Vec<usize> = (0..=l / 4).map(|i| i * 4).collect();
    let mut v = vec![BTreeMap::new()];
    for take in 2..=addrs.len().min(4) {
        let picked: Vec<usize> = if take == addrs.len() { addrs.clone() } else { addrs.iter().rev().take(take).rev().cloned().collect() };
        let n = picked.len();
        let mut same = BTreeMap::new();
        let mut rev = BTreeMap::new();
        let mut mixed = BTreeMap::new();
        for (i, a) in picked.iter().enumerate() {
            same.insert(*a, vec!["L0".to_string()]);
            rev.insert(*a, vec![format!("n{}", n - i)]);
            mixed.insert(*a, if i % 2 == 0 { vec!["abc".to_string()] } else { vec![format!("m{}", n - i)] });
        }
        let mut two = rev.clone();
        two.insert(picked[0], vec!["z".to_string(), "a".to_string()]);
        v.extend([same, rev, mixed, two]);
    }
    v
}

fn family(tier: Tier) -> Vec<Content> {
    let mut out = Vec::new();
    let lengths: &[usize] = tier.pick(&[4, 8, 12, 16], &[4, 8, 12, 16, 20]);
    for &l in lengths {
        let cells = l / 4;
        let lcs = label_cfgs(l);
        for e in [End::Little, End::Big] {
            for choice in util::odometer(CELL_OPTIONS, cells) {
                // at least two annotated cells, otherwise there is no order to force
                if choice.iter().filter(|o| **o != 0).count() < 2 && cells > 1 {
                    continue;
                }
                for (li, lc) in lcs.iter().enumerate() {
                    // thorough: everything; quick: 5-cell archives do not exist, 4-cell ones take every label cfg
                    if l >= 20 && li % 4 != 1 && li != 0 {
                        continue;
                    }
                    let mut c = Content::new(e);
                    c.data = vec![0; l];
                    for (k, o) in choice.iter().enumerate() {
                        set_cell(&mut c, 4 * k, *o, l);
                    }
                    c.labels = lc.clone();
                    out.push(c);
                }
            }
        }
    }
    out
}

/// 8 tied / reversed labels (t! = 40 320 forced orders of the label map)
fn tie_family() -> Vec<Content> {
    let mut v = Vec::new();
    for e in [End::Big, End::Little] {
        for n in [6usize, 8] {
            let mut same = Content::new(e);
            same.data = vec![0; 4 * n];
            let mut rev = same.clone();
            for i in 0..n {
                same.labels.insert(4 * i, vec!["same".to_string()]);
                rev.labels.insert(4 * i, vec![format!("n{}", n - i)]);
            }
            v.push(same);
            v.push(rev);
        }
    }
    v
}

fn key(a: usize) -> Vec<u8> {
    a.to_ne_bytes().to_vec()
}

/// forced hash for bucket rank r: low bits place the key, the top 7 bits (control byte) differ
fn forced(r: usize) -> u64 {
    (r as u64) | (((r as u64) + 1) << 57)
}

/// the assignments (address → rank) to run for content `c`
fn assignments(c: &Content, joint_limit: usize) -> Vec<Vec<(usize, usize)>> {
    let text: Vec<usize> = c.strings.keys().cloned().collect();
    let ptrs: Vec<usize> = c.pointers.keys().cloned().collect();
    let labels: Vec<usize> = c.labels.keys().cloned().collect();
    let all: Vec<usize> = text.iter().chain(&ptrs).chain(&labels).cloned().collect::<BTreeSet<_>>().into_iter().collect();
    let mut out: Vec<Vec<(usize, usize)>> = Vec::new();
    for m in [&text, &ptrs, &labels] {
        if m.len() < 2 {
            continue;
        }
        let others: Vec<usize> = all.iter().filter(|a| !m.contains(a)).cloned().collect();
        for p in util::permutations(m.len()) {
            // key m[i] gets rank p[i]; keys outside the map get the ranks above (their maps see some order)
            let mut asg: Vec<(usize, usize)> = m.iter().enumerate().map(|(i, a)| (*a, p[i])).collect();
            asg.extend(others.iter().enumerate().map(|(i, a)| (*a, m.len() + i)));
            out.push(asg);
        }
    }
    if all.len() >= 2 && all.len() <= joint_limit {
        for p in util::permutations(all.len()) {
            out.push(all.iter().enumerate().map(|(i, a)| (*a, p[i])).collect());
        }
    }
    if out.is_empty() {
        out.push(vec![]);
    }
    out.sort();
    out.dedup();
    out
}

struct Seen {
    text: BTreeSet<Vec<usize>>,
    ptrs: BTreeSet<Vec<usize>>,
    labels: BTreeSet<Vec<usize>>,
}

fn fact(n: usize) -> usize {
    (1..=n).product::<usize>().max(1)
}

fn run_one(c: &Content, asg: &[(usize, usize)], order: Option<&[Call]>, seen: &mut Seen, t: &mut Tally) -> Result<Vec<u8>, (String, String)> {
    set_hash_overrides(asg.iter().map(|(a, r)| (key(*a), forced(*r))).collect());
    t.calls += 2;
    let r = util::catch(|| {
        arch::build(c, order).and_then(|a| {
            let o = a.verif_iteration_orders();
            a.serialize().map(|i| (o, i)).map_err(|e| e.to_string())
        })
    });
    let res = match r {
        Err(p) => Err((format!("panic@{}", p.location), format!("build/serialize panicked: {}", p.message))),
        Ok(Err(e)) => Err((sig("serialize-err", c), format!("building or serializing a domain archive failed: {}", e))),
        Ok(Ok((o, img))) => {
            seen.text.insert(o.text);
            seen.ptrs.insert(o.pointers);
            seen.labels.insert(o.labels);
            Ok(img)
        }
    };
    res
}

fn judge(c: &Content, joint_limit: usize, t: &mut Tally) -> Option<(String, String)> {
    let asgs = assignments(c, joint_limit);
    let calls = arch::calls_of(c);
    let mut rev: Vec<Call> = calls.iter().filter(|x| matches!(x, Call::Label(..))).cloned().collect();
    rev.extend(calls.iter().filter(|x| !matches!(x, Call::Label(..))).rev().cloned());
    let mut seen = Seen { text: BTreeSet::new(), ptrs: BTreeSet::new(), labels: BTreeSet::new() };
    let mut images: Vec<Vec<u8>> = Vec::new();
    let want = ref_bin::write_canonical(c);
    let determined = ref_bin::be_order_is_determined(c);
    let mut result = None;
    for asg in &asgs {
        for order in [None, Some(&rev[..])] {
            match run_one(c, asg, order, &mut seen, t) {
                Err(v) => {
                    result = Some(v);
                    break;
                }
                Ok(img) => {
                    if !images.contains(&img) {
                        images.push(img);
                    }
                }
            }
        }
        if result.is_some() {
            break;
        }
        // parse side: the canonical image parsed and re-serialized under this forced order
        if determined {
            t.calls += 2;
            match util::catch(|| BinArchive::from_bytes(&want, arch::endian(c.endian)).and_then(|a| a.serialize()).map_err(|e| e.to_string())) {
                Ok(Ok(again)) if again == want => {}
                Ok(Ok(again)) => {
                    result = Some((sig("not-byte-stable", c), format!("parse → serialize of the canonical file under forced hash order {:?} gives {} instead of {}", asg, util::hex(&again), util::hex(&want))));
                    break;
                }
                Ok(Err(e)) => {
                    result = Some((sig("reserialize-err", c), format!("parse → serialize of a canonical file failed: {}", e)));
                    break;
                }
                Err(p) => {
                    result = Some((format!("panic@{}", p.location), format!("parse/re-serialize panicked: {}", p.message)));
                    break;
                }
            }
        }
    }
    set_hash_overrides(vec![]);
    t.class_n("forced-hash-assignments", asgs.len() as u64);
    if result.is_some() {
        return result;
    }
    // exhaustiveness of the forced orders, measured: every map saw all t! iteration orders
    let complete = seen.text.len() == fact(c.strings.len()) && seen.ptrs.len() == fact(c.pointers.len()) && seen.labels.len() == fact(c.labels.len());
    t.class(if complete { "all-iteration-orders-realised" } else { "iteration-orders-incomplete" });
    t.class_n("iteration-orders-realised", (seen.text.len() + seen.ptrs.len() + seen.labels.len()) as u64);
    judge_images(c, &images, &format!("{} forced hash orders × 2 call orders", asgs.len()), t)
}

fn explore(ctx: &Ctx) -> Outcome {
    let fam = family(ctx.tier);
    let joint = ctx.tier.pick(5, 6);
    let mut total = fam
        .par_iter()
        .fold(Tally::new, |mut t, c| {
            t.cases += 1;
            t.nontrivial += 1;
            if let Some((s, summary)) = judge(c, joint, &mut t) {
                t.violate(s, summary.chars().take(600).collect::<String>(), binfam::describe(c));
            }
            t
        })
        .reduce(Tally::new, Tally::merge);
    let ties = tie_family();
    let t2 = ties
        .par_iter()
        .fold(Tally::new, |mut t, c| {
            t.cases += 1;
            t.nontrivial += 1;
            if let Some((s, summary)) = judge(c, 0, &mut t) {
                t.violate(s, summary.chars().take(600).collect::<String>(), binfam::describe(c));
            }
            t
        })
        .reduce(Tally::new, Tally::merge);
    total.absorb(t2);
    total.sample(binfam::describe(&fam[fam.len() / 2]));
    let incomplete = total.classes.get("iteration-orders-incomplete").cloned().unwrap_or(0);
    let mut o = total.into_outcome(
        "mila built with the verif-hooks feature: for every content (≤ 5 cells × {raw, 2 pointers, 3 strings}, label sets incl. tied / reversed / string-colliding names and two labels on one address, both endiannesses, plus 6 and 8 tied or reversed labels) EVERY permutation of the keys of each annotation map is forced as that map's hash iteration order, and every joint permutation of all annotated addresses when there are ≤ 5; two call orders each; oracle as in the plain check (single image = canonical image; parse→serialize identity under every forced order)",
        incomplete == 0,
        vec![("hash_iteration_order", json!("owned: forced through mila::verif_hooks::set_hash_overrides, realised orders read back through BinArchive::verif_iteration_orders; 'iteration-orders-incomplete' counts contents for which some permutation of some map was not realised")), ("contents", json!(fam.len() + ties.len()))],
    );
    if incomplete > 0 {
        o.warn(format!("{} contents did not realise every iteration order of every map (hash table internals differ from the assumption 'iteration = ascending bucket rank'); those contents are covered for the realised orders only", incomplete));
    }
    o
}

fn replay(_ctx: &Ctx, case: &Value) -> Vec<Violation> {
    let c = binfam::content_from_json(case);
    let mut t = Tally::new();
    let joint = if c.labels.len() > 5 { 0 } else { 6 };
    match judge(&c, joint, &mut t) {
        Some((sig, summary)) => vec![Violation { sig, summary, case: case.clone() }],
        None => vec![],
    }
}

fn main() {
    vcore::driver::set_build_name("hooked");
    vcore::run_main(PropDef { id: "C02", level: "model_checking", both_builds: BothBuilds::Never, explore, replay, worker: None })
}
