//! Glue shared by the property binaries: conversions between the reference models'
//! vocabulary and mila's public API, and observation of mila objects through that API.

pub mod arch;
pub mod binfam;
pub mod c02judge;
pub mod c03sys;
pub mod fsx;
pub mod glue;
pub mod lzfam;
pub mod poison;
