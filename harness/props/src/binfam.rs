//! The enumerated family of bin-archive contents shared by C01 and C02 (DESIGN §4 C01).

use vcore::driver::Tier;
use vcore::ref_bin::{Content, End};

#[derive(Clone, Debug)]
pub struct FamilyCfg {
    pub lengths: Vec<usize>,
    pub strings: Vec<&'static str>,
    /// pointer targets as functions of L: 0 → 0, 1 → 1, 2 → 4, 3 → L
    pub targets: Vec<usize>,
    pub with_cstrings: bool,
    pub raw_patterns: usize,
}

pub const SIGMA_FULL: [&str; 6] = ["", "a", "abc", "日本", "ｿ", "L0"];
pub const SIGMA_QUICK: [&str; 3] = ["", "abc", "L0"];
pub const NAME_LISTS: [&[&str]; 4] = [&["L0"], &["L0", "L1"], &["a"], &["L1", "L0"]];

pub fn cfgs(tier: Tier, with_cstrings: bool) -> Vec<FamilyCfg> {
    match tier {
        Tier::Quick => vec![FamilyCfg {
            lengths: vec![0, 1, 3, 4, 5, 8, 9, 12],
            strings: SIGMA_QUICK.to_vec(),
            targets: vec![0, 3],
            with_cstrings,
            raw_patterns: 3,
        }],
        Tier::Thorough => vec![
            FamilyCfg { lengths: vec![0, 1, 3, 4, 5, 8, 9, 12], strings: SIGMA_FULL.to_vec(), targets: vec![0, 1, 2, 3], with_cstrings, raw_patterns: 3 },
            FamilyCfg { lengths: vec![13, 16], strings: SIGMA_QUICK.to_vec(), targets: vec![0, 3], with_cstrings, raw_patterns: 2 },
        ],
    }
}

fn target_value(code: usize, l: usize) -> usize {
    match code {
        0 => 0,
        1 => 1,
        2 => 4,
        _ => l,
    }
}

fn label_addresses(l: usize) -> Vec<usize> {
    let mut v: Vec<usize> = vec![0, 1, 4, l.wrapping_sub(1), l].into_iter().filter(|a| *a <= l).collect();
    v.sort();
    v.dedup();
    v
}

/// label configurations: none; one address × 4 name lists; two addresses × 4 × 4
pub fn label_cfg_count(l: usize) -> u64 {
    let n = label_addresses(l).len() as u64;
    1 + n * 4 + n * (n.saturating_sub(1)) / 2 * 16
}

fn label_cfg(l: usize, mut i: u64) -> Vec<(usize, Vec<String>)> {
    let addrs = label_addresses(l);
    let n = addrs.len() as u64;
    let names = |k: u64| NAME_LISTS[k as usize].iter().map(|s| s.to_string()).collect::<Vec<_>>();
    if i == 0 {
        return vec![];
    }
    i -= 1;
    if i < n * 4 {
        return vec![(addrs[(i / 4) as usize], names(i % 4))];
    }
    i -= n * 4;
    let pair = i / 16;
    let nm = i % 16;
    // pair index → (x, y), x < y
    let mut k = 0;
    for x in 0..addrs.len() {
        for y in (x + 1)..addrs.len() {
            if k == pair {
                return vec![(addrs[x], names(nm / 4)), (addrs[y], names(nm % 4))];
            }
            k += 1;
        }
    }
    unreachable!()
}

pub fn cell_options(cfg: &FamilyCfg, l: usize) -> u64 {
    let targets = cfg.targets.iter().map(|c| target_value(*c, l)).collect::<std::collections::BTreeSet<_>>().len();
    (cfg.raw_patterns + targets + cfg.strings.len() * if cfg.with_cstrings { 2 } else { 1 }) as u64
}

pub fn count(cfg: &FamilyCfg, l: usize) -> u64 {
    let cells = (l / 4) as u32;
    cell_options(cfg, l).pow(cells) * label_cfg_count(l) * 2
}

fn raw_pattern(k: usize, e: End) -> [u8; 4] {
    match k {
        0 => [0, 0, 0, 0],
        1 => [0x11, 0x22, 0x33, 0x44],
        // a u32 that looks like a string pointer (value far beyond any data size here)
        _ => e.u32(0x0000_0100),
    }
}

pub fn case_at(cfg: &FamilyCfg, l: usize, mut idx: u64) -> Content {
    let e = if idx % 2 == 0 { End::Little } else { End::Big };
    idx /= 2;
    let lc = label_cfg_count(l);
    let labels = label_cfg(l, idx % lc);
    idx /= lc;
    let mut c = Content::new(e);
    c.data = (0..l).map(|i| 0xE0u8.wrapping_add(i as u8)).collect();
    let opts = cell_options(cfg, l);
    let targets: Vec<usize> = cfg.targets.iter().map(|t| target_value(*t, l)).collect::<std::collections::BTreeSet<_>>().into_iter().collect();
    for cell in 0..(l / 4) {
        let mut o = (idx % opts) as usize;
        idx /= opts;
        let a = cell * 4;
        if o < cfg.raw_patterns {
            c.data[a..a + 4].copy_from_slice(&raw_pattern(o, e));
            continue;
        }
        o -= cfg.raw_patterns;
        c.data[a..a + 4].copy_from_slice(&[0, 0, 0, 0]);
        if o < targets.len() {
            c.pointers.insert(a, targets[o]);
            continue;
        }
        o -= targets.len();
        if o < cfg.strings.len() {
            c.strings.insert(a, cfg.strings[o].to_string());
            continue;
        }
        o -= cfg.strings.len();
        c.cstrings.insert(a, cfg.strings[o].to_string());
    }
    for (a, names) in labels {
        c.labels.insert(a, names);
    }
    c
}

/// Feature tags of a content (for signatures and the non-triviality rule).
pub fn features(c: &Content) -> Vec<&'static str> {
    let mut f = Vec::new();
    if !c.pointers.is_empty() {
        f.push("ptr");
    }
    if !c.strings.is_empty() {
        f.push("str");
    }
    if !c.cstrings.is_empty() {
        f.push("cstr");
    }
    if !c.labels.is_empty() {
        f.push("label");
    }
    if c.labels.contains_key(&c.size()) {
        f.push("end-label");
    }
    if c.labels.keys().any(|a| a % 4 != 0) {
        f.push("unaligned-label");
    }
    if c.size() % 4 != 0 {
        f.push("unaligned-size");
    }
    if c.endian == End::Big {
        f.push("BE");
    }
    f
}

pub fn describe(c: &Content) -> serde_json::Value {
    serde_json::json!({
        "endian": format!("{:?}", c.endian),
        "data": vcore::util::hex(&c.data),
        "strings": c.strings.iter().map(|(a, s)| (a.to_string(), s.clone())).collect::<std::collections::BTreeMap<_, _>>(),
        "pointers": c.pointers.iter().map(|(a, s)| (a.to_string(), *s)).collect::<std::collections::BTreeMap<_, _>>(),
        "cstrings": c.cstrings.iter().map(|(a, s)| (a.to_string(), s.clone())).collect::<std::collections::BTreeMap<_, _>>(),
        "labels": c.labels.iter().map(|(a, s)| (a.to_string(), s.clone())).collect::<std::collections::BTreeMap<_, _>>(),
    })
}

pub fn content_from_json(v: &serde_json::Value) -> Content {
    let e = if v["endian"] == "Big" { End::Big } else { End::Little };
    let mut c = Content::new(e);
    c.data = vcore::util::unhex(v["data"].as_str().unwrap_or(""));
    let map = |k: &str| v[k].as_object().cloned().unwrap_or_default();
    for (a, s) in map("strings") {
        c.strings.insert(a.parse().unwrap_or(0), s.as_str().unwrap_or("").to_string());
    }
    for (a, s) in map("pointers") {
        c.pointers.insert(a.parse().unwrap_or(0), s.as_u64().unwrap_or(0) as usize);
    }
    for (a, s) in map("cstrings") {
        c.cstrings.insert(a.parse().unwrap_or(0), s.as_str().unwrap_or("").to_string());
    }
    for (a, s) in map("labels") {
        c.labels.insert(a.parse().unwrap_or(0), s.as_array().map(|x| x.iter().map(|y| y.as_str().unwrap_or("").to_string()).collect()).unwrap_or_default());
    }
    c
}

/// A few large archives (text section and tables well beyond 64 KiB) — catches width
/// truncations that no small archive can show.
pub fn big_cases() -> Vec<Content> {
    let mut v = Vec::new();
    for e in [End::Little, End::Big] {
        for n in vcore::util::ladder(16_385).into_iter().chain([20_000]) {
            let mut c = Content::new(e);
            c.data = (0..4 * n).map(|i| (i as u8).wrapping_mul(29).wrapping_add(5)).collect();
            for i in 0..n {
                let a = 4 * i;
                match i % 3 {
                    0 => {
                        c.strings.insert(a, format!("string-number-{:05}-日本", (i / 3) % 7000));
                    }
                    1 => {
                        c.pointers.insert(a, (a * 7) % (4 * n + 1));
                    }
                    _ => {}
                }
                if i % 4 == 0 {
                    c.labels.insert(a, vec![format!("Label{:05}", n - i)]);
                }
            }
            c.labels.insert(4 * n, vec!["End".to_string()]);
            v.push(c);
        }
    }
    v
}

/// Length sweep: names and strings of every length 0..=48, shared between a label and a
/// string cell or not — slides every text offset across the table offsets and alignment
/// boundaries (coincidences between text-relative and data-relative offsets show here).
pub fn length_sweep() -> Vec<Content> {
    let mut v = Vec::new();
    for e in [End::Little, End::Big] {
        for l in [4usize, 8] {
            for k in 0..=48usize {
                let n1: String = "abcdefghij".chars().cycle().take(k).collect();
                for share in 0..4 {
                    let mut c = Content::new(e);
                    c.data = vec![0; l];
                    let s = match share {
                        0 => n1.clone(),       // string equal to the first (long) label name
                        1 => "y".to_string(),  // string equal to the second label name
                        2 => format!("{}z", n1), // string longer than the first name
                        _ => "s".to_string(),
                    };
                    c.strings.insert(0, s);
                    if l == 8 {
                        c.pointers.insert(4, 4);
                    }
                    c.labels.insert(0, vec![n1.clone()]);
                    c.labels.insert(l, vec!["y".to_string()]);
                    v.push(c);
                }
            }
        }
    }
    v
}

/// Long strings made of two-byte characters at every byte alignment (a decoder working in
/// fixed-size blocks would split a character).
pub fn multibyte_alignment() -> Vec<Content> {
    let mut v = Vec::new();
    for e in [End::Little, End::Big] {
        for shift in 0..4usize {
            for reps in [31usize, 32, 63, 64, 127, 128, 200] {
                let s: String = "a".repeat(shift) + &"漢字".repeat(reps);
                let mut c = Content::new(e);
                c.data = vec![0; 12];
                c.strings.insert(0, s.clone());
                c.cstrings.insert(4, format!("c{}", s));
                c.labels.insert(8, vec![format!("L{}", s)]);
                v.push(c);
            }
        }
    }
    v
}

/// Half-width katakana: single-byte Shift-JIS characters 0xA1..0xDF. Pairs such as "ﾂｱ"
/// (C2 B1) are also valid UTF-8, a trailing one sits directly before the NUL, and a lead-byte
/// scanner could mistake them for the first half of a two-byte character.
pub fn kana_family() -> Vec<Content> {
    let strings = ["ﾂｱ", "ｿ", "AID_ﾏﾙｽ", "ﾃｽﾄ", "ﾎｼ_ﾊｺ.bin", "ﾄｱ.bin"];
    let mut v = Vec::new();
    for e in [End::Little, End::Big] {
        for (i, s) in strings.iter().enumerate() {
            let other = strings[(i + 1) % strings.len()];
            let mut c = Content::new(e);
            c.data = vec![0; 12];
            c.strings.insert(0, s.to_string());
            c.strings.insert(4, other.to_string());
            c.cstrings.insert(8, s.to_string());
            c.labels.insert(0, vec![s.to_string(), other.to_string()]);
            c.labels.insert(12, vec![format!("{}x", s)]);
            v.push(c);
        }
    }
    v
}

/// Every string of the shared tricky catalogue (`vcore::sjis::tricky_strings`) in every role:
/// string cell, second string cell (next catalogue entry), c-string, two labels on one
/// address, label on the end address.
pub fn tricky_family() -> Vec<Content> {
    let strings = vcore::sjis::tricky_strings();
    let mut v = Vec::new();
    for e in [End::Little, End::Big] {
        for (i, s) in strings.iter().enumerate() {
            let other = &strings[(i + 1) % strings.len()];
            let mut c = Content::new(e);
            c.data = vec![0; 12];
            c.strings.insert(0, s.to_string());
            c.strings.insert(4, other.to_string());
            c.cstrings.insert(8, s.to_string());
            c.labels.insert(0, vec![s.to_string(), other.to_string()]);
            c.labels.insert(12, vec![format!("{}x", s)]);
            v.push(c);
        }
    }
    v
}

/// Raw data bytes that ECHO the archive's own strings: the bytes of a c-string / string / label
/// name plus a NUL sitting in the data region, once under an annotated cell (whose bytes the
/// writer overwrites), once in plain data — a writer that looks for existing copies of a string
/// in the data, or a reader that trusts what it finds there, meets a coincidence here.
pub fn echo_family() -> Vec<Content> {
    let mut v = Vec::new();
    for e in [End::Little, End::Big] {
        for s in ["MID", "ab", "x", "abc"] {
            let mut echo = s.as_bytes().to_vec();
            echo.push(0);
            echo.resize(4, 0);
            for under in 0..4usize {
                // cells: 0 pointer, 4 string, 8 c-string (the echoed one), 12 plain, 16 c-string
                let mut c = Content::new(e);
                c.data = vec![0x11; 20];
                c.pointers.insert(0, 12);
                c.strings.insert(4, format!("{}!", s));
                c.cstrings.insert(8, s.to_string());
                c.cstrings.insert(16, format!("{}{}", s, s));
                let at = [0usize, 4, 12, 16][under];
                c.data[at..at + 4].copy_from_slice(&echo);
                c.labels.insert(12, vec![s.to_string()]);
                v.push(c);
            }
        }
    }
    v
}

/// Label names whose code-point order and Shift-JIS byte order differ, on distinct addresses
/// (big-endian sorts the table by name) — both address orders.
pub fn collation_family() -> Vec<Content> {
    let mut v = Vec::new();
    for e in [End::Little, End::Big] {
        for (a, b) in vcore::sjis::collation_inversions() {
            for swap in [false, true] {
                let (x, y) = if swap { (b.clone(), a.clone()) } else { (a.clone(), b.clone()) };
                let mut c = Content::new(e);
                c.data = vec![0; 8];
                c.labels.insert(0, vec![format!("MPID_{}", x)]);
                c.labels.insert(4, vec![format!("MPID_{}", y)]);
                c.labels.insert(8, vec![x.clone()]);
                c.strings.insert(0, y.clone());
                v.push(c);
            }
        }
    }
    v
}

/// DENSE sweeps (every value, not a ladder): a string / c-string / label of every encoded
/// length 0..=max_len (ASCII, and two-byte characters with an optional ASCII shift), and raw
/// data of every length 0..=max_data with annotations on the first and last cell and the end.
/// EVERY string length from 301 up to `max` bytes (one content per length; two-byte characters
/// at even offsets for even lengths, behind a one-byte head for odd ones; the roles and byte
/// orders rotate): block sizes of a reader or writer (64, 512, 1536, 4096 bytes) are all crossed
/// at both parities.
pub fn long_string_family(max: usize) -> Vec<Content> {
    let mut v = Vec::new();
    for k in 301..=max {
        let s: String = if k % 2 == 0 { "漢字".chars().cycle().take(k / 2).collect::<String>() } else { "z".to_string() + &"ソ能".chars().cycle().take((k - 1) / 2).collect::<String>() };
        let mut c = Content::new(if k % 4 < 2 { End::Little } else { End::Big });
        c.data = vec![0; 8];
        match (k / 2) % 3 {
            0 => {
                c.strings.insert(0, s.clone());
                c.labels.insert(4, vec!["k".into()]);
            }
            1 => {
                c.cstrings.insert(0, s.clone());
                c.strings.insert(4, "short".into());
            }
            _ => {
                c.labels.insert(0, vec![s.clone()]);
                c.strings.insert(4, "short".into());
            }
        }
        v.push(c);
    }
    v
}

pub fn dense_family(max_len: usize, max_data: usize) -> Vec<Content> {
    let mut v = Vec::new();
    for e in [End::Little, End::Big] {
        for k in 0..=max_len {
            for kind in 0..3 {
                let s: String = match kind {
                    0 => "abcdefghijklmnopqrstuvwxyz0123456789".chars().cycle().take(k).collect(),
                    1 => "漢字".chars().cycle().take(k / 2).collect::<String>() + if k % 2 == 1 { "z" } else { "" },
                    _ => {
                        if k == 0 {
                            continue;
                        }
                        "z".to_string() + &"ソ能".chars().cycle().take((k - 1) / 2).collect::<String>() + if (k - 1) % 2 == 1 { "n" } else { "" }
                    }
                };
                let mut c = Content::new(e);
                c.data = vec![0; 8];
                match k % 3 {
                    0 => {
                        c.strings.insert(0, s.clone());
                        c.labels.insert(4, vec!["k".into(), s.clone()]);
                    }
                    1 => {
                        c.cstrings.insert(0, s.clone());
                        c.strings.insert(4, s.clone());
                    }
                    _ => {
                        c.labels.insert(0, vec![s.clone()]);
                        c.cstrings.insert(4, format!("{}!", s));
                    }
                }
                v.push(c);
            }
        }
        for l in 0..=max_data {
            let mut c = Content::new(e);
            c.data = (0..l).map(|i| (i as u8).wrapping_mul(13).wrapping_add(1)).collect();
            if l >= 4 {
                c.data[0..4].copy_from_slice(&[0; 4]);
                c.strings.insert(0, "first".into());
            }
            if l >= 8 {
                let a = (l / 4 - 1) * 4;
                c.data[a..a + 4].copy_from_slice(&[0; 4]);
                c.pointers.insert(a, l);
            }
            c.labels.insert(l, vec!["End".into()]);
            if l > 0 {
                c.labels.insert(l - 1, vec!["Last".into()]);
            }
            v.push(c);
        }
    }
    v
}

/// Many label rows with several labels per address in unsorted name order (a parser that
/// re-sorts the table must keep the per-address order): 3..=40 cells × 1..=3 labels.
pub fn many_labels_family() -> Vec<Content> {
    let mut v = Vec::new();
    for e in [End::Little, End::Big] {
        for cells in 3..=40usize {
            for per in 1..=3usize {
                let mut c = Content::new(e);
                c.data = vec![0; 4 * cells];
                for i in 0..cells {
                    // names chosen so that the big-endian (by first name) order differs from address order
                    let names: Vec<String> = (0..per).map(|j| format!("{}{:02}", ["B", "A", "C"][(j + i) % 3], (cells * 7 - i * 3) % 53)).collect();
                    c.labels.insert(4 * i, names);
                }
                v.push(c);
            }
        }
    }
    v
}

/// Pairs of names that collide under common 32-bit string hashes (`vcore::collide`), and pairs
/// in a suffix relation, each as two labels / two strings / two c-strings of one archive.
pub fn pair_family() -> Vec<Content> {
    let mut pairs: Vec<(String, String)> = vcore::collide::pairs().iter().map(|(_, a, b)| (a.clone(), b.clone())).collect();
    pairs.extend(vcore::sjis::suffix_pairs());
    pairs.extend(vcore::sjis::case_pairs());
    pairs.extend(vcore::sjis::suffix_pairs().into_iter().map(|(a, b)| (b, a)));
    let mut v = Vec::new();
    for e in [End::Little, End::Big] {
        for (a, b) in &pairs {
            let mut c = Content::new(e);
            c.data = vec![0; 16];
            c.strings.insert(0, a.clone());
            c.strings.insert(4, b.clone());
            c.cstrings.insert(8, a.clone());
            c.cstrings.insert(12, b.clone());
            c.labels.insert(0, vec![a.clone()]);
            c.labels.insert(4, vec![b.clone(), format!("{}{}", a, b)]);
            v.push(c.clone());
            // the pair as label names only / as strings only (no sharing between the roles)
            let mut l = Content::new(e);
            l.data = vec![0; 8];
            l.labels.insert(0, vec![b.clone()]);
            l.labels.insert(8, vec![a.clone()]);
            v.push(l);
            let mut s = Content::new(e);
            s.data = vec![0; 8];
            s.strings.insert(0, b.clone());
            s.strings.insert(4, a.clone());
            v.push(s);
        }
    }
    v
}

/// EVERY character of the lossless Shift-JIS domain (7 517) in every string role.
pub fn domain_family() -> Vec<Content> {
    let mut v = Vec::new();
    for e in [End::Little, End::Big] {
        for ch in vcore::sjis::domain() {
            let s = ch.to_string();
            let mut c = Content::new(e);
            c.data = vec![0; 8];
            c.strings.insert(0, format!("{}x", s));
            c.cstrings.insert(4, format!("a{}", s));
            c.labels.insert(0, vec![s.clone()]);
            v.push(c);
        }
    }
    v
}

/// Archives whose total FILE size is one whose little- and big-endian 32-bit encodings
/// coincide (0x00010100 = 65 792 and twice that): a reader that guesses the byte order from the
/// size word cannot tell. Also the sizes next to it.
pub fn palindromic_size_family() -> Vec<Content> {
    let mut v = Vec::new();
    for e in [End::Little, End::Big] {
        for total in [0x10100usize - 4, 0x10100, 0x10100 + 4, 0x20200] {
            // file = 0x20 header + data + 4 (one pointer) + 8 (one label) + text ("L\0" + "s\0" = 4)
            let data = total - 0x20 - 4 - 8 - 4;
            let mut c = Content::new(e);
            c.data = (0..data).map(|i| (i as u8).wrapping_mul(31).wrapping_add(7)).collect();
            c.data[0..4].copy_from_slice(&[0; 4]);
            c.strings.insert(0, "s".into());
            c.labels.insert(4, vec!["L".into()]);
            v.push(c);
        }
    }
    v
}
