//! Input families shared by C08 / C09 / C10 (DESIGN §4 C08/C09).

use vcore::driver::Tier;

/// Deterministic byte sequence in which no 3-byte substring occurs twice (greedy
/// construction, verified while building). Used as incompressible filler.
pub fn norepeat(len: usize, salt: u32) -> Vec<u8> {
    let mut seen = std::collections::HashSet::new();
    let mut s: Vec<u8> = Vec::with_capacity(len);
    let mut x: u32 = 0x9E3779B9 ^ salt.wrapping_mul(0x85EBCA6B);
    while s.len() < len {
        x = x.wrapping_mul(1664525).wrapping_add(1013904223);
        let start = (x >> 24) as u8;
        let n = s.len();
        let mut placed = false;
        for k in 0..=255u8 {
            let b = start.wrapping_add(k);
            if n >= 2 {
                let tri = (s[n - 2], s[n - 1], b);
                if seen.contains(&tri) {
                    continue;
                }
                seen.insert(tri);
            }
            s.push(b);
            placed = true;
            break;
        }
        assert!(placed, "norepeat: ran out of trigrams");
    }
    s
}

#[derive(Clone, Debug)]
pub struct LzInput {
    pub family: &'static str,
    pub desc: String,
    pub data: Vec<u8>,
}

/// Family 1: all strings over `0..k` of length 0..=n  (index → string, odometer order)
pub fn small_alphabet_count(k: usize, n: usize) -> u64 {
    (0..=n).map(|l| (k as u64).pow(l as u32)).sum()
}
pub fn small_alphabet_nth(k: usize, n: usize, mut idx: u64) -> Vec<u8> {
    let mut len = 0usize;
    loop {
        let c = (k as u64).pow(len as u32);
        if idx < c {
            break;
        }
        idx -= c;
        len += 1;
        assert!(len <= n);
    }
    let mut v = vec![0u8; len];
    for i in (0..len).rev() {
        v[i] = (idx % k as u64) as u8;
        idx /= k as u64;
    }
    v
}

pub fn small_alphabet_bounds(tier: Tier) -> Vec<(usize, usize)> {
    match tier {
        Tier::Quick => vec![(2, 17), (3, 11), (4, 8)],
        Tier::Thorough => vec![(2, 21), (3, 13), (4, 10)],
    }
}

/// Family 2: prefix ‖ filler[0..d] ‖ copy(m bytes from displacement d, overlapping allowed) ‖ tail(t fresh bytes)
pub fn structure_grid(tier: Tier) -> Vec<LzInput> {
    let filler = norepeat(4200 + 64, 1);
    let tailsrc = norepeat(64, 2);
    let mut out = Vec::new();
    let small_d: Vec<usize> = (2..=20).collect();
    let large_d: Vec<usize> = (4090..=4100).collect();
    let m_all: Vec<usize> = (1..=20).chain(270..=275).chain(4090..=4100).collect();
    let (m_small_d, t_small_d, m_large_d, t_large_d, prefixes): (Vec<usize>, Vec<usize>, Vec<usize>, Vec<usize>, Vec<usize>) = match tier {
        Tier::Quick => (
            m_all.clone(),
            vec![0, 1, 2, 5, 9],
            vec![2, 3, 18, 19, 273, 4096, 4097],
            vec![0, 3],
            vec![0],
        ),
        Tier::Thorough => (m_all.clone(), (0..=9).collect(), m_all.clone(), (0..=9).collect(), vec![0, 3]),
    };
    let mut push = |p: usize, d: usize, m: usize, t: usize| {
        let mut data: Vec<u8> = Vec::with_capacity(p + d + m + t);
        // prefix: bytes not occurring as trigram partners (fresh region of tailsrc, reversed)
        data.extend(tailsrc[32..32 + p].iter().map(|b| b ^ 0xFF));
        data.extend_from_slice(&filler[..d]);
        for _ in 0..m {
            let src = data.len() - d;
            let b = data[src];
            data.push(b);
        }
        data.extend_from_slice(&tailsrc[..t]);
        out.push(LzInput { family: "grid", desc: format!("p={} d={} m={} t={}", p, d, m, t), data });
    };
    for &p in &prefixes {
        for &d in &small_d {
            for &m in &m_small_d {
                for &t in &t_small_d {
                    push(p, d, m, t);
                }
            }
        }
        for &d in &large_d {
            for &m in &m_large_d {
                for &t in &t_large_d {
                    push(p, d, m, t);
                }
            }
        }
    }
    out
}

/// Family 3: header boundary lengths, all-zero and two-symbol content.
pub fn header_boundaries(tier: Tier) -> Vec<LzInput> {
    let mut lens: Vec<usize> = vec![0, 1, 2, 3, 8, 9, 0xFF, 0x100, 0xFFFF, 0x10000];
    if tier == Tier::Thorough {
        lens.push(0xFF_FFFF);
    }
    let mut out = Vec::new();
    for &n in &lens {
        out.push(LzInput { family: "header", desc: format!("zeros n={}", n), data: vec![0u8; n] });
        if n >= 2 && n <= 0x10000 {
            let v: Vec<u8> = (0..n).map(|i| if (i / 3) % 2 == 0 { 0xAA } else { 0x55 }).collect();
            out.push(LzInput { family: "header", desc: format!("two-symbol n={}", n), data: v });
        }
    }
    out
}

/// Classes measured over emitted references (vacuity guard).
pub fn disp_class(d: usize) -> &'static str {
    match d {
        1 => "disp=1",
        2 => "disp=2",
        3..=16 => "disp=3..16",
        17..=4094 => "disp=17..4094",
        4095 => "disp=4095",
        4096 => "disp=4096",
        _ => "disp>4096",
    }
}

// ------------------------------------------------------------------------------------
// Recipes: large inputs described by a short string, so that a violation on a multi-megabyte
// input has a replayable artefact (the recipe) instead of a truncated hex dump.
//   segments joined by '+':  zeros:n | fill:b:n | period:k:base:n | two:n | counter16:n |
//                            noise:n:salt | blank:p:n | index:p:n | ramp:n

pub fn build_recipe(r: &str) -> Vec<u8> {
    let mut out: Vec<u8> = Vec::new();
    for seg in r.split('+') {
        let f: Vec<&str> = seg.split(':').collect();
        let num = |i: usize| -> usize { f.get(i).and_then(|s| s.parse().ok()).unwrap_or(0) };
        match f[0] {
            "zeros" => out.extend(std::iter::repeat(0u8).take(num(1))),
            "fill" => out.extend(std::iter::repeat(num(1) as u8).take(num(2))),
            "period" => {
                let (k, base, n) = (num(1).max(1), num(2), num(3));
                out.extend((0..n).map(|i| ((i % k) + base) as u8));
            }
            "two" => out.extend((0..num(1)).map(|i| if (i / 3) % 2 == 0 { 0xAAu8 } else { 0x55 })),
            // little-endian 16-bit counter: no 3-byte substring repeats within 128 KiB
            "counter16" => out.extend((0..num(1)).map(|i| if i % 2 == 0 { ((i / 2) & 0xFF) as u8 } else { ((i / 2) >> 8) as u8 })),
            "noise" => {
                let mut x: u64 = 0x9E37_79B9_7F4A_7C15 ^ (num(2) as u64).wrapping_mul(0xD6E8_FEB8_6659_FD93);
                for _ in 0..num(1) {
                    x ^= x << 13;
                    x ^= x >> 7;
                    x ^= x << 17;
                    out.push((x >> 32) as u8);
                }
            }
            // records of p bytes: a 4-byte tag, the rest blank
            "blank" => {
                let (p, n) = (num(1).max(1), num(2));
                out.extend((0..n).map(|i| if i % p < 4 { (i % p) as u8 + 1 } else { 0 }));
            }
            "index" => {
                let (p, n) = (num(1).max(1), num(2));
                out.extend((0..n).map(|i| (i % p) as u8));
            }
            "ramp" => out.extend((0..num(1)).map(|i| i as u8)),
            other => panic!("unknown recipe segment {}", other),
        }
    }
    out
}

pub fn recipe_input(r: String) -> LzInput {
    LzInput { family: "recipe", data: build_recipe(&r), desc: r }
}

/// Large inputs (always described by a recipe). `lz13` selects the codec-specific extras.
pub fn big_inputs(tier: Tier, lz13: bool) -> Vec<LzInput> {
    let mut r: Vec<String> = Vec::new();
    // sizes around 2^20, 2^21 and 2^23 (a limit written with a digit too few, a size read as a
    // signed 24-bit value ...)
    for n in [0xF_FFFFusize, 0x10_0000, 0x10_0001, 0x20_0000, 0x7F_FFFF, 0x80_0000, 0x80_0001] {
        r.push(format!("zeros:{}", n));
        r.push(format!("period:3:0:{}", n));
    }
    // single repeats longer than the largest LZ11 length (65 808)
    for n in [65_810usize, 65_811, 70_000, 140_000] {
        r.push(format!("zeros:{}", n));
        r.push(format!("ramp:40+period:4:200:{}", n - 40));
    }
    // long runs of literals (no 3-byte repeat inside the window), odd and even lengths
    for n in [3_001usize, 10_001, 65_537, 106_001, 106_002, 200_001] {
        r.push(format!("counter16:{}", n));
    }
    // poorly compressible data followed by a long repeat, and the reverse
    for (a, b) in [(1_000usize, 5_000usize), (70_000, 20_000), (80_000, 9_000)] {
        r.push(format!("noise:{}:1+zeros:{}", a, b));
        r.push(format!("zeros:{}+noise:{}:2", b, a));
    }
    // just below 16 MiB with a noisy tail (every size field still fits 24 bits)
    r.push("zeros:16769000+noise:8000:5".to_string());
    if tier == Tier::Thorough {
        r.push(format!("zeros:{}", 0xFF_FFFF));
        r.push(format!("period:3:0:{}", 0xFF_FFFF));
        r.push("noise:300000:9+zeros:300000".to_string());
    }
    let _ = lz13;
    r.into_iter().map(recipe_input).collect()
}

/// `Some(bytes)` if `r` is a well-formed recipe
pub fn build_recipe_checked(r: &str) -> Option<Vec<u8>> {
    let known = ["zeros", "fill", "period", "two", "counter16", "noise", "blank", "index", "ramp"];
    if r.is_empty() || !r.split('+').all(|seg| known.contains(&seg.split(':').next().unwrap_or(""))) {
        return None;
    }
    Some(build_recipe(r))
}

/// DENSE length sweep of highly repetitive inputs: every length 0..=max of an all-zero run, a
/// period-2 and a period-3 run after a 30-byte ramp — every residue of the repeat length
/// modulo the LZ10 (18) and LZ11 (4096) reference limits occurs, in particular k·4096+1 / +2.
pub fn dense_runs(tier: Tier) -> Vec<LzInput> {
    let max = match tier {
        Tier::Quick => 8_300usize,
        Tier::Thorough => 20_600,
    };
    let mut v = Vec::with_capacity(3 * (max + 1));
    for n in 0..=max {
        v.push(recipe_input(format!("zeros:{}", n)));
        v.push(recipe_input(format!("period:2:65:{}", n)));
        v.push(recipe_input(format!("ramp:30+period:3:0:{}", n)));
    }
    v
}

/// DENSE displacement sweep for the compressors: d non-repeating bytes, then a copy of the first m
/// of them (the only match available lies exactly d bytes back), then t fresh bytes — for EVERY
/// d in 1..=4200. A displacement encoded wrongly for one residue class (d = 256k, 256k+1, ...)
/// is a point of this family; beyond 4096 the copy must come out as literals.
pub fn dense_displacements(tier: Tier) -> Vec<LzInput> {
    let filler = norepeat(4200 + 300, 9);
    let tail = [0xF1u8, 0xF3, 0xF5];
    let ms: Vec<usize> = match tier {
        Tier::Quick => vec![16],
        Tier::Thorough => vec![3, 16, 19, 273],
    };
    let mut v = Vec::new();
    for d in 1..=4200usize {
        for &m in &ms {
            let mut data = filler[..d].to_vec();
            for _ in 0..m {
                let b = data[data.len() - d];
                data.push(b);
            }
            data.extend_from_slice(&tail[..2]);
            v.push(LzInput { family: "dense-disp", desc: format!("d={} m={} t=2", d, m), data });
        }
    }
    v
}

/// NEAR-repeats: a block, then the same block with exactly ONE byte changed, for every position
/// of the change and block lengths around the formats' match limits — a match measured by
/// anything coarser than byte-by-byte comparison (words, a fingerprint of head and tail) accepts
/// the changed block as a full match and emits a reference to the wrong bytes.
pub fn near_repeats() -> Vec<LzInput> {
    let filler = norepeat(700, 21);
    let mut v = Vec::new();
    for len in (3usize..=20).chain([32, 33, 64, 272, 273, 300]) {
        let positions: Vec<usize> = if len <= 33 { (0..len).collect() } else { vec![0, 1, 7, 8, 9, 15, 16, 17, 31, 32, len / 2, len - 2, len - 1] };
        for pos in positions {
            for gap in [0usize, 5] {
                let block = &filler[100..100 + len];
                let mut changed = block.to_vec();
                changed[pos] ^= 0x5A;
                let mut data = filler[..9].to_vec();
                data.extend_from_slice(block);
                data.extend_from_slice(&filler[500..500 + gap]);
                data.extend_from_slice(&changed);
                data.extend_from_slice(&filler[600..604]);
                // and once more the original, so that a true full match exists as well
                data.extend_from_slice(block);
                v.push(LzInput { family: "near-repeat", desc: format!("block of {} bytes, then the block with byte {} changed (gap {}), then the block", len, pos, gap), data });
            }
        }
    }
    v
}

/// CLOSURE under the codecs: inputs that are themselves well-formed compressed files (LZ10, bare
/// LZ11, LZ11 behind the 0x13 wrapper, the type-0 stored form) of small and medium data, written
/// by the reference encoder — a compressor that "recognises" compressed input, or a decompressor
/// that keeps unpacking, treats them differently from any other bytes.
pub fn codec_closure() -> Vec<LzInput> {
    use vcore::ref_lz::{self, Kind, Token};
    let mut v = Vec::new();
    let datas: Vec<Vec<u8>> = vec![vec![], vec![0x41], b"abcabcabcabcabc".to_vec(), norepeat(40, 5), vec![0u8; 300], (0..5000u32).map(|i| (i % 7) as u8).collect()];
    for (k, d) in datas.iter().enumerate() {
        // tokens: greedy run-length style so that references occur
        let mut toks: Vec<Token> = Vec::new();
        let mut i = 0usize;
        while i < d.len() {
            let mut best = (0usize, 0usize);
            for disp in 1..=i.min(64) {
                let mut l = 0usize;
                while i + l < d.len() && l < 18 && d[i + l - disp] == d[i + l] {
                    l += 1;
                }
                if l > best.0 {
                    best = (l, disp);
                }
            }
            if best.0 >= 3 {
                toks.push(Token::Ref { len: best.0, disp: best.1 });
                i += best.0;
            } else {
                toks.push(Token::Lit(d[i]));
                i += 1;
            }
        }
        let lz10 = ref_lz::encode(&toks, Kind::Lz10, d.len(), None);
        let lz11 = ref_lz::encode(&toks, Kind::Lz11, d.len(), None);
        let mut wrapped = vec![0x13, lz11.len() as u8, (lz11.len() >> 8) as u8, (lz11.len() >> 16) as u8];
        wrapped.extend_from_slice(&lz11);
        let mut stored = vec![0u8, d.len() as u8, (d.len() >> 8) as u8, (d.len() >> 16) as u8];
        stored.extend_from_slice(d);
        for (name, bytes) in [("lz10", lz10), ("lz11", lz11), ("lz13-wrapped", wrapped.clone()), ("stored", stored)] {
            v.push(LzInput { family: "closure", desc: format!("a well-formed {} file of data #{} ({} bytes) as input", name, k, d.len()), data: bytes });
        }
        // twice wrapped
        let mut twice = vec![0x13, wrapped.len() as u8, (wrapped.len() >> 8) as u8, (wrapped.len() >> 16) as u8];
        twice.extend_from_slice(&wrapped);
        v.push(LzInput { family: "closure", desc: format!("a wrapper around a wrapped file of data #{}", k), data: twice });
    }
    v
}

/// "Twin blocks": two blocks that differ in exactly two adjacent bytes chosen so that the blocks
/// have the SAME polynomial fingerprint h = h*M + byte for a common multiplier M (31: "Aa"/"BB",
/// 33, 37, 131) — a match finder that trusts a fingerprint without comparing bytes emits a
/// reference to the wrong block. Also same-sum twins (additive checksums). The twin sits inside
/// the window; block lengths cover the LZ10 and LZ11 maximum match lengths.
pub fn twin_blocks() -> Vec<LzInput> {
    let mut v = Vec::new();
    let filler = norepeat(5000, 77);
    for m in [31u32, 33, 37, 131, 0] {
        // (a, b) and (a+1, b-m) have equal a*m+b; m = 0 stands for the additive twin (a, b) / (a+1, b-1)
        let (a, b) = (0x41u8, 0x20u8.wrapping_add(if m == 0 { 1 } else { m as u8 }));
        let (c, d) = (a + 1, if m == 0 { b - 1 } else { b - m as u8 });
        for len in [18usize, 19, 32, 273, 4096] {
            for pos in [0usize, len / 2, len - 2] {
                for gap in [0usize, 40] {
                    let mut block: Vec<u8> = filler[100..100 + len].to_vec();
                    block[pos] = a;
                    block[pos + 1] = b;
                    let mut twin = block.clone();
                    twin[pos] = c;
                    twin[pos + 1] = d;
                    let mut data = filler[..7].to_vec();
                    data.extend(&block);
                    data.extend(&filler[4000..4000 + gap]);
                    data.extend(&twin);
                    data.extend(&filler[4100..4110]);
                    data.extend(&block);
                    v.push(LzInput { family: "twin", desc: format!("twin blocks m={} len={} pos={} gap={}", m, len, pos, gap), data });
                }
            }
        }
    }
    v
}
