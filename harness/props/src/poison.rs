//! A fixed series of FAILING (and a few odd but possibly succeeding) calls into mila on the
//! current thread: failing parses, failing serializations, strings with dangling lead bytes. Run before a
//! representative case, it exposes state carried from one call to the next (a scratch
//! buffer that is only cleared on the success path, a cache keyed too coarsely, ...).

use mila::{arc, bch, cgfx, ctpk, fe9_arc, tpl::Tpl, BinArchive, Endian, LZ10CompressionFormat, LZ13CompressionFormat, TextArchive, TextArchiveFormat};
use vcore::ref_bin::{self, Content, End};

fn image(e: End) -> Vec<u8> {
    let mut c = Content::new(e);
    c.data = vec![0; 8];
    c.strings.insert(0, "poison-string".into());
    c.labels.insert(4, vec!["PoisonLabel".into()]);
    ref_bin::write_canonical(&c)
}

/// Every call here is expected to return Err (or at least to be harmless); results are ignored.
pub fn failing_calls() {
    let _ = vcore::util::catch(|| {
        for (e, me) in [(End::Little, Endian::Little), (End::Big, Endian::Big)] {
            let img = image(e);
            for cut in [img.len() - 1, img.len() - 2, img.len() - 13, 0x21, 0x1F] {
                let _ = BinArchive::from_bytes(&img[..cut.min(img.len())], me);
                let _ = TextArchive::from_bytes(&img[..cut.min(img.len())], TextArchiveFormat::ShiftJIS, me);
                let _ = TextArchive::from_bytes(&img[..cut.min(img.len())], TextArchiveFormat::Unicode, me);
            }
            // a text archive whose last UTF-16 message lost its terminator
            let mut t = TextArchive::new(TextArchiveFormat::Unicode, me);
            t.set_title("poison".into());
            t.set_message("K", "poison message");
            if let Ok(b) = t.serialize() {
                let mut b2 = b.clone();
                // overwrite the terminator + padding of the message with non-zero units
                let n = b2.len();
                if n > 0x40 {
                    let d = u32::from_le_bytes([b[4], b[5], b[6], b[7]]) as usize;
                    let d = if d < n { d } else { u32::from_be_bytes([b[4], b[5], b[6], b[7]]) as usize };
                    if 0x20 + d <= n && d >= 4 {
                        for x in &mut b2[0x20 + d - 4..0x20 + d] {
                            *x = 0x41;
                        }
                    }
                }
                let _ = TextArchive::from_bytes(&b2, TextArchiveFormat::Unicode, me);
            }
        }
        let img = image(End::Little);
        let _ = arc::from_bytes(&img[..img.len() - 1]);
        let _ = arc::from_bytes(&img);
        let _ = fe9_arc::parse(b"pack\x00\x02\x00\x00\x00\x00\x00\x00\x00\x00\x00\x28\x00\x00\x00\x40\x00\x00\x00\x05");
        let _ = fe9_arc::parse(b"pack\x00\x01\x00\x00\x00\x00\x00\x00\x00\x00\x00\x18\x00\x00\x00\x20\x00\x00\x00\x00unterminated-name");
        for s in [&[0x10u8, 0x40, 0, 0, 0x00, 1, 2, 3][..], &[0x11, 0x40, 0, 0, 0x80, 0x10][..], &[0x13, 0, 0, 0, 0x11, 9, 0, 0, 0, 1][..], &[0x10, 3, 0, 0, 0x80, 0xF0, 0xFF][..]] {
            let _ = (LZ10CompressionFormat {}).decompress(s);
            let _ = (LZ13CompressionFormat {}).decompress(s);
        }
        let _ = (LZ13CompressionFormat {}).compress(&[]);
        let _ = (LZ10CompressionFormat {}).compress(&[]);
        // calls that may SUCCEED but feed odd data through shared code: strings ending in a
        // dangling Shift-JIS lead byte, a lone trail-range byte, an unassigned two-byte code
        for tail in [&[b'a', 0x83][..], &[0x83], &[0xFA], &[b'b', 0xFC, 0xFC], &[0x81, 0x20], &[0xA0], &[0x80], &[0xFD, 0xFE, 0xFF], &[0xEF, 0xBB, 0xBF, b'x']] {
            let mut pack = b"pack\x00\x01\x00\x00\x00\x00\x00\x00\x00\x00\x00\x18\x00\x00\x00\x40\x00\x00\x00\x01".to_vec();
            pack.extend_from_slice(tail);
            pack.push(0);
            pack.resize(0x41, 0x77);
            let _ = fe9_arc::parse(&pack);
            for (e, me) in [(End::Little, Endian::Little), (End::Big, Endian::Big)] {
                // bin archive: one string cell whose text is `tail`, one label named `tail`
                let mut img: Vec<u8> = Vec::new();
                let w = |v: u32| if e == End::Little { v.to_le_bytes() } else { v.to_be_bytes() };
                let text_len = 2 * (tail.len() + 1);
                let total = 0x20 + 4 + 4 + 8 + text_len;
                img.extend_from_slice(&w(total as u32));
                img.extend_from_slice(&w(4));
                img.extend_from_slice(&w(1));
                img.extend_from_slice(&w(1));
                img.extend_from_slice(&[0; 16]);
                img.extend_from_slice(&w((4 + 4 + 8 + tail.len() + 1) as u32)); // string pointer (relative to 0x20)
                img.extend_from_slice(&w(0)); // pointer table: cell 0
                img.extend_from_slice(&w(0)); // label on address 0
                img.extend_from_slice(&w(0)); // name offset 0
                img.extend_from_slice(tail);
                img.push(0);
                img.extend_from_slice(tail);
                img.push(0);
                let _ = BinArchive::from_bytes(&img, me).map(|a| a.serialize());
                let _ = TextArchive::from_bytes(&img, TextArchiveFormat::ShiftJIS, me);
            }
        }
        // failing SERIALIZE calls: an unencodable text that is not the first text of the archive
        for me in [Endian::Little, Endian::Big] {
            let mut a = BinArchive::new(me);
            a.allocate_at_end(12);
            let _ = a.write_label(0, "poison-ok-label");
            let _ = a.write_string(0, Some("poison-ok-string"));
            let _ = a.write_string(4, Some("poison \u{1F600} unencodable"));
            let _ = a.write_c_string(8, "poison-cstring".to_string());
            let _ = a.serialize();
            let mut b = BinArchive::new(me);
            b.allocate_at_end(8);
            let _ = b.write_c_string(0, "poison-ok-cstring".to_string());
            let _ = b.write_c_string(4, "poison \u{301C}".to_string());
            let _ = b.serialize();
            let mut t = TextArchive::new(TextArchiveFormat::ShiftJIS, me);
            t.set_message("POISON_OK", "fine");
            t.set_message("POISON_BAD", "wave \u{301C} dash");
            let _ = t.serialize();
            let mut t = TextArchive::new(TextArchiveFormat::Unicode, me);
            t.set_title("poison \u{1F600}".into());
            t.set_message("POISON \u{1F600}", "x");
            let _ = t.serialize();
        }
        {
            let mut m: indexmap::IndexMap<String, Vec<u8>> = indexmap::IndexMap::new();
            m.insert("poison-ok.bin".into(), vec![1, 2, 3]);
            m.insert("poison-\u{1F600}.bin".into(), vec![4]);
            let _ = fe9_arc::serialize(&m);
        }
        let junk: Vec<u8> = (0..96u8).map(|i| i.wrapping_mul(37)).collect();
        let _ = ctpk::read(&junk);
        let _ = bch::read(&junk);
        let _ = cgfx::read(&junk);
        let _ = Tpl::extract_textures(&junk);
        let mut b = b"BCH\0".to_vec();
        b.extend_from_slice(&junk);
        let _ = bch::read(&b);
        let mut c = b"CGFX".to_vec();
        c.extend_from_slice(&junk);
        let _ = cgfx::read(&c);
    });
}
