//! A fixed series of FAILING (and a few odd but possibly succeeding) calls into mila on the
//! current thread: failing parses, failing serializations, strings with dangling lead bytes. Run before a
//! representative case, it exposes state carried from one call to the next (a scratch
//! buffer that is only cleared on the success path, a cache keyed too coarsely, ...).

use mila::{arc, bch, cgfx, ctpk, fe9_arc, tpl::Tpl, BinArchive, Endian, LZ10CompressionFormat, LZ13CompressionFormat, TextArchive, TextArchiveFormat};
use vcore::ref_bin::{self, Content, End};

fn image(e: End) -> Vec<u8> {
    let mut c = Content::new(e);
    c.data = vec![0; 8];
    c.strings.insert(0, "poison-string".into());
    c.labels.insert(4, vec!["PoisonLabel".into()]);
    ref_bin::write_canonical(&c)
}

/// The individual calls, in a fixed order. Every one is expected to return Err or at least to
/// be harmless; results are ignored.
pub fn calls() -> Vec<Box<dyn Fn() + Send + Sync>> {
    let mut v: Vec<Box<dyn Fn() + Send + Sync>> = Vec::new();
    for (e, me) in [(End::Little, Endian::Little), (End::Big, Endian::Big)] {
        let img = image(e);
        for cut in [img.len() - 1, img.len() - 2, img.len() - 13, 0x21, 0x1F] {
            let part = img[..cut.min(img.len())].to_vec();
            let p2 = part.clone();
            let p3 = part.clone();
            v.push(Box::new(move || {
                let _ = BinArchive::from_bytes(&part, me);
            }));
            v.push(Box::new(move || {
                let _ = TextArchive::from_bytes(&p2, TextArchiveFormat::ShiftJIS, me);
            }));
            v.push(Box::new(move || {
                let _ = TextArchive::from_bytes(&p3, TextArchiveFormat::Unicode, me);
            }));
        }
        // a text archive whose last UTF-16 message lost its terminator
        v.push(Box::new(move || {
            let mut t = TextArchive::new(TextArchiveFormat::Unicode, me);
            t.set_title("poison".into());
            t.set_message("K", "poison message");
            if let Ok(b) = t.serialize() {
                let mut b2 = b.clone();
                let n = b2.len();
                if n > 0x40 {
                    let d = u32::from_le_bytes([b[4], b[5], b[6], b[7]]) as usize;
                    let d = if d < n { d } else { u32::from_be_bytes([b[4], b[5], b[6], b[7]]) as usize };
                    if 0x20 + d <= n && d >= 4 {
                        for x in &mut b2[0x20 + d - 4..0x20 + d] {
                            *x = 0x41;
                        }
                    }
                }
                let _ = TextArchive::from_bytes(&b2, TextArchiveFormat::Unicode, me);
            }
        }));
    }
    v.push(Box::new(|| {
        let img = image(End::Little);
        let _ = arc::from_bytes(&img[..img.len() - 1]);
    }));
    v.push(Box::new(|| {
        let _ = arc::from_bytes(&image(End::Little));
    }));
    v.push(Box::new(|| {
        let _ = fe9_arc::parse(b"pack\x00\x02\x00\x00\x00\x00\x00\x00\x00\x00\x00\x28\x00\x00\x00\x40\x00\x00\x00\x05");
    }));
    v.push(Box::new(|| {
        let _ = fe9_arc::parse(b"pack\x00\x01\x00\x00\x00\x00\x00\x00\x00\x00\x00\x18\x00\x00\x00\x20\x00\x00\x00\x00unterminated-name");
    }));
    for s in [&[0x10u8, 0x40, 0, 0, 0x00, 1, 2, 3][..], &[0x11, 0x40, 0, 0, 0x80, 0x10][..], &[0x13, 0, 0, 0, 0x11, 9, 0, 0, 0, 1][..], &[0x10, 3, 0, 0, 0x80, 0xF0, 0xFF][..]] {
        let s1 = s.to_vec();
        let s2 = s.to_vec();
        v.push(Box::new(move || {
            let _ = (LZ10CompressionFormat {}).decompress(&s1);
        }));
        v.push(Box::new(move || {
            let _ = (LZ13CompressionFormat {}).decompress(&s2);
        }));
    }
    v.push(Box::new(|| {
        let _ = (LZ13CompressionFormat {}).compress(&[]);
    }));
    v.push(Box::new(|| {
        let _ = (LZ10CompressionFormat {}).compress(&[]);
    }));
    // calls that may SUCCEED but feed odd data through shared code: strings ending in a
    // dangling Shift-JIS lead byte, a lone trail-range byte, an unassigned two-byte code
    for tail in [&[b'a', 0x83][..], &[0x83], &[0xFA], &[b'b', 0xFC, 0xFC], &[0x81, 0x20], &[0xA0], &[0x80], &[0xFD, 0xFE, 0xFF], &[0xEF, 0xBB, 0xBF, b'x']] {
        let t1 = tail.to_vec();
        v.push(Box::new(move || {
            let mut pack = b"pack\x00\x01\x00\x00\x00\x00\x00\x00\x00\x00\x00\x18\x00\x00\x00\x40\x00\x00\x00\x01".to_vec();
            pack.extend_from_slice(&t1);
            pack.push(0);
            pack.resize(0x41, 0x77);
            let _ = fe9_arc::parse(&pack);
        }));
        for (e, me) in [(End::Little, Endian::Little), (End::Big, Endian::Big)] {
            let tail = tail.to_vec();
            v.push(Box::new(move || {
                // bin archive: one string cell whose text is `tail`, one label named `tail`
                let mut img: Vec<u8> = Vec::new();
                let w = |x: u32| if e == End::Little { x.to_le_bytes() } else { x.to_be_bytes() };
                let text_len = 2 * (tail.len() + 1);
                let total = 0x20 + 4 + 4 + 8 + text_len;
                img.extend_from_slice(&w(total as u32));
                img.extend_from_slice(&w(4));
                img.extend_from_slice(&w(1));
                img.extend_from_slice(&w(1));
                img.extend_from_slice(&[0; 16]);
                img.extend_from_slice(&w((4 + 4 + 8 + tail.len() + 1) as u32));
                img.extend_from_slice(&w(0));
                img.extend_from_slice(&w(0));
                img.extend_from_slice(&w(0));
                img.extend_from_slice(&tail);
                img.push(0);
                img.extend_from_slice(&tail);
                img.push(0);
                let _ = BinArchive::from_bytes(&img, me).map(|a| a.serialize());
                let _ = TextArchive::from_bytes(&img, TextArchiveFormat::ShiftJIS, me);
            }));
        }
    }
    // failing SERIALIZE calls: an unencodable text that is not the first text of the archive
    for me in [Endian::Little, Endian::Big] {
        v.push(Box::new(move || {
            let mut a = BinArchive::new(me);
            a.allocate_at_end(12);
            let _ = a.write_label(0, "poison-ok-label");
            let _ = a.write_string(0, Some("poison-ok-string"));
            let _ = a.write_string(4, Some("poison \u{1F600} unencodable"));
            let _ = a.write_c_string(8, "poison-cstring".to_string());
            let _ = a.serialize();
        }));
        v.push(Box::new(move || {
            let mut b = BinArchive::new(me);
            b.allocate_at_end(8);
            let _ = b.write_c_string(0, "poison-ok-cstring".to_string());
            let _ = b.write_c_string(4, "poison \u{301C}".to_string());
            let _ = b.serialize();
        }));
        v.push(Box::new(move || {
            let mut t = TextArchive::new(TextArchiveFormat::ShiftJIS, me);
            t.set_message("POISON_OK", "fine");
            t.set_message("POISON_BAD", "wave \u{301C} dash");
            let _ = t.serialize();
        }));
        v.push(Box::new(move || {
            let mut t = TextArchive::new(TextArchiveFormat::Unicode, me);
            t.set_title("poison \u{1F600}".into());
            t.set_message("POISON \u{1F600}", "x");
            let _ = t.serialize();
        }));
    }
    v.push(Box::new(|| {
        let mut m: indexmap::IndexMap<String, Vec<u8>> = indexmap::IndexMap::new();
        m.insert("poison-ok.bin".into(), vec![1, 2, 3]);
        m.insert("poison-\u{1F600}.bin".into(), vec![4]);
        let _ = fe9_arc::serialize(&m);
    }));
    let junk: Vec<u8> = (0..96u8).map(|i| i.wrapping_mul(37)).collect();
    for k in 0..6 {
        let junk = junk.clone();
        v.push(Box::new(move || {
            let mut b = b"BCH\0".to_vec();
            b.extend_from_slice(&junk);
            let mut c = b"CGFX".to_vec();
            c.extend_from_slice(&junk);
            match k {
                0 => drop(ctpk::read(&junk)),
                1 => drop(bch::read(&junk)),
                2 => drop(cgfx::read(&junk)),
                3 => drop(Tpl::extract_textures(&junk)),
                4 => drop(bch::read(&b)),
                _ => drop(cgfx::read(&c)),
            }
        }));
    }
    v
}

fn the_calls() -> &'static Vec<Box<dyn Fn() + Send + Sync>> {
    static C: std::sync::OnceLock<Vec<Box<dyn Fn() + Send + Sync>>> = std::sync::OnceLock::new();
    C.get_or_init(calls)
}

pub fn count() -> usize {
    the_calls().len()
}

/// ONE call of the series (state that is consumed by the very next operation shows only when
/// that operation is the case under test).
pub fn single_call(i: usize) {
    let c = the_calls();
    let _ = vcore::util::catch(|| (c[i % c.len()])());
}

/// The whole series.
pub fn failing_calls() {
    for i in 0..count() {
        single_call(i);
    }
}
