//! A fixed series of FAILING calls into mila on the current thread. Run before a
//! representative case, it exposes state carried from one call to the next (a scratch
//! buffer that is only cleared on the success path, a cache keyed too coarsely, ...).

use mila::{arc, bch, cgfx, ctpk, fe9_arc, tpl::Tpl, BinArchive, Endian, LZ10CompressionFormat, LZ13CompressionFormat, TextArchive, TextArchiveFormat};
use vcore::ref_bin::{self, Content, End};

fn image(e: End) -> Vec<u8> {
    let mut c = Content::new(e);
    c.data = vec![0; 8];
    c.strings.insert(0, "poison-string".into());
    c.labels.insert(4, vec!["PoisonLabel".into()]);
    ref_bin::write_canonical(&c)
}

/// Every call here is expected to return Err (or at least to be harmless); results are ignored.
pub fn failing_calls() {
    let _ = vcore::util::catch(|| {
        for (e, me) in [(End::Little, Endian::Little), (End::Big, Endian::Big)] {
            let img = image(e);
            for cut in [img.len() - 1, img.len() - 2, img.len() - 13, 0x21, 0x1F] {
                let _ = BinArchive::from_bytes(&img[..cut.min(img.len())], me);
                let _ = TextArchive::from_bytes(&img[..cut.min(img.len())], TextArchiveFormat::ShiftJIS, me);
                let _ = TextArchive::from_bytes(&img[..cut.min(img.len())], TextArchiveFormat::Unicode, me);
            }
            // a text archive whose last UTF-16 message lost its terminator
            let mut t = TextArchive::new(TextArchiveFormat::Unicode, me);
            t.set_title("poison".into());
            t.set_message("K", "poison message");
            if let Ok(b) = t.serialize() {
                let mut b2 = b.clone();
                // overwrite the terminator + padding of the message with non-zero units
                let n = b2.len();
                if n > 0x40 {
                    let d = u32::from_le_bytes([b[4], b[5], b[6], b[7]]) as usize;
                    let d = if d < n { d } else { u32::from_be_bytes([b[4], b[5], b[6], b[7]]) as usize };
                    if 0x20 + d <= n && d >= 4 {
                        for x in &mut b2[0x20 + d - 4..0x20 + d] {
                            *x = 0x41;
                        }
                    }
                }
                let _ = TextArchive::from_bytes(&b2, TextArchiveFormat::Unicode, me);
            }
        }
        let img = image(End::Little);
        let _ = arc::from_bytes(&img[..img.len() - 1]);
        let _ = arc::from_bytes(&img);
        let _ = fe9_arc::parse(b"pack\x00\x02\x00\x00\x00\x00\x00\x00\x00\x00\x00\x28\x00\x00\x00\x40\x00\x00\x00\x05");
        let _ = fe9_arc::parse(b"pack\x00\x01\x00\x00\x00\x00\x00\x00\x00\x00\x00\x18\x00\x00\x00\x20\x00\x00\x00\x00unterminated-name");
        for s in [&[0x10u8, 0x40, 0, 0, 0x00, 1, 2, 3][..], &[0x11, 0x40, 0, 0, 0x80, 0x10][..], &[0x13, 0, 0, 0, 0x11, 9, 0, 0, 0, 1][..], &[0x10, 3, 0, 0, 0x80, 0xF0, 0xFF][..]] {
            let _ = (LZ10CompressionFormat {}).decompress(s);
            let _ = (LZ13CompressionFormat {}).decompress(s);
        }
        let _ = (LZ13CompressionFormat {}).compress(&[]);
        let _ = (LZ10CompressionFormat {}).compress(&[]);
        let junk: Vec<u8> = (0..96u8).map(|i| i.wrapping_mul(37)).collect();
        let _ = ctpk::read(&junk);
        let _ = bch::read(&junk);
        let _ = cgfx::read(&junk);
        let _ = Tpl::extract_textures(&junk);
        let mut b = b"BCH\0".to_vec();
        b.extend_from_slice(&junk);
        let _ = bch::read(&b);
        let mut c = b"CGFX".to_vec();
        c.extend_from_slice(&junk);
        let _ = cgfx::read(&c);
    });
}
