//! C03 — allocate / deallocate / truncate relocate every annotation consistently.
//! The exploration lives in `props::c03sys` (shared with the hooked twin `c03h`).

use props::c03sys::{explore, replay};
use vcore::driver::{BothBuilds, PropDef};

fn main() {
    vcore::run_main(PropDef { id: "C03", level: "model_checking", both_builds: BothBuilds::Always, explore, replay, worker: None })
}
