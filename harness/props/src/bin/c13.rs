//! C13 — see props/src/fsx.rs (shared exploration of the layered filesystem).
use props::fsx::{self, Which};
use serde_json::Value;
use vcore::driver::{BothBuilds, Ctx, Outcome, PropDef, Violation};

fn explore(ctx: &Ctx) -> Outcome {
    fsx::explore(ctx, Which::C13)
}
fn replay(ctx: &Ctx, case: &Value) -> Vec<Violation> {
    fsx::replay(ctx, Which::C13, case)
}
fn main() {
    vcore::run_main(PropDef { id: "C13", level: "model_checking", both_builds: BothBuilds::ThoroughOnly, explore, replay, worker: None })
}
