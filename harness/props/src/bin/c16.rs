//! C16 — 3DS arc extraction returns exactly the packed files. Engine E2, both builds.

use mila::arc;
use rayon::prelude::*;
use serde_json::{json, Value};
use vcore::driver::{BothBuilds, Ctx, Outcome, PropDef, Tier, Violation};
use vcore::ref_pack::{self, ArcLayout, ArcTweak};
use vcore::{util, Tally};

const NAMES: [&str; 3] = ["ArcTest1.bin", "日本.bin.lz", "ﾄｱ"];
const LENS: [usize; 6] = [0, 1, 3, 4, 5, 32];

fn body(i: usize, len: usize) -> Vec<u8> {
    (0..len).map(|k| (0x41 + 0x20 * i as u8).wrapping_add(k as u8)).collect()
}

fn file_sets(tier: Tier) -> Vec<Vec<usize>> {
    // lists of length indices; file i is named NAMES[i]
    let mut v = vec![vec![]];
    for n in 1..=3usize {
        let _ = tier;
        let lens: Vec<usize> = (0..LENS.len()).collect();
        for idx in util::odometer(lens.len(), n) {
            v.push(idx.iter().map(|i| lens[*i]).collect());
        }
    }
    v
}

fn files_of(lens: &[usize]) -> Vec<(String, Vec<u8>)> {
    lens.iter().enumerate().map(|(i, l)| (NAMES[i].to_string(), body(i, LENS[*l]))).collect()
}

fn layout_json(l: &ArcLayout) -> Value {
    json!({"padded": l.padded, "tables_first": l.tables_first, "record_order": l.record_order, "body_order": l.body_order, "info_before_count": l.info_before_count})
}
fn layout_from(v: &Value) -> ArcLayout {
    let arr = |k: &str| v[k].as_array().map(|a| a.iter().map(|x| x.as_u64().unwrap_or(0) as usize).collect()).unwrap_or_default();
    ArcLayout { padded: v["padded"].as_bool().unwrap_or(true), tables_first: v["tables_first"].as_bool().unwrap_or(false), record_order: arr("record_order"), body_order: arr("body_order"), info_before_count: v["info_before_count"].as_bool().unwrap_or(false) }
}

/// conforming image: exact extraction
fn judge_ok(files: &[(String, Vec<u8>)], l: &ArcLayout, t: &mut Tally) -> Option<(String, String)> {
    judge_ok_tw(files, l, &ArcTweak::default(), t)
}

fn judge_ok_tw(files: &[(String, Vec<u8>)], l: &ArcLayout, tw: &ArcTweak, t: &mut Tally) -> Option<(String, String)> {
    let img = ref_pack::build_arc(files, l, tw);
    t.calls += 1;
    match util::catch(|| arc::from_bytes(&img.bytes).map_err(|e| e.to_string())) {
        Err(p) => Some((format!("panic@{}", p.location), format!("from_bytes panicked on a conforming arc: {}", p.message))),
        Ok(Err(e)) => Some((format!("rejected-conforming:{}", if l.padded { "padded" } else { "unpadded" }), format!("from_bytes rejects a conforming arc: {}", e))),
        Ok(Ok(m)) => {
            if m.len() != files.len() {
                return Some(("entry-count".into(), format!("{} entries extracted for {} records", m.len(), files.len())));
            }
            for (name, bytes) in files {
                match m.get(name) {
                    Some(b) if b == bytes => {}
                    Some(b) => return Some((format!("wrong-bytes:{}", if l.padded { "padded" } else { "unpadded" }), format!("entry {:?} holds {} bytes {}, expected {} bytes {}", name, b.len(), util::hex(&b[..b.len().min(8)]), bytes.len(), util::hex(&bytes[..bytes.len().min(8)])))),
                    None => return Some(("missing-entry".into(), format!("no entry named {:?}", name))),
                }
            }
            None
        }
    }
}

#[derive(Clone, Debug)]
struct ErrCase {
    what: &'static str,
    tweak: ArcTweak,
}

fn error_tweaks(nfiles: usize, img: &ref_pack::ArcImage, files: &[(String, Vec<u8>)], l: &ArcLayout) -> Vec<ErrCase> {
    let mut v = vec![
        ErrCase { what: "no-count-label", tweak: ArcTweak { omit_count_label: true, ..Default::default() } },
        ErrCase { what: "no-info-label", tweak: ArcTweak { omit_info_label: true, ..Default::default() } },
    ];
    let base = if img.padded { 0x60usize } else { 0 };
    for slot in 0..nfiles {
        let fi = l.record_order[slot];
        v.push(ErrCase { what: "nameless-record", tweak: ArcTweak { nameless_record: Some(slot), ..Default::default() } });
        for k in 0..3u8 {
            v.push(ErrCase { what: "nameless-record-data-pointer", tweak: ArcTweak { nameless_pointer: Some((slot, k)), ..Default::default() } });
        }
        let len = files[fi].1.len();
        let addr = img.body_addr[fi];
        // size pushed past the end of the data region
        for k in [1usize, 4] {
            let size = (img.data_size - addr + k) as u32;
            v.push(ErrCase { what: "size-past-end", tweak: ArcTweak { size_override: Some((slot, size)), ..Default::default() } });
        }
        v.push(ErrCase { what: "size-huge", tweak: ArcTweak { size_override: Some((slot, 0xFFFF_FFFF)), ..Default::default() } });
        if len > 0 {
            // offset pushed past the end (only meaningful for non-empty files)
            for k in [1usize, 4] {
                let off = (img.data_size - base - len + k) as u32;
                v.push(ErrCase { what: "offset-past-end", tweak: ArcTweak { offset_override: Some((slot, off)), ..Default::default() } });
            }
            // offset that wraps a 32-bit sum with the header size
            for k in [0u32, 1, 4] {
                let off = 0u32.wrapping_sub(0x60).wrapping_add(k);
                v.push(ErrCase { what: "offset-wraps-u32", tweak: ArcTweak { offset_override: Some((slot, off)), ..Default::default() } });
            }
            v.push(ErrCase { what: "offset-huge", tweak: ArcTweak { offset_override: Some((slot, 0xFFFF_FFF0)), ..Default::default() } });
        }
    }
    v
}

fn judge_err(files: &[(String, Vec<u8>)], l: &ArcLayout, ec: &ErrCase, t: &mut Tally) -> Option<(String, String)> {
    let img = ref_pack::build_arc(files, l, &ec.tweak);
    t.calls += 1;
    match util::catch(|| arc::from_bytes(&img.bytes).map_err(|e| e.to_string())) {
        Err(p) => Some((format!("panic@{}:{}", p.location, ec.what), format!("from_bytes panicked on an arc with {}: {}", ec.what, p.message))),
        Ok(Err(_)) => {
            t.class(&format!("err:{}", ec.what));
            None
        }
        Ok(Ok(m)) => Some((format!("accepted:{}", ec.what), format!("from_bytes returned Ok({} entries) for an arc with {} ({:?})", m.len(), ec.what, ec.tweak))),
    }
}

fn scale_sets() -> Vec<(String, Vec<(String, Vec<u8>)>)> {
    let mut v = Vec::new();
    for n in util::ladder(4097) {
        v.push((format!("{} files", n), (0..n).map(|i| (format!("file{:04}.bin", i), body(i % 5, i % 7))).collect()));
    }
    for n in util::ladder(70_001).into_iter().chain([70_001]) {
        v.push((format!("bodies of {} bytes", n), vec![("a.bin".to_string(), body(0, n)), ("日本.bin".to_string(), body(1, 2)), ("c.bin".to_string(), body(2, n + 3))]));
    }
    v
}

/// conforming variations the plain family does not contain: retail-style extra labels (a
/// "Data" label on the body block, every record labelled with its file name), bodies shared by
/// records with equal contents (also large ones), names from the tricky catalogue (a file
/// called "Data" included), DENSE sweeps of file count / body length / name length
fn variation_cases(tier: Tier) -> Vec<(String, Vec<(String, Vec<u8>)>, ArcLayout, ArcTweak)> {
    let mut v = Vec::new();
    let lay = |n: usize, padded: bool, rev: bool| {
        let ident: Vec<usize> = (0..n).collect();
        ArcLayout { padded, tables_first: !padded, record_order: if rev { ident.iter().rev().cloned().collect() } else { ident.clone() }, body_order: ident, info_before_count: rev }
    };
    let tweaks = |share: bool| -> Vec<ArcTweak> {
        let mut t = Vec::new();
        for label_records in 0..3u8 {
            for data_label in [false, true] {
                t.push(ArcTweak { label_records, data_label, share_equal_bodies: share, ..Default::default() });
            }
        }
        t
    };
    let tricky = vcore::sjis::tricky_strings();
    for (i, s) in tricky.iter().enumerate() {
        let other = &tricky[(i + 1) % tricky.len()];
        let mut files = vec![(s.clone(), body(0, 5)), (format!("{}.bin", s), body(1, 33))];
        if other != s && *other != format!("{}.bin", s) {
            files.push((other.clone(), body(2, 0)));
        }
        for (k, tw) in tweaks(false).into_iter().enumerate() {
            if i % 6 == k || s == "Data" || s == "Count" || s == "Info" {
                v.push((format!("tricky name #{} tweak {}", i, k), files.clone(), lay(files.len(), k % 2 == 0, i % 2 == 0), tw));
            }
        }
    }
    let mut pairs: Vec<(String, String)> = vcore::collide::pairs().iter().map(|(_, a, b)| (a.clone(), b.clone())).collect();
    pairs.extend(vcore::sjis::suffix_pairs());
    pairs.extend(vcore::sjis::case_pairs());
    for (i, (a, b)) in pairs.iter().enumerate() {
        if a.is_empty() || b.is_empty() {
            continue;
        }
        let files = vec![(a.clone(), body(0, 5)), (b.clone(), body(1, 33)), (format!("{}{}", a, b), body(2, 1))];
        for (k, tw) in tweaks(false).into_iter().enumerate() {
            if k % 2 == i % 2 {
                v.push((format!("name pair #{} tweak {}", i, k), files.clone(), lay(3, k % 4 < 2, i % 2 == 0), tw));
            }
        }
    }
    for (i, chunk) in vcore::sjis::domain().chunks(40).enumerate() {
        let files: Vec<(String, Vec<u8>)> = chunk.iter().enumerate().map(|(k, ch)| (format!("{}{}x", ch, k), body(k % 5, k % 4))).collect();
        v.push((format!("domain characters #{}", i), files.clone(), lay(files.len(), i % 2 == 0, false), ArcTweak { label_records: (i % 3) as u8, ..Default::default() }));
    }
    // every order of the label table (labels of one address need not be adjacent) and the
    // tail-shared text section, for two retail-style images
    {
        let files: Vec<(String, Vec<u8>)> = vec![("unit_model.bin".into(), body(0, 5)), ("model.bin".into(), body(1, 9))];
        for label_records in 1..3u8 {
            for padded in [true, false] {
                for k in 0..60usize {
                    v.push((format!("label table permutation {} (records labelled {}, padded {})", k, label_records, padded), files.clone(), lay(2, padded, false), ArcTweak { label_records, label_table_perm: k, tail_shared_text: k % 2 == 0, ..Default::default() }));
                }
            }
        }
        for (i, (a, b)) in vcore::sjis::suffix_pairs().into_iter().enumerate() {
            if a.is_empty() || b.is_empty() {
                continue;
            }
            let files: Vec<(String, Vec<u8>)> = vec![(a.clone(), body(0, 3)), (b.clone(), body(1, 4)), ("other".into(), body(2, 0))];
            for padded in [true, false] {
                v.push((format!("tail-shared names #{}", i), files.clone(), lay(3, padded, i % 2 == 0), ArcTweak { tail_shared_text: true, label_records: (i % 3) as u8, ..Default::default() }));
            }
        }
    }
    // the index column is not constrained by the layout: sparse, descending from 0xFFFFFFFF, constant
    for style in 1..=3u8 {
        for n in 1..=4usize {
            for padded in [true, false] {
                let files: Vec<(String, Vec<u8>)> = (0..n).map(|i| (format!("f{}.bin", i), body(i, 3 + i))).collect();
                v.push((format!("index column style {} with {} files", style, n), files, lay(n, padded, n % 2 == 0), ArcTweak { index_style: style, ..Default::default() }));
            }
        }
    }
    // shared bodies: 2..=4 names for one body of 0..=400 bytes (every length at the thorough tier)
    let lens: Vec<usize> = tier.pick(vec![0, 1, 4, 26, 27, 36, 37, 74, 75, 100, 132, 133, 200, 300, 400, 4096, 70_000], (0..=400).chain([4096, 70_000]).collect());
    for k in 2..=4usize {
        for &len in &lens {
            for padded in [true, false] {
                let mut files: Vec<(String, Vec<u8>)> = (0..k).map(|i| (format!("same{}.bin", i), body(0, len))).collect();
                files.push(("different.bin".into(), body(3, 7)));
                v.push((format!("{} names sharing one {}-byte body", k, len), files.clone(), lay(k + 1, padded, false), ArcTweak { share_equal_bodies: true, ..Default::default() }));
                v.push((format!("{} names sharing one {}-byte body, labelled records", k, len), files, lay(k + 1, padded, true), ArcTweak { share_equal_bodies: true, label_records: 1, data_label: true, ..Default::default() }));
            }
        }
    }
    let (counts, blen, nlen) = tier.pick((300usize, 200usize, 1700usize), (1200, 700, 4400));
    for n in 0..=counts {
        v.push((format!("{} files", n), (0..n).map(|i| (format!("f{}", i), body(i % 5, (i * 7) % 6))).collect(), lay(n, n % 2 == 0, n % 3 == 0), ArcTweak { label_records: (n % 3) as u8, data_label: n % 2 == 1, ..Default::default() }));
    }
    for l in 0..=blen {
        v.push((format!("bodies of {} and {} bytes", l, blen - l), vec![("a".to_string(), body(0, l)), ("b".to_string(), body(1, blen - l)), ("c".to_string(), body(2, 1))], lay(3, l % 2 == 0, false), ArcTweak::default()));
    }
    for l in 1..=nlen {
        let n1: String = "abcdefghij".chars().cycle().take(l).collect();
        let n2: String = (if l % 2 == 1 { "z" } else { "" }).to_string() + &"名前".chars().cycle().take(l / 2).collect::<String>() + "ｶ"; // two-byte lead bytes at odd AND even offsets
        v.push((format!("names of {} bytes", l), vec![(n1, body(0, 3)), (n2, body(1, 40))], lay(2, l % 2 == 0, true), ArcTweak { label_records: (l % 3) as u8, ..Default::default() }));
    }
    v
}

fn explore(ctx: &Ctx) -> Outcome {
    let sets = file_sets(ctx.tier);
    let total = sets
        .par_iter()
        .fold(Tally::new, |mut t, lens| {
            let files = files_of(lens);
            for l in ref_pack::arc_layouts(files.len()) {
                t.cases += 1;
                if !files.is_empty() {
                    t.nontrivial += 1;
                }
                if let Some((sig, summary)) = judge_ok(&files, &l, &mut t) {
                    t.violate(sig, summary, json!({"lens": lens, "layout": layout_json(&l)}));
                    continue;
                }
                // error family on a reduced set of layouts (record/body order identity or reversed)
                let ident: Vec<usize> = (0..files.len()).collect();
                let rev: Vec<usize> = ident.iter().rev().cloned().collect();
                if (l.record_order == ident || l.record_order == rev) && l.body_order == ident {
                    let img = ref_pack::build_arc(&files, &l, &ArcTweak::default());
                    for (ei, ec) in error_tweaks(files.len(), &img, &files, &l).iter().enumerate() {
                        t.cases += 1;
                        t.nontrivial += 1;
                        if let Some((sig, summary)) = judge_err(&files, &l, ec, &mut t) {
                            t.violate(sig, summary, json!({"lens": lens, "layout": layout_json(&l), "error_case": ei}));
                        }
                    }
                }
            }
            t
        })
        .reduce(Tally::new, Tally::merge);
    let mut total = total;
    // call histories: a failing parse (every truncation of the image, which includes
    // unterminated strings and short tables) followed by a good parse on the same thread
    {
        let files = files_of(&[2, 0, 4]);
        for padded in [true, false] {
            let l = ArcLayout { padded, tables_first: false, record_order: vec![2, 0, 1], body_order: vec![0, 1, 2], info_before_count: false };
            let img = ref_pack::build_arc(&files, &l, &ArcTweak::default());
            for cut in 0..img.bytes.len() {
                let _ = util::catch(|| arc::from_bytes(&img.bytes[..cut]).map(|m| m.len()).map_err(|e| e.to_string()));
                total.cases += 1;
                total.nontrivial += 1;
                if let Some((sig, summary)) = judge_ok(&files, &l, &mut total) {
                    total.violate(format!("after-failed-parse:{}", sig), format!("extraction right after parsing the first {} bytes of the same image: {}", cut, summary), json!({"after_cut": cut, "padded": padded}));
                    break;
                }
            }
        }
    }
    // each SINGLE call of the odd-call series (props::poison) immediately before an extraction
    {
        let files = files_of(&[2, 0, 4]);
        for i in 0..props::poison::count() {
            for padded in [true, false] {
                let l = ArcLayout { padded, tables_first: false, record_order: vec![2, 0, 1], body_order: vec![0, 1, 2], info_before_count: false };
                props::poison::single_call(i);
                total.cases += 1;
                total.nontrivial += 1;
                if let Some((sig, summary)) = judge_ok(&files, &l, &mut total) {
                    total.violate(format!("after-single-call:{}", sig), format!("right after call #{} of the odd-call series: {}", i, summary), json!({"after_single_call": i, "padded": padded}));
                }
            }
        }
    }
    // conforming variations
    {
        let vc = variation_cases(ctx.tier);
        let t = vc
            .par_iter()
            .fold(Tally::new, |mut t, (tag, files, l, tw)| {
                t.cases += 1;
                t.nontrivial += 1;
                if let Some((sig, summary)) = judge_ok_tw(files, l, tw, &mut t) {
                    t.violate(format!("variation:{}", sig), format!("[{}; {:?}] {}", tag, tw, summary.chars().take(400).collect::<String>()), json!({"variation": tag, "tier": ctx.tier.name()}));
                }
                t
            })
            .reduce(Tally::new, Tally::merge);
        total.absorb(t);
    }
    // scale: many records, large bodies
    for (tag, files) in scale_sets() {
        for padded in [true, false] {
            let ident: Vec<usize> = (0..files.len()).collect();
            let l = ArcLayout { padded, tables_first: !padded, record_order: ident.iter().rev().cloned().collect(), body_order: ident.clone(), info_before_count: false };
            total.cases += 1;
            total.nontrivial += 1;
            if let Some((sig, summary)) = judge_ok(&files, &l, &mut total) {
                total.violate(format!("scale:{}", sig), format!("[{}, padded={}] {}", tag, padded, summary), json!({"scale": tag, "padded": padded}));
            }
        }
    }
    total.sample(json!({"lens": [1, 5], "layout": layout_json(&ref_pack::arc_layouts(2)[3])}));
    let mut o = total.into_outcome(
        "every arc image the reference builder writes over: 0..=3 files with lengths from {0,1,3,4,5,32} (all combinations), with/without the 0x60 zero header, Count/Info tables before or after the bodies and in either order, ALL record orders × ALL body placements; oracle: one entry per record keyed by name with exactly the recorded bytes. Error family per image: no Count label, no Info label, a record without a name string, size/offset pushed 1 and 4 bytes past the data region, 0xFFFFFFFF size, offsets that wrap a 32-bit sum with 0x60 ⇒ Err, in both arithmetic builds. Conforming variations: retail-style extra labels (a Data label on the body block, every record labelled with its file name, before or after Info), records with equal contents sharing one stored body (2..=4 names, bodies up to 70 000 bytes), names from the shared tricky-string catalogue (files called Data / Count / Info included), dense sweeps of file count, body length and name length. non-trivial = image with ≥ 1 file or an error case",
        true,
        vec![("file_sets", json!(sets.len()))],
    );
    o.assumptions = vec!["arc images are produced by the reference bin-archive writer (canonical layout); un-padded images start with a non-zero word".into()];
    o
}

fn replay(_ctx: &Ctx, case: &Value) -> Vec<Violation> {
    if let Some(i) = case["after_single_call"].as_u64() {
        let padded = case["padded"].as_bool().unwrap_or(true);
        let files = files_of(&[2, 0, 4]);
        let l = ArcLayout { padded, tables_first: false, record_order: vec![2, 0, 1], body_order: vec![0, 1, 2], info_before_count: false };
        props::poison::single_call(i as usize);
        let mut t = Tally::new();
        return judge_ok(&files, &l, &mut t).map(|(sig, summary)| vec![Violation { sig: format!("after-single-call:{}", sig), summary, case: case.clone() }]).unwrap_or_default();
    }
    if let Some(cut) = case["after_cut"].as_u64() {
        let padded = case["padded"].as_bool().unwrap_or(true);
        let files = files_of(&[2, 0, 4]);
        let l = ArcLayout { padded, tables_first: false, record_order: vec![2, 0, 1], body_order: vec![0, 1, 2], info_before_count: false };
        let img = ref_pack::build_arc(&files, &l, &ArcTweak::default());
        let _ = util::catch(|| arc::from_bytes(&img.bytes[..(cut as usize).min(img.bytes.len())]).map(|m| m.len()).map_err(|e| e.to_string()));
        let mut t = Tally::new();
        return judge_ok(&files, &l, &mut t).map(|(sig, summary)| vec![Violation { sig: format!("after-failed-parse:{}", sig), summary, case: case.clone() }]).unwrap_or_default();
    }
    if let Some(tag) = case["variation"].as_str() {
        let tier = if case["tier"] == "thorough" { Tier::Thorough } else { Tier::Quick };
        let mut t = Tally::new();
        return variation_cases(tier).into_iter().filter(|(t2, ..)| t2 == tag).filter_map(|(_, files, l, tw)| judge_ok_tw(&files, &l, &tw, &mut t)).map(|(sig, summary)| Violation { sig: format!("variation:{}", sig), summary, case: case.clone() }).collect();
    }
    if let Some(tag) = case["scale"].as_str() {
        let padded = case["padded"].as_bool().unwrap_or(true);
        let mut t = Tally::new();
        let mut out = Vec::new();
        for (t2, files) in scale_sets() {
            if t2 == tag {
                let ident: Vec<usize> = (0..files.len()).collect();
                let l = ArcLayout { padded, tables_first: !padded, record_order: ident.iter().rev().cloned().collect(), body_order: ident.clone(), info_before_count: false };
                if let Some((sig, summary)) = judge_ok(&files, &l, &mut t) {
                    out.push(Violation { sig: format!("scale:{}", sig), summary, case: case.clone() });
                }
            }
        }
        return out;
    }
    let lens: Vec<usize> = serde_json::from_value(case["lens"].clone()).unwrap_or_default();
    let files = files_of(&lens);
    let l = layout_from(&case["layout"]);
    let mut t = Tally::new();
    let r = match case["error_case"].as_u64() {
        None => judge_ok(&files, &l, &mut t),
        Some(ei) => {
            let img = ref_pack::build_arc(&files, &l, &ArcTweak::default());
            let ecs = error_tweaks(files.len(), &img, &files, &l);
            ecs.get(ei as usize).and_then(|ec| judge_err(&files, &l, ec, &mut t))
        }
    };
    match r {
        Some((sig, summary)) => vec![Violation { sig, summary, case: case.clone() }],
        None => vec![],
    }
}

fn main() {
    vcore::run_main(PropDef { id: "C16", level: "model_checking", both_builds: BothBuilds::Always, explore, replay, worker: None })
}
