//! C10 — compressed size is bounded (expansion bound on every input) and repetition is
//! actually exploited (effectiveness bound on the periodic grid). Engine E2.

use mila::{LZ10CompressionFormat, LZ13CompressionFormat};
use props::lzfam::{self, LzInput};
use rayon::prelude::*;
use serde_json::{json, Value};
use vcore::driver::{BothBuilds, Ctx, Outcome, PropDef, Tier, Violation};
use vcore::ref_lz;
use vcore::{util, Tally};

#[derive(Clone, Copy, PartialEq, Eq, Debug)]
enum Codec {
    Lz10,
    Lz13,
}
impl Codec {
    fn header(self) -> usize {
        match self {
            Codec::Lz10 => 4,
            Codec::Lz13 => 8,
        }
    }
    fn compress(self, d: &[u8]) -> Result<Result<Vec<u8>, String>, util::PanicInfo> {
        match self {
            Codec::Lz10 => util::catch(|| (LZ10CompressionFormat {}).compress(d).map_err(|e| e.to_string())),
            Codec::Lz13 => util::catch(|| (LZ13CompressionFormat {}).compress(d).map_err(|e| e.to_string())),
        }
    }
    fn name(self) -> &'static str {
        match self {
            Codec::Lz10 => "LZ10",
            Codec::Lz13 => "LZ13",
        }
    }
}

fn out_len(codec: Codec, data: &[u8], t: &mut Tally) -> Result<usize, (String, String)> {
    t.calls += 1;
    match codec.compress(data) {
        Err(p) => Err((format!("panic@{}", p.location), format!("{} compress panicked: {}", codec.name(), p.message))),
        Ok(Err(e)) => Err((format!("compress-err:{}", codec.name()), format!("{} compress returned Err({}) on a {}-byte input", codec.name(), e, data.len()))),
        Ok(Ok(o)) => Ok(o.len()),
    }
}

fn check_expansion(codec: Codec, data: &[u8], t: &mut Tally) -> Option<(String, String)> {
    if data.is_empty() && codec == Codec::Lz13 {
        // the empty LZ13 stream needs the 4-byte extended size (format rule); C09 leaves it open
        return None;
    }
    let n = match out_len(codec, data, t) {
        Ok(n) => n,
        Err(e) => return Some(e),
    };
    let bound = ref_lz::expansion_bound(codec.header(), data.len());
    if n > bound {
        return Some((
            format!("expansion-bound:{}", codec.name()),
            format!("{}: output {} bytes > header + n + ceil(n/8) = {} for n = {}", codec.name(), n, bound, data.len()),
        ));
    }
    if n == bound {
        t.class("expansion-bound-tight");
    }
    None
}

/// periodic pattern generators
fn periodic(gen: usize, p: usize, n: usize, base: &[u8]) -> Vec<u8> {
    let period: Vec<u8> = match gen {
        0 => base[..p].to_vec(),
        // "blank records": a 4-byte tag, the rest of the period zero (long runs inside the period)
        2 => (0..p).map(|i| if i < 4 { i as u8 + 1 } else { 0 }).collect(),
        // "index table": (i mod p) as a byte — the period contains near-copies of itself at shift 256
        3 => (0..p).map(|i| i as u8).collect(),
        // 30 payload bytes, then a run of equal bytes to the end of the period
        4 => (0..p).map(|i| if i < 30.min(p) { base[i] } else { 0 }).collect(),
        // a run of zeros with a 1-byte marker
        5 => (0..p).map(|i| if i == 0 { 0xA7 } else { 0 }).collect(),
        // a table of boolean flags (two-valued, pseudo-random)
        6 => (0..p).map(|i| ((base[i % base.len()] >> 3) ^ (i as u8 >> 1)) & 1).collect(),
        // a record that starts with "wide" text (64 UTF-16LE ASCII characters), then plain bytes
        8 => (0..p).map(|i| if i < 128 { if i % 2 == 0 { b'A' + ((i / 2) % 26) as u8 } else { 0 } } else { base[i % base.len()] }).collect(),
        // a four-letter alphabet, pseudo-random: full of short self-similarities at every distance
        9 => (0..p).map(|i| b"ACGT"[((base[i % base.len()] >> 2) ^ (base[(i * 7 + 3) % base.len()] >> 5)) as usize & 3]).collect(),
        _ => (0..p).map(|i| ((i * 7) % 3) as u8 + if i % 11 == 0 { 1 } else { 0 }).collect(),
    };
    (0..n).map(|i| period[i % p]).collect()
}

fn lengths(p: usize) -> Vec<usize> {
    let mut v = vec![p + 1, p + 3, p + 18, p + 19, 2 * p, 2 * p + 1, p + 4096, p + 4097, p + 8200];
    v.retain(|n| *n > p);
    v.sort();
    v.dedup();
    v
}

fn periods(tier: Tier) -> Vec<usize> {
    match tier {
        Tier::Quick => (1..=40).chain(250..=260).chain((300..4080).step_by(97)).chain(4080..=4096).collect(),
        Tier::Thorough => (1..=4096).collect(),
    }
}

fn check_periodic(codec: Codec, gen: usize, p: usize, n: usize, base: &[u8], t: &mut Tally) -> Option<(String, String)> {
    let data = periodic(gen, p, n, base);
    let out = match out_len(codec, &data, t) {
        Ok(o) => o,
        Err(e) => return Some(e),
    };
    let (w, l) = match codec {
        Codec::Lz10 => (2, 18),
        Codec::Lz13 => (4, 4096),
    };
    let bound = ref_lz::periodic_bound(codec.header(), n, p, w, l);
    if out > bound {
        return Some((
            format!("effectiveness-bound:{}", codec.name()),
            format!("{}: period {} length {} (generator {}) compressed to {} bytes > bound {}", codec.name(), p, n, gen, out, bound),
        ));
    }
    if out * 2 < n {
        t.class("compressed-to-less-than-half");
    }
    None
}

fn explore(ctx: &Ctx) -> Outcome {
    let mut total = Tally::new();
    let mut layers = Vec::new();
    // expansion bound on the C08/C09 families
    for (k, n) in lzfam::small_alphabet_bounds(ctx.tier) {
        let (k, n) = (k, n.saturating_sub(1)); // one length less than C08/C09: two codecs per input here
        let count = lzfam::small_alphabet_count(k, n);
        let t = (0..count)
            .into_par_iter()
            .fold(Tally::new, |mut t, i| {
                let data = lzfam::small_alphabet_nth(k, n, i);
                t.cases += 1;
                for codec in [Codec::Lz10, Codec::Lz13] {
                    if let Some((sig, summary)) = check_expansion(codec, &data, &mut t) {
                        t.violate(sig, summary, json!({"kind": "expansion", "codec": codec.name(), "hex": util::hex(&data)}));
                    }
                }
                t
            })
            .reduce(Tally::new, Tally::merge);
        layers.push(json!({"claim": "expansion", "family": "all strings", "alphabet": k, "max_len": n, "inputs": count, "completed": true}));
        total.absorb(t);
    }
    // incompressible inputs make the bound tight: no-repeat data of every length 0..=64 and some long ones
    let mut rest: Vec<LzInput> = Vec::new();
    let nr = lzfam::norepeat(20000, 7);
    for n in (0..=64).chain([255, 256, 257, 4095, 4096, 4097, 8191, 8192, 20000]) {
        rest.push(LzInput { family: "incompressible", desc: format!("norepeat n={}", n), data: nr[..n].to_vec() });
    }
    rest.extend(lzfam::header_boundaries(Tier::Quick));
    rest.extend(lzfam::structure_grid(ctx.tier));
    let t = rest
        .par_iter()
        .fold(Tally::new, |mut t, inp| {
            t.cases += 1;
            for codec in [Codec::Lz10, Codec::Lz13] {
                if let Some((sig, summary)) = check_expansion(codec, &inp.data, &mut t) {
                    t.violate(sig, summary, json!({"kind": "expansion", "codec": codec.name(), "desc": inp.desc, "hex": util::hex(&inp.data)}));
                }
            }
            t
        })
        .reduce(Tally::new, Tally::merge);
    layers.push(json!({"claim": "expansion", "family": "incompressible + header boundaries + structure grid", "inputs": rest.len(), "completed": true}));
    total.absorb(t);

    // effectiveness bound on the periodic grid
    let base = lzfam::norepeat(4096, 3);
    let ps = periods(ctx.tier);
    let mut grid: Vec<(usize, usize, usize)> = Vec::new();
    for &p in &ps {
        for gen in 0..2 {
            for n in lengths(p) {
                grid.push((gen, p, n));
            }
        }
    }
    // inputs longer than 64 KiB (an index or window length kept in 16 bits shows only here)
    for &p in &[1usize, 2, 7, 100, 2000, 4095, 4096] {
        for gen in 0..2 {
            for n in [70_000usize, 140_000] {
                grid.push((gen, p, n));
            }
        }
    }
    // self-similar periods on long inputs: the match search must still reach the displacement
    // that matches in full (a search that gives up early, or prefers a far partial match, loses here)
    let long_periods: Vec<usize> = ctx.tier.pick(vec![300usize, 528, 627, 640, 872, 1000, 1500, 2500, 3000], vec![300, 400, 528, 600, 627, 640, 650, 700, 872, 1000, 1200, 1500, 2000, 2500, 3000, 3500, 4000]);
    for &p in &long_periods {
        for gen in 2..4 {
            grid.push((gen, p, 300_000));
        }
    }
    for (gen, p, n) in [(2usize, 627usize, 1_200_000usize), (3, 872, 700_000), (2, 640, 1_000_000), (3, 1500, 700_000)] {
        grid.push((gen, p, n));
    }
    // content CLASSES a compressor might special-case (wide text, a tiny alphabet) at periods on
    // both sides of 1024 / 2048 / the window, odd and even, with total lengths of every residue mod 4
    for &p in &[255usize, 1023, 1024, 1025, 1501, 2047, 2048, 2049, 2051, 3001, 4095, 4096] {
        for gen in [8usize, 9] {
            for extra in 0..4usize {
                grid.push((gen, p, 6 * p + extra));
            }
            grid.push((gen, p, 20 * p));
        }
    }
    // MANY periods of low-entropy content (long equal runs / two-valued tables inside the
    // period): a loss of a few bytes per period exceeds the bound only after dozens of periods
    for &p in &[100usize, 130, 300, 1000, 2100, 4096] {
        for gen in 4..7 {
            for n in [13_000usize, 65_536, 300_000] {
                if n > p {
                    grid.push((gen, p, n));
                }
            }
        }
    }
    let t = grid
        .par_iter()
        .fold(Tally::new, |mut t, &(gen, p, n)| {
            t.cases += 1;
            t.nontrivial += 1;
            for codec in [Codec::Lz10, Codec::Lz13] {
                if let Some((sig, summary)) = check_periodic(codec, gen, p, n, &base, &mut t) {
                    t.violate(sig, summary, json!({"kind": "periodic", "codec": codec.name(), "gen": gen, "p": p, "n": n}));
                }
            }
            t
        })
        .reduce(Tally::new, Tally::merge);
    layers.push(json!({"claim": "effectiveness", "family": "periodic grid", "periods": ps.len(), "period_min": ps.first(), "period_max": ps.last(), "generators": 2, "inputs": grid.len(), "completed": true}));
    total.absorb(t);
    total.sample(json!({"kind": "periodic", "gen": 0, "p": 4096, "n": 4096 + 4097}));
    total.sample(json!({"kind": "expansion", "desc": "norepeat n=64"}));

    let mut o = total.into_outcome(
        "expansion bound |out| <= header + n + ceil(n/8) asserted for both codecs on every input of the small-alphabet families, incompressible data of every length 0..=64 (+ long ones), header-boundary lengths and the structure grid; effectiveness bound asserted on the periodic grid periods x 2 pattern generators x 9 total lengths (plus 7 periods x lengths 70 000 and 140 000, and blank-record / index-table periods at 300 000..1 200 000 bytes); non-trivial = periodic-grid cases",
        true,
        vec![("layers", json!(layers))],
    );
    o.assumptions = vec![
        "the empty input is excluded from the LZ13 expansion bound: a valid empty LZ11 stream needs the 4-byte extended size".into(),
        "quick tier uses a subset of the periods (1..=40, 250..=260, every 97th, 4080..=4096); thorough uses all 1..=4096".into(),
    ];
    o
}

fn replay(_ctx: &Ctx, case: &Value) -> Vec<Violation> {
    let codec = if case["codec"] == "LZ10" { Codec::Lz10 } else { Codec::Lz13 };
    let mut t = Tally::new();
    let r = if case["kind"] == "periodic" {
        let base = lzfam::norepeat(4096, 3);
        check_periodic(codec, case["gen"].as_u64().unwrap_or(0) as usize, case["p"].as_u64().unwrap_or(1) as usize, case["n"].as_u64().unwrap_or(2) as usize, &base, &mut t)
    } else {
        check_expansion(codec, &util::unhex(case["hex"].as_str().unwrap_or("")), &mut t)
    };
    match r {
        Some((sig, summary)) => vec![Violation { sig, summary, case: case.clone() }],
        None => vec![],
    }
}

fn main() {
    vcore::run_main(PropDef {
        id: "C10",
        level: "model_checking",
        both_builds: BothBuilds::ThoroughOnly,
        explore,
        replay,
        worker: None,
    })
}
