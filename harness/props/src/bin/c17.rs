//! C17 — animation-set file round trip.
//! Engine E2: every ASetFile value of the enumerated families is serialized by mila,
//! re-read through BinArchive::from_bytes + ASetFile::from_archive and compared field by
//! field with the value that went in; the image is measured with the strict reference
//! parser (vcore::ref_bin) against the size the statement prescribes; the re-read value is
//! serialized again and must give the same bytes.

use mila::{ASetFile, BinArchive, Endian};
use rayon::prelude::*;
use serde::{Deserialize, Serialize};
use serde_json::{json, Value};
use vcore::driver::{BothBuilds, Ctx, Outcome, PropDef, Violation};
use vcore::ref_bin::{self, End};
use vcore::{sjis, util, Tally};

// ------------------------------------------------------------------------------------
// Generator coordinates (this is what a replay artefact stores)

/// Slot numbers are 1..=256 (entry 0 of a set is its label): slot = group*32 + bit + 1.
#[derive(Serialize, Deserialize, Clone, Debug, PartialEq)]
#[serde(rename_all = "snake_case")]
enum Pat {
    /// exactly these slots are present
    Present(Vec<u16>),
    /// every slot except these is present
    Absent(Vec<u16>),
    /// whole groups on/off: group g entirely present iff bit g
    Groups(u8),
}

#[derive(Serialize, Deserialize, Clone, Debug)]
struct SetDesc {
    label: Option<String>,
    pat: Pat,
    /// naming scheme of the present slots (see `slot_name`)
    scheme: u8,
}

#[derive(Serialize, Deserialize, Clone, Debug)]
struct Case {
    fam: String,
    /// index into METAS
    meta: u8,
    /// clip-table kind (see `clip_table`)
    clip: u8,
    sets: Vec<SetDesc>,
}

const METAS: [Option<&str>; 4] = [None, Some(""), Some("meta"), Some("日本")];
const N_CLIP_KINDS: u8 = 8;
const N_SCHEMES: u8 = 3;
const CLIP_KIND_NAMES: [&str; 8] = ["all-none", "all-some", "even-some", "odd-some", "none@0", "none@1", "none@255", "none@256"];

fn clip_name(i: usize) -> String {
    match i % 5 {
        0 => format!("s{:03}", i), // collides with scheme-0 slot names: shared text
        3 => String::new(),
        4 => format!("日本{}", i),
        _ => format!("c{:03}", i),
    }
}

fn clip_table(kind: u8) -> Vec<Option<String>> {
    (0..257usize)
        .map(|i| {
            let present = match kind {
                0 => false,
                1 => true,
                2 => i % 2 == 0,
                3 => i % 2 == 1,
                4 => i != 0,
                5 => i != 1,
                6 => i != 255,
                _ => i != 256,
            };
            if present {
                Some(clip_name(i))
            } else {
                None
            }
        })
        .collect()
}

fn slot_name(scheme: u8, slot: usize) -> String {
    match scheme {
        // unique per slot: a swap or an off-by-one in the slot index becomes visible
        0 => format!("s{:03}", slot),
        // empty names, non-ASCII names, a name equal to the label "A" (and repeated), half-width kana
        1 => match slot % 4 {
            0 => String::new(),
            1 => format!("日本{}", slot),
            2 => "A".to_string(),
            _ => format!("{}ﾂｱ", slot),
        },
        // every name the empty string (all cells share one text entry)
        _ => String::new(),
    }
}

fn present_mask(p: &Pat) -> [bool; 257] {
    let mut m = [false; 257];
    match p {
        Pat::Present(v) => {
            for s in v {
                m[*s as usize] = true;
            }
        }
        Pat::Absent(v) => {
            for s in 1..=256 {
                m[s] = true;
            }
            for s in v {
                m[*s as usize] = false;
            }
        }
        Pat::Groups(g) => {
            for s in 1..=256usize {
                m[s] = (g >> ((s - 1) / 32)) & 1 == 1;
            }
        }
    }
    m[0] = false;
    m
}

/// The logical value (what the statement calls the file).
#[derive(Clone, Debug)]
struct Val {
    meta: Option<String>,
    clip: Vec<Option<String>>,
    sets: Vec<Vec<Option<String>>>,
}

fn realise_set(d: &SetDesc) -> Vec<Option<String>> {
    let m = present_mask(&d.pat);
    let mut v: Vec<Option<String>> = Vec::with_capacity(257);
    v.push(d.label.clone());
    for s in 1..=256usize {
        v.push(if m[s] { Some(slot_name(d.scheme, s)) } else { None });
    }
    v
}

fn realise(c: &Case) -> Val {
    Val {
        meta: METAS[c.meta as usize % 4].map(|s| s.to_string()),
        clip: clip_table(c.clip),
        sets: c.sets.iter().map(realise_set).collect(),
    }
}

/// The six shapes of the set-list family.
fn shape(i: usize) -> SetDesc {
    match i {
        0 => SetDesc { label: None, pat: Pat::Present(vec![]), scheme: 0 }, // empty, unlabelled
        1 => SetDesc { label: Some("A".into()), pat: Pat::Present(vec![]), scheme: 0 }, // empty, labelled
        2 => SetDesc { label: None, pat: Pat::Present(vec![1]), scheme: 2 }, // one slot, name ""
        3 => SetDesc { label: Some("grp".into()), pat: Pat::Present(vec![32, 256]), scheme: 0 }, // last slot of group 0 and 7
        4 => SetDesc { label: Some("日本".into()), pat: Pat::Absent(vec![]), scheme: 1 }, // dense
        _ => SetDesc { label: None, pat: Pat::Present(vec![1, 33, 40, 64, 65, 129, 200, 255]), scheme: 0 }, // sparse
    }
}
const SHAPE_NAMES: [&str; 6] = ["empty-unlabelled", "empty-labelled", "one-slot", "last-slot-of-group", "dense", "sparse"];

/// Embedding of a set under test into a set list: alone, or between two other sets.
fn embed(s: SetDesc, ctx: u8) -> Vec<SetDesc> {
    match ctx {
        0 => vec![s],
        _ => vec![shape(3), s, shape(2)],
    }
}

// ------------------------------------------------------------------------------------
// Oracles

fn expected_sizes(v: &Val) -> (usize, usize, usize) {
    // (data size, pointer-table entries, labels)
    let mut data = 12 + 257 * 4;
    let mut ptrs = v.meta.is_some() as usize + v.clip.iter().filter(|x| x.is_some()).count();
    let mut labels = 1;
    for s in &v.sets {
        let mut groups = 0;
        let mut strings = 0;
        for g in 0..8 {
            let n = (0..32).filter(|b| s[g * 32 + b + 1].is_some()).count();
            if n > 0 {
                groups += 1;
            }
            strings += n;
        }
        data += (1 + groups + strings) * 4;
        ptrs += strings;
        if s[0].is_some() {
            labels += 1;
        }
    }
    (data, ptrs, labels)
}

fn show(x: &Option<String>) -> String {
    match x {
        None => "None".into(),
        Some(s) => format!("Some({:?})", s),
    }
}

/// Compare what was re-read with what went in. First difference wins.
fn diff(back: &ASetFile, v: &Val) -> Option<(String, String)> {
    if back.meta != v.meta {
        return Some(("roundtrip:meta".into(), format!("meta {} came back as {}", show(&v.meta), show(&back.meta))));
    }
    if back.anim_clip_table.len() != 257 {
        return Some(("roundtrip:clip-table-len".into(), format!("clip table has {} entries after the round trip", back.anim_clip_table.len())));
    }
    for i in 0..257 {
        if back.anim_clip_table[i] != v.clip[i] {
            return Some(("roundtrip:clip-table".into(), format!("clip table entry {}: {} came back as {}", i, show(&v.clip[i]), show(&back.anim_clip_table[i]))));
        }
    }
    if back.sets.len() != v.sets.len() {
        return Some(("roundtrip:set-count".into(), format!("{} sets written, {} read back", v.sets.len(), back.sets.len())));
    }
    for (k, (b, w)) in back.sets.iter().zip(v.sets.iter()).enumerate() {
        if b.len() != 257 {
            return Some(("roundtrip:set-len".into(), format!("set {} has {} entries after the round trip", k, b.len())));
        }
        if b[0] != w[0] {
            return Some(("roundtrip:set-label".into(), format!("set {} label {} came back as {}", k, show(&w[0]), show(&b[0]))));
        }
        for s in 1..=256 {
            if b[s].is_some() != w[s].is_some() {
                return Some(("roundtrip:slot-presence".into(), format!("set {} slot {} (group {}, bit {}): {} came back as {}", k, s, (s - 1) / 32, (s - 1) % 32, show(&w[s]), show(&b[s]))));
            }
            if b[s] != w[s] {
                return Some(("roundtrip:slot-name".into(), format!("set {} slot {} (group {}, bit {}): {} came back as {}", k, s, (s - 1) / 32, (s - 1) % 32, show(&w[s]), show(&b[s]))));
            }
        }
    }
    None
}

fn judge(v: &Val, t: &mut Tally) -> Option<(String, String)> {
    let file = ASetFile { meta: v.meta.clone(), anim_clip_table: v.clip.clone(), sets: v.sets.clone() };
    t.calls += 1;
    let img = match util::catch(|| file.serialize().map_err(|e| e.to_string())) {
        Err(p) => return Some((format!("panic@{}", p.location), format!("ASetFile::serialize panicked: {}", p.message))),
        Ok(Err(e)) => return Some(("serialize-err".into(), format!("ASetFile::serialize failed on a domain value: {}", e))),
        Ok(Ok(i)) => i,
    };
    // round trip through mila's reader
    t.calls += 2;
    let back = match util::catch(|| -> Result<ASetFile, (String, String)> {
        let a = BinArchive::from_bytes(&img, Endian::Little).map_err(|e| ("reparse-err:from_bytes".to_string(), e.to_string()))?;
        ASetFile::from_archive(&a).map_err(|e| ("reparse-err:from_archive".to_string(), e.to_string()))
    }) {
        Err(p) => return Some((format!("panic@{}", p.location), format!("re-reading the serialized file panicked: {}", p.message))),
        Ok(Err((sig, e))) => return Some((sig, format!("the library rejects its own image: {}", e))),
        Ok(Ok(b)) => b,
    };
    if let Some(d) = diff(&back, v) {
        return Some(d);
    }
    // image size, measured by the strict reference parser
    let (want_data, want_ptrs, want_labels) = expected_sizes(v);
    match ref_bin::parse(&img, End::Little) {
        Err(e) => return Some(("image-malformed".into(), format!("reference parser rejects the serialized image: {}", e))),
        Ok(p) => {
            if p.data_size != want_data {
                return Some((
                    "size:data".into(),
                    format!("data size {} but 12 + 257*4 + sum(1 + groups present + strings present)*4 = {} (absent slots must cost nothing, all-absent groups must be omitted)", p.data_size, want_data),
                ));
            }
            if p.pointer_count != want_ptrs {
                return Some(("size:pointer-table".into(), format!("pointer table has {} entries but {} strings are present (an absent entry must cost no space)", p.pointer_count, want_ptrs)));
            }
            if p.label_count != want_labels {
                return Some(("size:label-table".into(), format!("label table has {} entries, expected 1 + {} labelled sets", p.label_count, want_labels - 1)));
            }
        }
    }
    // re-serialization of the re-read value
    t.calls += 1;
    match util::catch(|| back.serialize().map_err(|e| e.to_string())) {
        Err(p) => return Some((format!("panic@{}", p.location), format!("serializing the re-read value panicked: {}", p.message))),
        Ok(Err(e)) => return Some(("reserialize-err".into(), format!("serializing the re-read value failed: {}", e))),
        Ok(Ok(again)) => {
            if again != img {
                let at = again.iter().zip(img.iter()).position(|(a, b)| a != b).unwrap_or(again.len().min(img.len()));
                return Some(("reserialize:differs".into(), format!("re-serialized image differs from the first one (lengths {} / {}, first difference at {:#x})", img.len(), again.len(), at)));
            }
        }
    }
    None
}

fn run_case(c: &Case, t: &mut Tally) {
    let v = realise(c);
    t.cases += 1;
    if !v.sets.is_empty() {
        t.nontrivial += 1;
    }
    t.class(&format!("family:{}", c.fam));
    t.class(&format!("sets={}", v.sets.len()));
    for s in &v.sets {
        let n = s[1..].iter().filter(|x| x.is_some()).count();
        let groups = (0..8).filter(|g| (0..32).any(|b| s[g * 32 + b + 1].is_some())).count();
        t.class(&format!("set:groups-present={}", groups));
        if n == 0 {
            t.class(if s[0].is_some() { "set:empty-labelled" } else { "set:empty-unlabelled" });
        }
        if n == 256 {
            t.class("set:all-present");
        }
        if (0..8).any(|g| s[g * 32 + 32].is_some()) {
            t.class("set:last-slot-of-a-group-present");
        }
        if s[1..].iter().any(|x| x.as_deref() == Some("")) {
            t.class("set:has-empty-name");
        }
    }
    match judge(&v, t) {
        Some((sig, summary)) => {
            t.class("outcome:violation");
            t.violate(sig, summary, serde_json::to_value(c).unwrap());
        }
        None => t.class("outcome:ok"),
    }
}

// ------------------------------------------------------------------------------------
// Families

/// All subsets of `universe` (ascending slot numbers) with lo..=k elements whose smallest element is
/// universe[a-1] (a = 0: the empty set).
fn subsets_with_min(universe: &[u16], a: usize, lo: usize, k: usize, f: &mut dyn FnMut(&[u16])) {
    fn rec(universe: &[u16], cur: &mut Vec<u16>, next: usize, lo: usize, k: usize, f: &mut dyn FnMut(&[u16])) {
        if cur.len() >= lo {
            f(cur);
        }
        if cur.len() < k {
            for n in next..universe.len() {
                cur.push(universe[n]);
                rec(universe, cur, n + 1, lo, k, f);
                cur.pop();
            }
        }
    }
    if a == 0 {
        if lo == 0 {
            f(&[]);
        }
        return;
    }
    let mut cur = vec![universe[a - 1]];
    rec(universe, &mut cur, a, lo, k, f);
}

fn all_slots() -> Vec<u16> {
    (1..=256).collect()
}

/// bit positions {0,1,15,30,31} of every group: 40 slots
fn boundary_slots() -> Vec<u16> {
    let mut v = Vec::new();
    for g in 0..8u16 {
        for p in [0u16, 1, 15, 30, 31] {
            v.push(g * 32 + p + 1);
        }
    }
    v
}

#[derive(Clone, Debug)]
enum Task {
    /// meta × clip kind × one set list (shape indices)
    Lists { meta: u8, clip: u8 },
    /// slot subsets (of all 256 slots, or of the 40 boundary slots) whose smallest element is the a-th
    /// slot of the universe, sizes lo..=k, as present or absent slots
    Subsets { boundary: bool, absent: bool, a: u16, lo: usize, k: usize, label: bool, scheme: u8, ctx: u8 },
    /// group g: every subset of bit positions {0,1,15,30,31}; other groups empty / full
    OneGroup { g: u8, full_bg: bool, label: bool, scheme: u8, ctx: u8 },
    /// all 256 whole-group patterns
    WholeGroups { label: bool, scheme: u8, ctx: u8 },
}

fn label_of(on: bool) -> Option<String> {
    if on {
        Some("A".into())
    } else {
        None
    }
}

fn run_task(task: &Task, t: &mut Tally) {
    match task {
        Task::Lists { meta, clip } => {
            for len in 0..=3usize {
                for idx in util::odometer(6, len) {
                    let c = Case { fam: "lists".into(), meta: *meta, clip: *clip, sets: idx.iter().map(|i| shape(*i)).collect() };
                    run_case(&c, t);
                }
            }
        }
        Task::Subsets { boundary, absent, a, lo, k, label, scheme, ctx } => {
            let mut j: usize = 0;
            let fam = format!("slots-{}{}-{}", if *boundary { "boundary-" } else { "" }, if *lo == *k { format!("eq{}", k) } else { format!("le{}", k) }, if *absent { "absent" } else { "present" });
            let universe = if *boundary { boundary_slots() } else { all_slots() };
            subsets_with_min(&universe, *a as usize, *lo, *k, &mut |s: &[u16]| {
                let pat = if *absent { Pat::Absent(s.to_vec()) } else { Pat::Present(s.to_vec()) };
                let set = SetDesc { label: label_of(*label), pat, scheme: *scheme };
                // the clip table rotates over all-None / even / odd / all-Some here; the single-None kinds are
                // a matter of the table itself and are crossed with every set list in the `lists` family
                let c = Case { fam: fam.clone(), meta: ((*a as usize + j) % 4) as u8, clip: [0u8, 2, 3, 1][(*a as usize + j / 4) % 4], sets: embed(set, *ctx) };
                run_case(&c, t);
                j += 1;
            });
        }
        Task::OneGroup { g, full_bg, label, scheme, ctx } => {
            const POS: [u16; 5] = [0, 1, 15, 30, 31];
            for m in 0u16..32 {
                let chosen: Vec<u16> = POS.iter().enumerate().filter(|(i, _)| (m >> i) & 1 == 1).map(|(_, p)| *g as u16 * 32 + p + 1).collect();
                let pat = if *full_bg {
                    // other groups full; inside group g only `chosen` present
                    Pat::Absent((0..32u16).map(|b| *g as u16 * 32 + b + 1).filter(|s| !chosen.contains(s)).collect())
                } else {
                    Pat::Present(chosen)
                };
                let set = SetDesc { label: label_of(*label), pat, scheme: *scheme };
                let c = Case { fam: "one-group".into(), meta: (m % 4) as u8, clip: ((m / 4) % N_CLIP_KINDS as u16) as u8, sets: embed(set, *ctx) };
                run_case(&c, t);
            }
        }
        Task::WholeGroups { label, scheme, ctx } => {
            for m in 0u16..256 {
                let set = SetDesc { label: label_of(*label), pat: Pat::Groups(m as u8), scheme: *scheme };
                let c = Case { fam: "whole-groups".into(), meta: (m % 4) as u8, clip: ((m / 4) % N_CLIP_KINDS as u16) as u8, sets: embed(set, *ctx) };
                run_case(&c, t);
            }
        }
    }
}

fn tasks(thorough: bool) -> Vec<Task> {
    let mut v = Vec::new();
    for meta in 0..4 {
        for clip in 0..N_CLIP_KINDS {
            v.push(Task::Lists { meta, clip });
        }
    }
    for absent in [false, true] {
        for label in [false, true] {
            for scheme in 0..N_SCHEMES {
                for ctx in 0..2 {
                    for a in 0..=256u16 {
                        // quick tier, dense (≤2 absent) patterns under the non-unique naming schemes: the
                        // embedding alternates with the smallest absent slot instead of taking both
                        if absent && scheme != 0 && !thorough && ctx != (a % 2) as u8 {
                            continue;
                        }
                        v.push(Task::Subsets { boundary: false, absent, a, lo: 0, k: 2, label, scheme, ctx });
                    }
                }
            }
        }
    }
    for label in [false, true] {
        for scheme in 0..N_SCHEMES {
            for ctx in 0..2 {
                for g in 0..8 {
                    for full_bg in [false, true] {
                        v.push(Task::OneGroup { g, full_bg, label, scheme, ctx });
                    }
                }
                v.push(Task::WholeGroups { label, scheme, ctx });
            }
        }
    }
    if thorough {
        // every pattern with exactly 3 present slots out of all 256; label, naming scheme and
        // embedding rotate with the smallest slot
        for a in 1..=254u16 {
            v.push(Task::Subsets { boundary: false, absent: false, a, lo: 3, k: 3, label: a % 2 == 1, scheme: (a % 3) as u8, ctx: ((a / 2) % 2) as u8 });
        }
        // every pattern with exactly 3 absent slots out of the 40 boundary slots (bit positions
        // {0,1,15,30,31} of each group), full product of label, scheme and embedding
        for label in [false, true] {
            for scheme in 0..N_SCHEMES {
                for ctx in 0..2 {
                    for a in 1..=38u16 {
                        v.push(Task::Subsets { boundary: true, absent: true, a, lo: 3, k: 3, label, scheme, ctx });
                    }
                }
            }
        }
    }
    v
}

fn self_check() -> Vec<String> {
    // every string the generators can produce lies in the property's domain
    let mut bad = Vec::new();
    let mut all: Vec<String> = Vec::new();
    for i in 0..257 {
        all.push(clip_name(i));
    }
    for sc in 0..N_SCHEMES {
        for s in 1..=256 {
            all.push(slot_name(sc, s));
        }
    }
    for m in METAS.iter().flatten() {
        all.push(m.to_string());
    }
    for i in 0..6 {
        if let Some(l) = shape(i).label {
            all.push(l);
        }
    }
    all.push("A".into());
    for s in all {
        if !sjis::lossless(&s) {
            bad.push(format!("generator string {:?} is outside the Shift-JIS-lossless NUL-free domain", s));
        }
    }
    // size oracle on a hand-computed value: one set, slots 1 and 33 present, labelled
    let c = Case { fam: "self".into(), meta: 0, clip: 0, sets: vec![SetDesc { label: Some("A".into()), pat: Pat::Present(vec![1, 33]), scheme: 0 }] };
    let (d, p, l) = expected_sizes(&realise(&c));
    if (d, p, l) != (12 + 1028 + (1 + 2 + 2) * 4, 2, 2) {
        bad.push(format!("size oracle self-check failed: {:?}", (d, p, l)));
    }
    bad
}

/// Scale cases (counts and string lengths beyond 8 and 16 bits).
fn scale_values() -> Vec<(String, Val)> {
    let long: String = "長い名前_".chars().cycle().take(300).collect();
    let mut out = Vec::new();
    for n in vcore::util::ladder(8_193) {
        let mut sets = Vec::new();
        for i in 0..n {
            let mut set: Vec<Option<String>> = vec![None; 257];
            if i % 2 == 0 {
                set[0] = Some(format!("SetLabel{:05}", i));
            }
            set[1 + (i % 256)] = Some(if i % 7 == 0 { long.clone() } else { format!("anim{}", i) });
            sets.push(set);
        }
        out.push((format!("{} sets", n), Val { meta: Some(long.clone()), clip: (0..257).map(|i| if i % 2 == 0 { Some(format!("{}{}", long, i)) } else { None }).collect(), sets }));
    }
    // files whose sets TOGETHER exceed 2^16 words (a retail-sized file: thousands of labelled sets
    // of a few dozen names; a few hundred fully dense sets) — no single set is large
    for (n, per_set) in [(2_300usize, 28usize), (2_341, 27), (256, 256), (22_000, 1)] {
        let mut sets = Vec::with_capacity(n);
        for i in 0..n {
            let mut set: Vec<Option<String>> = vec![None; 257];
            set[0] = Some(format!("uAnim_{:05}", i));
            for k in 0..per_set {
                set[1 + (i * 7 + k * (256 / per_set.max(1)).max(1)) % 256] = Some(format!("a{}", (i + k) % 97));
            }
            sets.push(set);
        }
        out.push((format!("{} sets of {} names (more than 2^16 words in all)", n, per_set), Val { meta: Some("m".into()), clip: vec![None; 257], sets }));
    }
    out
}

/// DENSE sweeps (every value from 0, so that every residue of the data size modulo a page is
/// hit): the number of sets with 1-word and 3-word sets, the length of every kind of name; and
/// the shared tricky-string catalogue as meta / clip name / label / slot name. Values are
/// generated one at a time from their index (the whole family held in memory would need GBs).
fn dense_bounds(thorough: bool) -> (usize, usize, usize) {
    if thorough {
        (2100, 1000, 4400)
    } else {
        (1100, 400, 1700)
    }
}

fn dense_count(thorough: bool) -> usize {
    let (n1, n3, nl) = dense_bounds(thorough);
    (n1 + 1) + (n3 + 1) + (nl + 1) + vcore::sjis::tricky_strings().len() + name_pairs().len() + (vcore::sjis::domain().len() + 199) / 200
}

fn name_pairs() -> Vec<(String, String)> {
    let mut pairs: Vec<(String, String)> = vcore::collide::pairs().iter().map(|(_, a, b)| (a.clone(), b.clone())).collect();
    pairs.extend(vcore::sjis::suffix_pairs());
    pairs.extend(vcore::sjis::case_pairs());
    pairs
}

fn dense_value(thorough: bool, mut i: usize) -> (String, Val) {
    let (n1, n3, nl) = dense_bounds(thorough);
    let none_clip: Vec<Option<String>> = vec![None; 257];
    if i <= n1 {
        return (format!("dense: {} empty sets", i), Val { meta: None, clip: none_clip, sets: vec![vec![None; 257]; i] });
    }
    i -= n1 + 1;
    if i <= n3 {
        let sets = (0..i)
            .map(|k| {
                let mut set: Vec<Option<String>> = vec![None; 257];
                set[1 + (k * 37) % 256] = Some(format!("a{}", k % 5));
                set
            })
            .collect();
        return (format!("dense: {} one-slot sets", i), Val { meta: Some("m".into()), clip: none_clip, sets });
    }
    i -= n3 + 1;
    if i <= nl {
        let l = i;
        let a: String = "abcdefghijklmnopqrstuvwxyz".chars().cycle().take(l).collect();
        let b: String = (if l % 2 == 1 { "z" } else { "" }).to_string() + &"漢字".chars().cycle().take(l / 2).collect::<String>(); // lead bytes at odd offsets for odd l, even for even l
        let mut clip = none_clip;
        clip[0] = Some(a.clone());
        clip[256] = Some(b.clone());
        let mut set: Vec<Option<String>> = vec![None; 257];
        set[0] = Some(b.clone());
        set[1] = Some(a.clone());
        set[256] = Some(b.clone());
        return (format!("dense: names of {} bytes", l), Val { meta: Some(a), clip, sets: vec![set] });
    }
    i -= nl + 1;
    let tricky = vcore::sjis::tricky_strings();
    if i >= tricky.len() {
        i -= tricky.len();
        let pairs = name_pairs();
        if i < pairs.len() {
            // two names that collide under a common 32-bit hash / stand in a suffix relation:
            // as the labels of two sets, as clip names and as slot names of one set
            let (a, b) = &pairs[i];
            let mut clip = none_clip;
            clip[3] = Some(a.clone());
            clip[200] = Some(b.clone());
            let mut s1: Vec<Option<String>> = vec![None; 257];
            s1[0] = Some(a.clone());
            s1[1] = Some(b.clone());
            s1[2] = Some(a.clone());
            let mut s2: Vec<Option<String>> = vec![None; 257];
            s2[0] = Some(b.clone());
            s2[256] = Some(a.clone());
            return (format!("name pair #{}", i), Val { meta: Some(b.clone()), clip, sets: vec![s1, s2] });
        }
        i -= pairs.len();
        // every character of the Shift-JIS domain as a slot name, 200 per set
        let dom = vcore::sjis::domain();
        let chunk: Vec<char> = dom.iter().skip(i * 200).take(200).cloned().collect();
        let mut set: Vec<Option<String>> = vec![None; 257];
        for (k, ch) in chunk.iter().enumerate() {
            set[1 + k] = Some(format!("{}{}", ch, k % 7));
        }
        return (format!("domain characters #{}", i), Val { meta: chunk.first().map(|c| c.to_string()), clip: none_clip, sets: vec![set] });
    }
    let s = &tricky[i % tricky.len()];
    let other = &tricky[(i + 1) % tricky.len()];
    let mut clip = none_clip;
    clip[i % 257] = Some(s.clone());
    clip[(i + 100) % 257] = Some(other.clone());
    let mut set: Vec<Option<String>> = vec![None; 257];
    set[0] = Some(s.clone());
    set[1 + i % 256] = Some(s.clone());
    set[256] = Some(other.clone());
    (format!("tricky string #{}", i), Val { meta: Some(s.clone()), clip, sets: vec![set, vec![None; 257]] })
}

fn explore(ctx: &Ctx) -> Outcome {
    let thorough = ctx.tier == vcore::Tier::Thorough;
    let problems = self_check();
    let ts = tasks(thorough);
    let total = ts
        .par_iter()
        .with_max_len(1)
        .fold(Tally::new, |mut t, task| {
            run_task(task, &mut t);
            t
        })
        .reduce(Tally::new, Tally::merge);
    let mut total = total;
    // state carried between calls: a series of failing parses right before each case
    for idx in vcore::util::odometer(6, 3) {
        let c = Case { fam: "after-failed-calls".into(), meta: (idx[0] % 4) as u8, clip: (idx[1] % 8) as u8, sets: idx.iter().map(|i| shape(*i)).collect() };
        props::poison::failing_calls();
        let before = total.violations.len();
        run_case(&c, &mut total);
        for v in total.violations.iter_mut().skip(before) {
            v.sig = format!("after-failed-calls:{}", v.sig);
        }
    }
    // ... and EACH SINGLE call of that series immediately before a representative case (state
    // that the very next decode consumes is cleared again by later calls of the whole series)
    for i in 0..props::poison::count() {
        for idx in [[0usize, 1, 2], [3, 4, 5]] {
            let c = Case { fam: format!("after-single-call:{}", i), meta: (i % 4) as u8, clip: (i % 8) as u8, sets: idx.iter().map(|k| shape(*k)).collect() };
            props::poison::single_call(i);
            let before = total.violations.len();
            run_case(&c, &mut total);
            for v in total.violations.iter_mut().skip(before) {
                v.sig = format!("after-single-call:{}", v.sig);
            }
        }
    }
    let sv = scale_values();
    let scale_t = sv
        .par_iter()
        .fold(Tally::new, |mut t, (name, v)| {
            t.cases += 1;
            t.nontrivial += 1;
            t.class("family:scale");
            if let Some((sig, summary)) = judge(v, &mut t) {
                t.violate(format!("scale:{}", sig), format!("[{}] {}", name, summary.chars().take(400).collect::<String>()), json!({"scale": name}));
            }
            t
        })
        .reduce(Tally::new, Tally::merge);
    drop(sv);
    let dense_t = (0..dense_count(thorough))
        .into_par_iter()
        .fold(Tally::new, |mut t, i| {
            let (name, v) = dense_value(thorough, i);
            t.cases += 1;
            t.nontrivial += 1;
            t.class("family:dense");
            if let Some((sig, summary)) = judge(&v, &mut t) {
                t.violate(format!("dense:{}", sig), format!("[{}] {}", name, summary.chars().take(400).collect::<String>()), json!({"dense": i, "thorough": thorough}));
            }
            t
        })
        .reduce(Tally::new, Tally::merge);
    total.absorb(dense_t);
    total.absorb(scale_t);
    // samples: generator coordinates of three representative cases
    total.sample(serde_json::to_value(Case { fam: "lists".into(), meta: 3, clip: 2, sets: vec![shape(1), shape(4), shape(0)] }).unwrap());
    total.sample(serde_json::to_value(Case { fam: "slots-le2-absent".into(), meta: 1, clip: 6, sets: embed(SetDesc { label: None, pat: Pat::Absent(vec![32, 33]), scheme: 1 }, 1) }).unwrap());
    total.sample(serde_json::to_value(Case { fam: "one-group".into(), meta: 2, clip: 1, sets: embed(SetDesc { label: Some("A".into()), pat: Pat::Present(vec![225, 256]), scheme: 0 }, 0) }).unwrap());

    let fam_counts: serde_json::Map<String, Value> = total.classes.iter().filter(|(k, _)| k.starts_with("family:")).map(|(k, v)| (k["family:".len()..].to_string(), json!(v))).collect();
    // vacuity guard: the families exist to reach these structural classes
    let mut missing = Vec::new();
    for c in ["set:empty-unlabelled", "set:empty-labelled", "set:all-present", "set:last-slot-of-a-group-present", "set:has-empty-name", "set:groups-present=0", "set:groups-present=1", "set:groups-present=8", "sets=0", "sets=3"] {
        if !total.classes.contains_key(c) {
            missing.push(c.to_string());
        }
    }
    let mut o = total.into_outcome(
        "every ASetFile of five families is serialized, re-read (BinArchive::from_bytes + ASetFile::from_archive), compared field-wise, measured, and re-serialized: (1) meta ∈ {None,\"\",\"meta\",\"日本\"} × 8 clip tables of 257 entries (all-None, all-Some, even/odd alternating, single None at 0/1/255/256) × ALL sequences of 0..=3 sets from six shapes (empty-unlabelled, empty-labelled, one-slot with empty name, last-slot-of-group, dense, sparse); (2) EVERY slot pattern with ≤2 present slots and (3) EVERY pattern with ≤2 absent slots, each × label {None,\"A\"} × 3 naming schemes (unique per slot / mixed empty, non-ASCII, repeated, equal to the label / all empty) × 2 embeddings (alone, between two other sets) — at the quick tier the ≤2-absent patterns under the two non-unique naming schemes take one embedding, alternating with the smallest absent slot — with meta rotating over its 4 values and the clip table over all-None/even/odd/all-Some; (4) for each of the 8 groups every subset of bit positions {0,1,15,30,31} against empty and full other groups; (5) all 256 whole-group on/off patterns. The thorough tier adds every pattern with exactly 3 present slots (label, scheme and embedding rotating) and every pattern with exactly 3 absent slots among the 40 boundary slots (bit positions {0,1,15,30,31} of each group). non-trivial = the file contains at least one set",
        true,
        vec![
            ("families", Value::Object(fam_counts)),
            ("tasks", json!(ts.len())),
            ("unreached_target_classes", json!(missing)),
            ("clip_table_kinds", json!(CLIP_KIND_NAMES)),
            ("set_list_shapes", json!(SHAPE_NAMES)),
            ("oracles", json!(["field-wise equality of meta, 257 clip entries, set count, every set's label and 256 slots (presence and name)", "strict reference parse of the image: data size = 12 + 257*4 + Σ(1 + groups present + strings present)*4, pointer table = number of present strings, label table = 1 + labelled sets", "serialize(re-read value) == first image"])),
        ],
    );
    for p in problems {
        o.machinery(p);
    }
    if !missing.is_empty() {
        o.machinery(format!("vacuous enumeration: structural classes never produced: {:?}", missing));
    }
    o.assumptions = vec![
        "domain (DESIGN §3 rule 1): clip tables and sets have exactly 257 entries; all strings are NUL-free and Shift-JIS-lossless (checked at start-up with vcore::sjis::lossless); set labels are drawn from {None, \"A\", \"grp\", \"日本\"} and never equal \"AnimClipNameTable\" (the label by which the format itself locates the clip table)".into(),
        "\"absent slots cost no space\" is measured on the data size AND on the pointer table (one entry per present string); the position of masks and cells inside the data region is not constrained beyond what the round trip implies".into(),
        "slot names come from three deterministic naming schemes rather than from all strings; the empty string, multi-byte and single-byte non-ASCII names, repeated names and a name equal to a label are all included".into(),
        "oracle independence: expected values come from the generator's own value model, sizes from vcore::ref_bin::parse (no mila code)".into(),
    ];
    o
}

fn replay(_ctx: &Ctx, case: &Value) -> Vec<Violation> {
    if let Some(i) = case["dense"].as_u64() {
        let (_, v) = dense_value(case["thorough"].as_bool().unwrap_or(false), i as usize);
        let mut t = Tally::new();
        return judge(&v, &mut t).map(|(sig, summary)| vec![Violation { sig: format!("dense:{}", sig), summary: summary.chars().take(400).collect(), case: case.clone() }]).unwrap_or_default();
    }
    if let Some(name) = case["scale"].as_str() {
        let mut out = Vec::new();
        for (n, v) in scale_values().into_iter() {
            if n == name {
                let mut t = Tally::new();
                if let Some((sig, summary)) = judge(&v, &mut t) {
                    out.push(Violation { sig: format!("scale:{}", sig), summary: summary.chars().take(400).collect(), case: case.clone() });
                }
            }
        }
        return out;
    }
    let c: Case = match serde_json::from_value(case.clone()) {
        Ok(c) => c,
        Err(_) => return vec![],
    };
    let mut t = Tally::new();
    let poisoned = c.fam == "after-failed-calls";
    if poisoned {
        props::poison::failing_calls();
    }
    let single = c.fam.strip_prefix("after-single-call:").and_then(|i| i.parse::<usize>().ok());
    if let Some(i) = single {
        props::poison::single_call(i);
    }
    match judge(&realise(&c), &mut t) {
        Some((sig, summary)) => vec![Violation { sig: if poisoned { format!("after-failed-calls:{}", sig) } else if single.is_some() { format!("after-single-call:{}", sig) } else { sig }, summary, case: case.clone() }],
        None => vec![],
    }
}

fn main() {
    vcore::run_main(PropDef { id: "C17", level: "model_checking", both_builds: BothBuilds::ThoroughOnly, explore, replay, worker: None })
}
