//! C19 — pixel decoding matches the hardware formats. Engine E2 (bounded-exhaustive
//! enumeration through the real decoders, judged by `vcore::ref_pix`), both builds, plus a
//! cross-build pass in which the overflow-checked twin recomputes every output that the
//! reference does not pin to exact bytes and the two builds' outputs are compared.
//!
//! mila's 3DS decoder is private; it is observed through `ctpk::read` on single-texture
//! containers and `mila::decode` (ETC1), the GameCube side through `ColorFormat::{decode,
//! decode_indexed}` and `Tpl::extract_textures`.

use mila::ColorFormat;
use rayon::prelude::*;
use serde_json::{json, Value};
use std::collections::HashMap;
use std::sync::Mutex;
use std::time::Duration;
use vcore::driver::{BothBuilds, Ctx, Outcome, PropDef, Tier, Violation};
use vcore::isolate::{self, Status};
use vcore::ref_pix::{self as rp, Chan, Etc1Fields, Fmt, Px};
use vcore::ref_tex::{self as rt, Layout, TexSpec};
use vcore::{util, Tally};

// ---------------------------------------------------------------------------------------
// observation

type Obs = Result<Result<Vec<u8>, String>, util::PanicInfo>;

#[derive(Clone, Copy, PartialEq, Eq, Debug)]
enum Route {
    /// `mila::ctpk::read` on a single-texture container
    Ctpk,
    /// `mila::decode` (ETC1 / ETC1A4 only)
    Direct,
}

fn observe_3ds(route: Route, fmt: Fmt, w: usize, h: usize, payload: &[u8]) -> Obs {
    match route {
        Route::Direct => util::catch(|| mila::decode(payload, w, h, fmt == Fmt::Etc1A4).map_err(|e| e.to_string())),
        Route::Ctpk => {
            let spec = TexSpec { name: "t".into(), width: w, height: h, format: fmt.code(), payload: payload.to_vec(), palette: vec![] };
            let file = rt::build_ctpk(&[spec], &Layout::canonical()).bytes;
            util::catch(|| match mila::ctpk::read(&file) {
                Err(e) => Err(e.to_string()),
                Ok(v) => {
                    if v.len() != 1 {
                        Err(format!("single-texture container yields {} textures", v.len()))
                    } else if v[0].width != w || v[0].height != h {
                        Err(format!("container reports {}x{} for a {}x{} texture", v[0].width, v[0].height, w, h))
                    } else {
                        Ok(v.into_iter().next().unwrap().pixel_data)
                    }
                }
            })
        }
    }
}

/// the image as the LAST of three images in one TPL file (the two before it have other sizes
/// and palettes): state shared between the images of one file must not leak into it
fn observe_tpl_third(w: usize, h: usize, payload: &[u8], palette: &[u16]) -> Obs {
    let mk = |w: usize, h: usize, payload: Vec<u8>, palette: Vec<u16>| TexSpec { name: String::new(), width: w, height: h, format: rt::TPL_CI8, payload, palette };
    let first = mk(8, 4, (0..32).map(|i| (i % 4) as u8).collect(), vec![0x8000, 0x801F, 0x83E0, 0xFC00]);
    let second = mk(5, 3, vec![1; rp::ci8_len(5, 3)], vec![0x0000, 0x7FFF]);
    let file = rt::build_tpl(&[first, second, mk(w, h, payload.to_vec(), palette.to_vec())], &Layout::canonical()).bytes;
    util::catch(|| match mila::tpl::Tpl::extract_textures(&file) {
        Err(e) => Err(e.to_string()),
        Ok(v) => {
            if v.len() != 3 {
                Err(format!("three-image TPL yields {} textures", v.len()))
            } else if v[2].width != w || v[2].height != h {
                Err(format!("TPL reports {}x{} for the third image, a {}x{} one", v[2].width, v[2].height, w, h))
            } else {
                Ok(v.into_iter().nth(2).unwrap().pixel_data)
            }
        }
    })
}

fn observe_tpl(w: usize, h: usize, payload: &[u8], palette: &[u16]) -> Obs {
    let spec = TexSpec { name: String::new(), width: w, height: h, format: rt::TPL_CI8, payload: payload.to_vec(), palette: palette.to_vec() };
    let file = rt::build_tpl(&[spec], &Layout::canonical()).bytes;
    util::catch(|| match mila::tpl::Tpl::extract_textures(&file) {
        Err(e) => Err(e.to_string()),
        Ok(v) => {
            if v.len() != 1 {
                Err(format!("single-texture TPL yields {} textures", v.len()))
            } else if v[0].width != w || v[0].height != h {
                Err(format!("TPL reports {}x{} for a {}x{} image", v[0].width, v[0].height, w, h))
            } else {
                Ok(v.into_iter().next().unwrap().pixel_data)
            }
        }
    })
}

fn fnv(h: &mut u64, b: &[u8]) {
    for x in b {
        *h ^= *x as u64;
        *h = h.wrapping_mul(0x100000001b3);
    }
}

/// Hash of what a call returned (None for a panic): the unit of the cross-build comparison.
fn hash_obs(o: &Obs) -> Option<u64> {
    let mut h = 0xcbf29ce484222325u64;
    match o {
        Err(_) => return None,
        Ok(Ok(px)) => {
            fnv(&mut h, b"ok");
            fnv(&mut h, px);
        }
        Ok(Err(e)) => {
            fnv(&mut h, b"err");
            fnv(&mut h, e.as_bytes());
        }
    }
    Some(h)
}

/// `Tally::violate` with the summary only built when the signature is still below its cap.
fn violate(t: &mut Tally, sig: String, make: impl FnOnce() -> (String, Value)) {
    if t.violations.len() >= 200 || t.violations.iter().filter(|v| v.sig == sig).count() >= 8 {
        return;
    }
    let (summary, case) = make();
    t.violate(sig, summary, case);
}

fn nontrivial(exp: &[Px]) -> bool {
    exp.iter().any(|p| *p != exp[0])
}

/// Judge one RGBA result against the expectations. Returns the output hash.
fn judge(obs: Obs, exp: &[Px], w: usize, mismatch_sig: &str, what: &str, case: &Value, t: &mut Tally) -> Option<u64> {
    t.calls += 1;
    let h = hash_obs(&obs);
    match obs {
        Err(p) => {
            t.class("panic");
            violate(t, format!("panic@{}", p.location), || (format!("{} panicked: {}", what, p.message), case.clone()));
        }
        Ok(Err(e)) => {
            t.class("err");
            violate(t, format!("rejected:{}", mismatch_sig), || (format!("{} returned Err({}) for a payload of exactly the required size", what, e), case.clone()));
        }
        Ok(Ok(px)) => {
            if px.len() != exp.len() * 4 {
                t.class("wrong-size");
                violate(t, format!("size:{}", mismatch_sig), || (format!("{} returned {} bytes, expected {} pixels x 4", what, px.len(), exp.len()), case.clone()));
            } else if let Some((i, c)) = rp::first_mismatch(exp, &px) {
                t.class("mismatch");
                violate(t, mismatch_sig.to_string(), || {
                    (
                        format!(
                            "{}: pixel ({}, {}) channel {} is {:?}, reference {}",
                            what,
                            i % w,
                            i / w,
                            ["R", "G", "B", "A"][c],
                            &px[i * 4..i * 4 + 4],
                            rp::describe_px(&exp[i])
                        ),
                        case.clone(),
                    )
                });
            } else {
                t.class("conforms");
            }
        }
    }
    h
}

// ---------------------------------------------------------------------------------------
// families

const FAMILIES: [&str; 14] = ["pos", "val16", "val8", "rgb5a3", "ci8val", "pal", "pal-large", "etc-alpha", "etc-oor", "etc-neighbour", "etc-grid", "rand", "pattern", "poisoned"];

/// Families whose expected output is not pinned to exact bytes in every channel (tolerance or
/// open outcomes): their outputs are additionally compared between the two builds.
fn needs_cross(fam: &str) -> bool {
    fam != "etc-grid"
}

fn pos_sizes(tier: Tier) -> Vec<(usize, usize)> {
    let dims: &[usize] = match tier {
        Tier::Quick => &[8, 16, 32, 64, 128], // cheap: the quick tier uses the full size set
        Tier::Thorough => &[8, 16, 32, 64, 128],
    };
    let mut v = Vec::new();
    for &w in dims {
        for &h in dims {
            v.push((w, h));
        }
    }
    v
}

fn pal_max(tier: Tier) -> usize {
    tier.pick(40, 64)
}

fn rand_seeds(tier: Tier) -> u64 {
    tier.pick(8, 32)
}

fn chunk_count(tier: Tier, fam: &str) -> u64 {
    match fam {
        "pos" => 9 * pos_sizes(tier).len() as u64,
        "val16" => 4 * 2 * 4,
        "val8" => 1,
        "rgb5a3" => 257,
        "ci8val" => 1,
        "pal" => (pal_max(tier) * pal_max(tier)) as u64,
        "etc-grid" => 2 * 2 * 8 * 8 * 3,
        "etc-oor" => 2 * 8 * 8 * 3,
        "etc-neighbour" => 96,
        "pal-large" => PAL_LARGE.len() as u64,
        "etc-alpha" => 1,
        "poisoned" => 4,
        "rand" => 9 * pos_sizes(tier).len() as u64 * rand_seeds(tier),
        "pattern" => 9 * PATTERNS.len() as u64 * 3,
        _ => 0,
    }
}

fn case_of(fam: &str, chunk: u64) -> Value {
    json!({"family": fam, "chunk": chunk})
}

fn log2(n: usize) -> u32 {
    debug_assert!(n.is_power_of_two());
    n.trailing_zeros()
}

// ---- position -------------------------------------------------------------------------

/// Fields (shift, width) of a stored value that carry index bits. The lowest bit of every
/// channel is left out (kept 0): two different indices then differ by at least two
/// quantisation steps in some channel, more than the tolerance can absorb. The 1-bit alpha of
/// RGBA5551 carries nothing (its tolerance is the whole range).
fn index_fields(fmt: Fmt) -> Vec<(u32, u32)> {
    match fmt {
        Fmt::Rgba8 => vec![(25, 7), (17, 7), (9, 7), (1, 7)],
        Fmt::Rgba5551 => vec![(12, 4), (7, 4), (2, 4)],
        Fmt::Rgb565 => vec![(12, 4), (6, 5), (1, 4)],
        Fmt::Rgba4 => vec![(13, 3), (9, 3), (5, 3), (1, 3)],
        Fmt::La8 => vec![(9, 7), (1, 7)],
        Fmt::L8 | Fmt::A8 => vec![(1, 7)],
        Fmt::Etc1 | Fmt::Etc1A4 => vec![],
    }
}

/// Payloads whose decoded images together reveal, for every output pixel, the index of the
/// stored element it was taken from.
fn position_planes(fmt: Fmt, w: usize, h: usize) -> Vec<Vec<u8>> {
    let n = w * h;
    let nbits = log2(n);
    if !fmt.is_etc() {
        let fields = index_fields(fmt);
        let usable: u32 = fields.iter().map(|f| f.1).sum();
        let planes = (nbits + usable - 1) / usable;
        let bytes = fmt.bpp() / 8;
        let mut out = Vec::new();
        for p in 0..planes {
            let mut v = Vec::with_capacity(n * bytes);
            for s in 0..n {
                // RGBA8 has room to spare: the upper two channels carry the complement
                let idx = if fmt == Fmt::Rgba8 { (s as u64) | ((!(s as u64) & 0x3FFF) << 14) } else { s as u64 };
                let mut bits = (idx >> (p * usable)) & ((1u64 << usable) - 1);
                let mut val: u32 = 0;
                for &(shift, width) in &fields {
                    val |= ((bits & ((1 << width) - 1)) as u32) << shift;
                    bits >>= width;
                }
                if fmt == Fmt::Rgba5551 {
                    val |= (s as u32 ^ (s as u32 >> 1)) & 1;
                }
                v.extend_from_slice(&val.to_le_bytes()[..bytes]);
            }
            out.push(v);
        }
        out
    } else {
        let nblocks = n / 16;
        let rot = |b: usize| 0x0123_4567_89AB_CDEFu64.rotate_left(4 * (b as u32 % 16));
        let mut out = Vec::new();
        // plane 0: one distinct solid colour per stored block (individual mode, table 0, +2)
        let blocks: Vec<(u64, u64)> = (0..nblocks)
            .map(|b| {
                let c = [((b & 15) as u8, (b & 15) as u8), (((b >> 4) & 15) as u8, ((b >> 4) & 15) as u8), (((b >> 8) & 15) as u8, ((b >> 8) & 15) as u8)];
                (rot(b), rp::etc1_compose(&Etc1Fields { colour: c, ..Default::default() }))
            })
            .collect();
        out.push(rp::etc_payload(fmt, &blocks));
        // planes 1, 2: every block identical, pixel n shows bits (1,0) resp. (3,2) of n through
        // the four modifiers of table 3 on a mid-grey base
        for k in 0..2 {
            let mut msb = 0u16;
            let mut lsb = 0u16;
            for n in 0..16 {
                let sel = (n >> (2 * k)) & 3;
                msb |= ((sel >> 1) as u16) << n;
                lsb |= ((sel & 1) as u16) << n;
            }
            let word = rp::etc1_compose(&Etc1Fields { table1: 3, table2: 3, colour: [(8, 8); 3], msb, lsb, ..Default::default() });
            let blocks: Vec<(u64, u64)> = (0..nblocks).map(|b| (rot(b + k), word)).collect();
            out.push(rp::etc_payload(fmt, &blocks));
        }
        if fmt == Fmt::Etc1A4 {
            // alpha planes: element a = 16·block + pixel, three bits per plane in the upper bits
            // of the nibble (two steps apart)
            let planes = (nbits + 2) / 3;
            let word = rp::etc1_compose(&Etc1Fields { table1: 1, table2: 2, colour: [(4, 11), (7, 7), (12, 2)], ..Default::default() });
            for p in 0..planes {
                let blocks: Vec<(u64, u64)> = (0..nblocks)
                    .map(|b| {
                        let mut a = 0u64;
                        for n in 0..16u64 {
                            let e = (b as u64) * 16 + n;
                            a |= (((e >> (3 * p)) & 7) << 1) << (4 * n);
                        }
                        (a, word)
                    })
                    .collect();
                out.push(rp::etc_payload(fmt, &blocks));
            }
        }
        out
    }
}

fn routes_for(fmt: Fmt) -> &'static [Route] {
    if fmt.is_etc() {
        &[Route::Ctpk, Route::Direct]
    } else {
        &[Route::Ctpk]
    }
}

fn run_pos(tier: Tier, chunk: u64, t: &mut Tally, hashes: &mut Vec<Option<u64>>) {
    let sizes = pos_sizes(tier);
    let fmt = Fmt::ALL[(chunk as usize) / sizes.len()];
    let (w, h) = sizes[(chunk as usize) % sizes.len()];
    let case = case_of("pos", chunk);
    for (p, payload) in position_planes(fmt, w, h).iter().enumerate() {
        let exp = rp::decode_3ds(fmt, w, h, payload).expect("generator produces exact sizes");
        debug_assert_eq!(exp.undefined_blocks, 0);
        for &route in routes_for(fmt) {
            t.cases += 1;
            t.nontrivial += nontrivial(&exp.px) as u64;
            t.class_n(&format!("pos:{}", fmt.name()), 1);
            let what = format!("{} {}x{} position plane {} via {:?}", fmt.name(), w, h, p, route);
            hashes.push(judge(observe_3ds(route, fmt, w, h, payload), &exp.px, w, &format!("pixel-position:{}", fmt.name()), &what, &case, t));
        }
    }
    if chunk == 0 {
        t.sample(json!({"family": "pos", "format": fmt.name(), "size": [w, h], "planes": position_planes(fmt, w, h).len(), "payload_prefix_hex": util::hex(&position_planes(fmt, w, h)[0][..32])}));
    }
}

// ---- values ---------------------------------------------------------------------------

const FMT16: [Fmt; 4] = [Fmt::Rgba5551, Fmt::Rgb565, Fmt::Rgba4, Fmt::La8];

fn run_val16(chunk: u64, t: &mut Tally, hashes: &mut Vec<Option<u64>>) {
    let fmt = FMT16[(chunk / 8) as usize];
    let arr = (chunk / 4) % 2;
    let quarter = (chunk % 4) as u32;
    let mut payload = Vec::with_capacity(32768);
    for s in 0..16384u32 {
        let v = (quarter << 14) | s;
        // arrangement 1 decouples value and position (odd multiplier: a bijection on 16 bits)
        let v = if arr == 1 { v.wrapping_mul(0x9E37).wrapping_add(0x1234) & 0xFFFF } else { v };
        payload.extend_from_slice(&(v as u16).to_le_bytes());
    }
    let exp = rp::decode_3ds(fmt, 128, 128, &payload).unwrap();
    t.cases += 1;
    t.nontrivial += 1;
    t.class_n(&format!("values:{}", fmt.name()), 16384);
    let what = format!("{} 128x128 holding 16-bit values, quarter {} arrangement {}", fmt.name(), quarter, arr);
    hashes.push(judge(observe_3ds(Route::Ctpk, fmt, 128, 128, &payload), &exp.px, 128, &format!("pixel-value:{}", fmt.name()), &what, &case_of("val16", chunk), t));
}

fn run_val8(t: &mut Tally, hashes: &mut Vec<Option<u64>>) {
    let case = case_of("val8", 0);
    for fmt in [Fmt::L8, Fmt::A8] {
        for arr in 0..2u32 {
            let payload: Vec<u8> = (0..256u32).map(|s| if arr == 1 { (s.wrapping_mul(0x9D).wrapping_add(0x31) & 0xFF) as u8 } else { s as u8 }).collect();
            let exp = rp::decode_3ds(fmt, 16, 16, &payload).unwrap();
            t.cases += 1;
            t.nontrivial += 1;
            t.class_n(&format!("values:{}", fmt.name()), 256);
            let what = format!("{} 16x16 holding all 256 values, arrangement {}", fmt.name(), arr);
            hashes.push(judge(observe_3ds(Route::Ctpk, fmt, 16, 16, &payload), &exp.px, 16, &format!("pixel-value:{}", fmt.name()), &what, &case, t));
        }
    }
    for byte in 0..4usize {
        for bg in [0x00u8, 0xFF, 0xA5] {
            let mut payload = Vec::with_capacity(1024);
            for s in 0..256u32 {
                let mut px = [bg; 4];
                px[byte] = s as u8;
                payload.extend_from_slice(&px);
            }
            let exp = rp::decode_3ds(Fmt::Rgba8, 16, 16, &payload).unwrap();
            t.cases += 1;
            t.nontrivial += 1;
            t.class_n("values:RGBA8", 256);
            let what = format!("RGBA8 16x16, file byte {} over all values on background {:#04x}", byte, bg);
            hashes.push(judge(observe_3ds(Route::Ctpk, Fmt::Rgba8, 16, 16, &payload), &exp.px, 16, "pixel-value:RGBA8", &what, &case, t));
        }
    }
}

fn run_rgb5a3(chunk: u64, t: &mut Tally, hashes: &mut Vec<Option<u64>>) {
    let case = case_of("rgb5a3", chunk);
    let fmt = ColorFormat::RGB5A3;
    if chunk == 256 {
        // all 65 536 values in one call
        let bytes: Vec<u8> = (0..=0xFFFFu16).flat_map(|v| v.to_be_bytes()).collect();
        let exp: Vec<Px> = (0..=0xFFFFu16).map(rp::rgb5a3).collect();
        t.cases += 1;
        t.nontrivial += 1;
        let obs = util::catch(|| fmt.decode(&bytes).map_err(|e| e.to_string()));
        hashes.push(judge(obs, &exp, 65536, "pixel-value:RGB5A3", "ColorFormat::RGB5A3.decode of all 65536 values", &case, t));
        return;
    }
    let values: Vec<u16> = (0..256u32).map(|i| (chunk as u32 * 256 + i) as u16).collect();
    let exp: Vec<Px> = values.iter().map(|v| rp::rgb5a3(*v)).collect();
    t.class_n("values:RGB5A3", 256);
    // (a) one call with 256 values
    let bytes: Vec<u8> = values.iter().flat_map(|v| v.to_be_bytes()).collect();
    t.cases += 1;
    t.nontrivial += 1;
    let obs = util::catch(|| fmt.decode(&bytes).map_err(|e| e.to_string()));
    hashes.push(judge(obs, &exp, 256, "pixel-value:RGB5A3", &format!("ColorFormat::RGB5A3.decode of values {:#06x}..", values[0]), &case, t));
    // (b) one call per value
    for (i, v) in values.iter().enumerate() {
        t.cases += 1;
        let b = v.to_be_bytes();
        let obs = util::catch(|| fmt.decode(&b).map_err(|e| e.to_string()));
        hashes.push(judge(obs, &exp[i..i + 1], 1, "pixel-value:RGB5A3", &format!("ColorFormat::RGB5A3.decode([{:#06x}])", v), &case, t));
    }
    // (c) as the palette of a 16x16 CI8 image in a TPL file whose index bytes are 0..=255 in stored order
    let payload: Vec<u8> = (0..=255u8).collect();
    let exp_img = rp::decode_ci8(16, 16, &payload, &values).unwrap();
    t.cases += 1;
    t.nontrivial += 1;
    hashes.push(judge(observe_tpl(16, 16, &payload, &values), &exp_img, 16, "pixel-value:RGB5A3", &format!("TPL 16x16 CI8 with palette values {:#06x}..", values[0]), &case, t));
}

fn lookup_palette(n: usize) -> Vec<u8> {
    (0..n).flat_map(|i| [i as u8, 255 - i as u8, (i * 7) as u8, (i as u8) ^ 0x55]).collect()
}

fn run_ci8val(t: &mut Tally, hashes: &mut Vec<Option<u64>>) {
    let case = case_of("ci8val", 0);
    let fmt = ColorFormat::CI8;
    for n in [256usize, 255, 2, 1] {
        let pal = lookup_palette(n);
        let expect = |i: usize| -> Px {
            [0, 1, 2, 3].map(|c| Chan::Linear { v: pal[i * 4 + c] as u32, bits: 8 })
        };
        // all valid indices in one call, reversed order as well
        for rev in [false, true] {
            let idx: Vec<u8> = if rev { (0..n).rev().map(|i| i as u8).collect() } else { (0..n).map(|i| i as u8).collect() };
            let exp: Vec<Px> = idx.iter().map(|i| expect(*i as usize)).collect();
            t.cases += 1;
            t.nontrivial += (n > 1) as u64;
            t.class_n("values:CI8", n as u64);
            let obs = util::catch(|| fmt.decode_indexed(&idx, &pal).map_err(|e| e.to_string()));
            hashes.push(judge(obs, &exp, n, "pixel-value:CI8", &format!("ColorFormat::CI8.decode_indexed of all {} indices (reversed={}) with a {}-entry palette", n, rev, n), &case, t));
        }
        // one call per index; indices outside the palette: the statement does not say, no panic
        for i in 0..256usize {
            t.cases += 1;
            let obs: Obs = util::catch(|| fmt.decode_indexed(&[i as u8], &pal).map_err(|e| e.to_string()));
            if i < n {
                hashes.push(judge(obs, &[expect(i)], 1, "pixel-value:CI8", &format!("ColorFormat::CI8.decode_indexed([{}]) with a {}-entry palette", i, n), &case, t));
            } else {
                t.calls += 1;
                hashes.push(hash_obs(&obs));
                match obs {
                    Err(p) => violate(t, format!("panic@{}", p.location), || (format!("decode_indexed([{}]) with a {}-entry palette panicked: {}", i, n, p.message), case.clone())),
                    Ok(Ok(_)) => t.class("index-outside-palette:ok"),
                    Ok(Err(_)) => t.class("index-outside-palette:err"),
                }
            }
        }
    }
}

// ---- palette images of every size -----------------------------------------------------

/// 256 colours whose expectations are pairwise further apart than the tolerance: opaque
/// RGB555 with even red/green fields.
fn revealing_palette() -> Vec<u16> {
    (0..256u32).map(|i| (0x8000 | ((2 * (i & 15)) << 10) | ((2 * (i >> 4)) << 5) | 0x15) as u16).collect()
}

/// palette images with 2^16 and more texels (a size computed in 16 bits wraps only here)
const PAL_LARGE: [(usize, usize); 6] = [(256, 256), (640, 480), (255, 257), (512, 128), (8, 8192), (1024, 4)];
fn run_pal_large(chunk: u64, t: &mut Tally, hashes: &mut Vec<Option<u64>>) {
    let (w, h) = PAL_LARGE[chunk as usize % PAL_LARGE.len()];
    let pal = revealing_palette();
    let len = rp::ci8_len(w, h);
    let case = case_of("pal-large", chunk);
    for plane in 0..2 {
        let payload: Vec<u8> = (0..len).map(|s| ((s >> (8 * plane)) as u8).wrapping_add((s >> 16) as u8)).collect();
        let exp = rp::decode_ci8(w, h, &payload, &pal).unwrap();
        t.cases += 1;
        t.nontrivial += nontrivial(&exp) as u64;
        t.class("palette:large");
        let what = format!("TPL CI8 {}x{} (stored {} bytes), index plane {}", w, h, len, plane);
        hashes.push(judge(observe_tpl(w, h, &payload, &pal), &exp, w, "palette-position", &what, &case, t));
    }
}

fn run_pal(tier: Tier, chunk: u64, t: &mut Tally, hashes: &mut Vec<Option<u64>>) {
    let m = pal_max(tier) as u64;
    let w = (chunk / m + 1) as usize;
    let h = (chunk % m + 1) as usize;
    let pal = revealing_palette();
    let len = rp::ci8_len(w, h);
    let case = case_of("pal", chunk);
    for plane in 0..2 {
        if plane == 1 && len <= 256 {
            break;
        }
        let payload: Vec<u8> = (0..len).map(|s| (s >> (8 * plane)) as u8).collect();
        let exp = rp::decode_ci8(w, h, &payload, &pal).unwrap();
        t.cases += 1;
        t.nontrivial += nontrivial(&exp) as u64;
        t.class(if w % 8 == 0 && h % 4 == 0 { "palette:block-aligned" } else { "palette:cropped" });
        let what = format!("TPL CI8 {}x{} (stored {} bytes), index plane {}", w, h, len, plane);
        hashes.push(judge(observe_tpl(w, h, &payload, &pal), &exp, w, "palette-position", &what, &case, t));
        if plane == 0 {
            t.cases += 1;
            hashes.push(judge(observe_tpl_third(w, h, &payload, &pal), &exp, w, "palette-position:third-image", &format!("{} as the third image of one file", what), &case, t));
        }
    }
    // a palette SMALLER than 256 entries: the visible pixels use valid indices, the padding
    // texels of partially filled blocks (not part of the image) hold 0xFF / 0x10
    if w % 8 != 0 || h % 4 != 0 {
        for (pal_n, pad) in [(16usize, 0xFFu8), (16, 0x10), (255, 0xFF), (1, 0x01)] {
            let small = &pal[..pal_n];
            let mut payload = vec![pad; len];
            for y in 0..h {
                for x in 0..w {
                    let s = rp::ci8_source_index(w, x, y);
                    payload[s] = (s % pal_n) as u8;
                }
            }
            let exp = rp::decode_ci8(w, h, &payload, small).unwrap();
            t.cases += 1;
            t.nontrivial += nontrivial(&exp) as u64;
            t.class("palette:cropped,small-palette,padding-outside-palette");
            let what = format!("TPL CI8 {}x{} with a {}-entry palette, padding texels {:#04x}", w, h, pal_n, pad);
            hashes.push(judge(observe_tpl(w, h, &payload, small), &exp, w, "palette-small", &what, &case, t));
        }
    }
}

// ---- ETC1 grid ------------------------------------------------------------------------

/// 4 uniform selector planes and 16 in which exactly one pixel differs in both bit planes.
fn selector_planes() -> Vec<(u16, u16)> {
    let mut v = vec![(0, 0), (0, 0xFFFF), (0xFFFF, 0), (0xFFFF, 0xFFFF)];
    for p in 0..16 {
        v.push((1 << p, !(1u16 << p)));
    }
    v
}

struct Grid {
    diff: bool,
    flip: bool,
    t1: u8,
    t2: u8,
    ch: usize,
}

fn grid_of(chunk: u64, with_mode: bool) -> Grid {
    let ch = (chunk % 3) as usize;
    let r = chunk / 3;
    let t2 = (r % 8) as u8;
    let t1 = ((r / 8) % 8) as u8;
    let flip = (r / 64) % 2 == 1;
    let diff = if with_mode { (r / 128) % 2 == 1 } else { true };
    Grid { diff, flip, t1, t2, ch }
}

fn delta_of(raw: u8) -> i32 {
    if raw >= 4 {
        raw as i32 - 8
    } else {
        raw as i32
    }
}

/// The blocks of one grid chunk: the varying channel runs over all base pairs (individual:
/// 16x16; differential: 32 bases x 8 deltas, restricted to defined sums or to undefined ones),
/// crossed with the 20 selector planes.
fn grid_words(g: &Grid, undefined: bool) -> Vec<u64> {
    let mut pairs: Vec<(u8, u8)> = Vec::new();
    if g.diff {
        for a in 0..32u8 {
            for d in 0..8u8 {
                let inside = (0..=31).contains(&(a as i32 + delta_of(d)));
                if inside != undefined {
                    pairs.push((a, d));
                }
            }
        }
    } else {
        for a in 0..16u8 {
            for b in 0..16u8 {
                pairs.push((a, b));
            }
        }
    }
    // the two other channels keep fixed, mutually different, defined values
    let background: [(u8, u8); 2] = if g.diff { [(12, 1), (20, 2)] } else { [(3, 12), (9, 6)] };
    let sel = selector_planes();
    let mut v = Vec::with_capacity(pairs.len() * sel.len());
    for &pair in &pairs {
        let mut colour = [(0u8, 0u8); 3];
        let mut k = 0;
        for ch in 0..3 {
            if ch == g.ch {
                colour[ch] = pair;
            } else {
                colour[ch] = background[k];
                k += 1;
            }
        }
        for &(msb, lsb) in &sel {
            v.push(rp::etc1_compose(&Etc1Fields { diff: g.diff, flip: g.flip, table1: g.t1, table2: g.t2, colour, msb, lsb }));
        }
    }
    v
}

fn block_class(word: u64) -> &'static str {
    if (word >> 33) & 1 == 0 {
        "etc1:individual"
    } else if [56u32, 48, 40].iter().any(|s| (word >> s) & 4 != 0) {
        "etc1:differential,negative-delta"
    } else {
        "etc1:differential,non-negative-delta"
    }
}

fn alpha_word_for(j: usize) -> u64 {
    0x0123_4567_89AB_CDEFu64.rotate_left(4 * (j as u32 % 16)) ^ if j & 16 != 0 { 0xFFFF_FFFF_FFFF_FFFF } else { 0 }
}

/// One block alone: an 8x8 texture whose first block is `word` and whose other three are zero
/// words (individual mode, defined).
fn single_block_payload(fmt: Fmt, alpha: u64, word: u64) -> Vec<u8> {
    rp::etc_payload(fmt, &[(alpha, word), (0, 0), (0, 0), (0, 0)])
}

fn run_etc_grid(tier: Tier, chunk: u64, t: &mut Tally) {
    let g = grid_of(chunk, true);
    let words = grid_words(&g, false);
    let case = case_of("etc-grid", chunk);
    let mode = if g.diff { "differential" } else { "individual" };
    if chunk == 0 || chunk == 1152 {
        t.sample(json!({"family": "etc-grid", "chunk": chunk, "mode": mode, "blocks": words.len(), "first_block": format!("{:016x}", words[0]), "last_block": format!("{:016x}", words[words.len() - 1])}));
    }
    for (ti, tex_words) in words.chunks(1024).enumerate() {
        let mut padded = tex_words.to_vec();
        padded.resize(1024, 0);
        // ETC1 through both routes, ETC1A4 through mila::decode (and the container at the thorough tier)
        let mut variants: Vec<(Fmt, Route)> = vec![(Fmt::Etc1, Route::Direct), (Fmt::Etc1, Route::Ctpk), (Fmt::Etc1A4, Route::Direct)];
        if tier == Tier::Thorough {
            variants.push((Fmt::Etc1A4, Route::Ctpk));
        }
        for (fmt, route) in variants {
            let blocks: Vec<(u64, u64)> = padded.iter().enumerate().map(|(j, w)| (alpha_word_for(j + ti), *w)).collect();
            let payload = rp::etc_payload(fmt, &blocks);
            let exp = rp::decode_3ds(fmt, 128, 128, &payload).unwrap();
            debug_assert_eq!(exp.undefined_blocks, 0);
            t.calls += 1;
            t.cases += tex_words.len() as u64;
            t.nontrivial += tex_words.len() as u64;
            for w in tex_words {
                t.class(block_class(*w));
            }
            let what = format!("{} 128x128 of {} {}-mode grid blocks via {:?}", fmt.name(), tex_words.len(), mode, route);
            match observe_3ds(route, fmt, 128, 128, &payload) {
                Ok(Ok(px)) if px.len() == exp.px.len() * 4 => {
                    if let Some((i, c)) = rp::first_mismatch(&exp.px, &px) {
                        let (b, n) = rp::etc_source(128, i % 128, i / 128);
                        t.class("mismatch");
                        let sig = if c == 3 { "etc1a4-alpha".to_string() } else { format!("etc1-block:{}", mode) };
                        violate(t, sig, || {
                            (
                                format!(
                                    "{}: block {:016x} (alpha {:016x}) pixel {} (x={}, y={}) channel {} is {:?}, reference {}",
                                    what,
                                    padded[b],
                                    blocks[b].0,
                                    n,
                                    n / 4,
                                    n % 4,
                                    ["R", "G", "B", "A"][c],
                                    &px[i * 4..i * 4 + 4],
                                    rp::describe_px(&exp.px[i])
                                ),
                                case.clone(),
                            )
                        });
                    } else {
                        t.class_n("conforms", tex_words.len() as u64);
                    }
                }
                Ok(Ok(px)) => violate(t, format!("size:{}", fmt.name()), || (format!("{} returned {} bytes", what, px.len()), case.clone())),
                Ok(Err(e)) => violate(t, format!("rejected:{}", fmt.name()), || (format!("{} returned Err({})", what, e), case.clone())),
                Err(p) => {
                    // some block of the texture makes the decoder panic: judge every block on its own
                    t.class("texture-panicked:blocks-judged-singly");
                    if route == Route::Ctpk {
                        violate(t, format!("panic@{}", p.location), || (format!("{} panicked: {}", what, p.message), case.clone()));
                        continue;
                    }
                    for (j, w) in tex_words.iter().enumerate() {
                        let alpha = blocks[j].0;
                        let single = single_block_payload(fmt, alpha, *w);
                        let e1 = rp::decode_3ds(fmt, 8, 8, &single).unwrap();
                        let what = format!("{} block {:016x} alone in an 8x8 texture via mila::decode", fmt.name(), w);
                        judge(observe_3ds(Route::Direct, fmt, 8, 8, &single), &e1.px, 8, &format!("etc1-block:{}", mode), &what, &case, t);
                    }
                }
            }
        }
    }
}

/// NEIGHBOURING blocks that differ in exactly one bit: for a defined block W the texture holds
/// (W, W ^ 1<<k) and (W ^ 1<<k, W) for every k in 0..64 — a decoder that carries anything over
/// from the previous block (its expanded colours, its mode, its tables) when "the same" fields
/// come again meets every single-field difference here, the mode and flip bits included.
fn run_etc_neighbour(chunk: u64, t: &mut Tally) {
    let mut rng = rp::Rng(0xE7C1 ^ chunk.wrapping_mul(0x9E37_79B9_7F4A_7C15));
    let w0 = rp::random_defined_etc1_word(&mut rng, true);
    let case = case_of("etc-neighbour", chunk);
    let mut words: Vec<u64> = Vec::with_capacity(256);
    for k in 0..64u32 {
        words.push(w0);
        words.push(w0 ^ (1u64 << k));
    }
    for k in 0..64u32 {
        words.push(w0 ^ (1u64 << k));
        words.push(w0);
    }
    words.resize(1024, 0);
    for (fmt, route) in [(Fmt::Etc1, Route::Direct), (Fmt::Etc1A4, Route::Direct), (Fmt::Etc1, Route::Ctpk)] {
        let blocks: Vec<(u64, u64)> = words.iter().enumerate().map(|(j, w)| (alpha_word_for(j), *w)).collect();
        let payload = rp::etc_payload(fmt, &blocks);
        let exp = rp::decode_3ds(fmt, 128, 128, &payload).unwrap();
        t.calls += 1;
        t.cases += 256;
        t.nontrivial += 256;
        t.class("etc1:neighbour-pairs");
        let what = format!("{} 128x128 of neighbouring blocks {:016x} ^ one bit via {:?}", fmt.name(), w0, route);
        match observe_3ds(route, fmt, 128, 128, &payload) {
            Ok(Ok(px)) if px.len() == exp.px.len() * 4 => {
                if let Some((i, c)) = rp::first_mismatch(&exp.px, &px) {
                    let (b, n) = rp::etc_source(128, i % 128, i / 128);
                    violate(t, "etc1-block:neighbour".to_string(), || (format!("{}: block #{} = {:016x} (previous block {:016x}) texel {} channel {} is {:?}, reference {}", what, b, words[b], if b > 0 { words[b - 1] } else { 0 }, n, ["R", "G", "B", "A"][c], &px[i * 4..i * 4 + 4], rp::describe_px(&exp.px[i])), case.clone()));
                } else {
                    t.class_n("conforms", 256);
                }
            }
            Ok(Ok(px)) => violate(t, format!("size:{}", fmt.name()), || (format!("{} returned {} bytes", what, px.len()), case.clone())),
            Ok(Err(e)) => violate(t, format!("rejected:{}", fmt.name()), || (format!("{} returned Err({})", what, e), case.clone())),
            Err(p) => violate(t, format!("panic@{}", p.location), || (format!("{} panicked: {}", what, p.message), case.clone())),
        }
    }
}

fn run_etc_oor(chunk: u64, t: &mut Tally, hashes: &mut Vec<Option<u64>>) {
    let g = grid_of(chunk, false);
    let words = grid_words(&g, true);
    let case = case_of("etc-oor", chunk);
    if chunk == 0 {
        t.sample(json!({"family": "etc-oor", "chunk": 0, "blocks": words.len(), "first_block": format!("{:016x}", words[0]), "note": "base + delta outside 0..=31: only 'no panic, same output in both builds' is required"}));
    }
    for (j, w) in words.iter().enumerate() {
        for (fmt, route) in [(Fmt::Etc1, Route::Direct), (Fmt::Etc1, Route::Ctpk), (Fmt::Etc1A4, Route::Direct)] {
            let payload = single_block_payload(fmt, alpha_word_for(j), *w);
            let exp = rp::decode_3ds(fmt, 8, 8, &payload).unwrap();
            debug_assert_eq!(exp.undefined_blocks, 1);
            t.cases += 1;
            t.class("etc1:differential,sum-outside-0..=31");
            // the undefined block is all-`Any`; the three zero blocks around it are still judged
            let what = format!("{} block {:016x} (base+delta outside 0..=31) via {:?}", fmt.name(), w, route);
            hashes.push(judge(observe_3ds(route, fmt, 8, 8, &payload), &exp.px, 8, "etc1-neighbour-of-undefined-block", &what, &case, t));
        }
    }
}

fn run_etc_alpha(t: &mut Tally, hashes: &mut Vec<Option<u64>>) {
    let case = case_of("etc-alpha", 0);
    // the 16 nibble values in every rotation, both directions, and the uniform planes
    let mut patterns: Vec<u64> = Vec::new();
    for r in 0..16u32 {
        patterns.push(0xFEDC_BA98_7654_3210u64.rotate_left(4 * r));
        patterns.push(0x0123_4567_89AB_CDEFu64.rotate_left(4 * r));
    }
    for v in 0..16u64 {
        patterns.push(v * 0x1111_1111_1111_1111);
    }
    let colours = [
        rp::etc1_compose(&Etc1Fields { colour: [(8, 8); 3], ..Default::default() }),
        rp::etc1_compose(&Etc1Fields { diff: true, flip: true, table1: 5, table2: 2, colour: [(10, 3), (31, 0), (0, 2)], msb: 0xA5A5, lsb: 0x0FF0 }),
        rp::etc1_compose(&Etc1Fields { diff: false, flip: true, table1: 7, table2: 0, colour: [(15, 0), (0, 15), (7, 8)], msb: 0xFFFF, lsb: 0x3C3C }),
        rp::etc1_compose(&Etc1Fields { diff: true, flip: false, table1: 4, table2: 6, colour: [(0, 0), (16, 1), (28, 3)], msb: 0x0001, lsb: 0x8000 }),
    ];
    t.sample(json!({"family": "etc-alpha", "patterns": patterns.len(), "colour_words": colours.iter().map(|c| format!("{:016x}", c)).collect::<Vec<_>>()}));
    for pi in 0..patterns.len() {
        for ci in 0..colours.len() {
            // four blocks carrying four consecutive patterns
            let blocks: Vec<(u64, u64)> = (0..4).map(|b| (patterns[(pi + b) % patterns.len()], colours[(ci + b) % 4])).collect();
            let payload = rp::etc_payload(Fmt::Etc1A4, &blocks);
            let exp = rp::decode_3ds(Fmt::Etc1A4, 8, 8, &payload).unwrap();
            for route in [Route::Direct, Route::Ctpk] {
                t.cases += 1;
                t.nontrivial += 1;
                t.class("etc1a4:alpha-plane");
                let what = format!("ETC1A4 8x8 with alpha words {:016x}.. via {:?}", blocks[0].0, route);
                hashes.push(judge(observe_3ds(route, Fmt::Etc1A4, 8, 8, &payload), &exp.px, 8, "etc1a4-alpha", &what, &case, t));
            }
        }
    }
}

/// Deterministic pseudo-random payloads: every format x every size x a few seeds. For the ETC
/// formats only blocks the rules define; even seeds restrict differential deltas to 0..=3.
fn run_rand(tier: Tier, chunk: u64, t: &mut Tally, hashes: &mut Vec<Option<u64>>) {
    let sizes = pos_sizes(tier);
    let fmt = Fmt::ALL[(chunk % 9) as usize];
    let (w, h) = sizes[(chunk / 9) as usize % sizes.len()];
    let seed = chunk / (9 * sizes.len() as u64);
    let payload = rp::random_payload(fmt, w, h, 0xC19_0000 + chunk * 7919, seed % 2 == 1);
    let exp = rp::decode_3ds(fmt, w, h, &payload).expect("exact size");
    let case = case_of("rand", chunk);
    for &route in routes_for(fmt) {
        t.cases += 1;
        t.nontrivial += nontrivial(&exp.px) as u64;
        t.class_n(&format!("random:{}", fmt.name()), 1);
        let what = format!("{} {}x{} pseudo-random payload (seed {}) via {:?}", fmt.name(), w, h, seed, route);
        hashes.push(judge(observe_3ds(route, fmt, w, h, &payload), &exp.px, w, &format!("pixel-random:{}", fmt.name()), &what, &case, t));
    }
}

/// Structured payloads: constant bytes (all 0x00, all 0xFF, all 0x80), and byte patterns of period
/// 2, 3, 4, 8 and 16 (alternating texels, repeated 2x2 quads, stripes) — a decoder that takes a
/// short cut for "flat" tiles, memoises the previous texel or treats a sentinel value specially
/// meets its special case here and never in pseudo-random or index-revealing payloads.
const PATTERNS: [&[u8]; 12] = [&[0x00], &[0xFF], &[0x80], &[0x12, 0xEF], &[0xFF, 0x00], &[0x10, 0x20, 0x30], &[0xA1, 0xB2, 0xC3, 0xD4], &[0xFF, 0xFF, 0xFF, 0xFF, 0x00, 0x00, 0x00, 0x00], &[1, 2, 3, 4, 5, 6, 7, 8], &[0xFF, 0xFF, 0xFF, 0xFF, 1, 2, 3, 4, 5, 6, 7, 8, 9, 10, 11, 12], &[0x00, 0x00, 0x00, 0x00, 0xFF, 0xFF, 0xFF, 0xFF, 0x80, 0x80, 0x80, 0x80, 0x7F, 0x7F, 0x7F, 0x7F], &[0xF0, 0x0F]];

fn run_pattern(chunk: u64, t: &mut Tally, hashes: &mut Vec<Option<u64>>) {
    let fmt = Fmt::ALL[(chunk % 9) as usize];
    let pat = PATTERNS[(chunk / 9) as usize % PATTERNS.len()];
    let (w, h) = [(8usize, 8usize), (16, 8), (32, 16)][(chunk / (9 * PATTERNS.len() as u64)) as usize % 3];
    let len = fmt.payload_len(w, h);
    let mut payload: Vec<u8> = (0..len).map(|i| pat[i % pat.len()]).collect();
    if fmt.is_etc() {
        // keep ETC colour words inside the defined range: individual mode (diff bit clear)
        let block = if fmt == Fmt::Etc1A4 { 16 } else { 8 };
        for b in payload.chunks_mut(block) {
            let off = block - 8;
            b[off + 4] &= !0x02;
        }
    }
    let exp = rp::decode_3ds(fmt, w, h, &payload).expect("exact size");
    if exp.undefined_blocks > 0 {
        return;
    }
    let case = case_of("pattern", chunk);
    for &route in routes_for(fmt) {
        t.cases += 1;
        t.nontrivial += nontrivial(&exp.px) as u64;
        t.class_n(&format!("pattern:{}", fmt.name()), 1);
        let what = format!("{} {}x{} payload of repeated bytes {:02x?} via {:?}", fmt.name(), w, h, pat, route);
        hashes.push(judge(observe_3ds(route, fmt, w, h, &payload), &exp.px, w, &format!("pixel-pattern:{}", fmt.name()), &what, &case, t));
    }
}

/// Run one chunk; returns the hashes of the outputs of its calls (for the cross-build pass).
fn run_chunk(tier: Tier, fam: &str, chunk: u64, t: &mut Tally) -> Vec<Option<u64>> {
    let mut h = Vec::new();
    match fam {
        "pos" => run_pos(tier, chunk, t, &mut h),
        "val16" => run_val16(chunk, t, &mut h),
        "val8" => run_val8(t, &mut h),
        "rgb5a3" => run_rgb5a3(chunk, t, &mut h),
        "ci8val" => run_ci8val(t, &mut h),
        "pal" => run_pal(tier, chunk, t, &mut h),
        "etc-grid" => run_etc_grid(tier, chunk, t),
        "etc-oor" => run_etc_oor(chunk, t, &mut h),
        "etc-neighbour" => run_etc_neighbour(chunk, t),
        "pal-large" => run_pal_large(chunk, t, &mut h),
        "etc-alpha" => run_etc_alpha(t, &mut h),
        "rand" => run_rand(tier, chunk, t, &mut h),
        "pattern" => run_pattern(chunk, t, &mut h),
        "poisoned" => {
            // state carried between calls: a fixed series of failing calls right before a cheap family
            props::poison::failing_calls();
            let before = t.violations.len();
            match chunk {
                0 => run_val8(t, &mut h),
                1 => run_ci8val(t, &mut h),
                2 => run_etc_alpha(t, &mut h),
                _ => run_pal(tier, 9 * pal_max(tier) as u64 + 5, t, &mut h),
            }
            for v in t.violations.iter_mut().skip(before) {
                v.sig = format!("after-failed-calls:{}", v.sig);
            }
        }
        _ => {}
    }
    h
}

// ---------------------------------------------------------------------------------------
// cross-build comparison

fn encode_hashes(h: &[Option<u64>]) -> String {
    h.iter().map(|x| x.map(|v| format!("{:016x}", v)).unwrap_or_else(|| "P".into())).collect::<Vec<_>>().join(",")
}

fn decode_hashes(s: &str) -> Vec<Option<u64>> {
    if s.is_empty() {
        return vec![];
    }
    s.split(',').map(|x| u64::from_str_radix(x, 16).ok()).collect()
}

/// Ask the overflow-checked twin for the output hashes of the given chunks.
fn checked_hashes(ctx: &Ctx, chunks: &[(String, u64)]) -> Result<HashMap<(String, u64), Vec<Option<u64>>>, String> {
    let cb = ctx.checked_bin.as_ref().ok_or("no checked binary")?;
    let queue = Mutex::new(chunks.iter().cloned().collect::<std::collections::VecDeque<_>>());
    let out: Mutex<HashMap<(String, u64), Vec<Option<u64>>>> = Mutex::new(HashMap::new());
    let bad: Mutex<Option<String>> = Mutex::new(None);
    let args = vec!["--tier".to_string(), ctx.tier.name().to_string()];
    isolate::run_pool(
        cb,
        &args,
        16.min(chunks.len().max(1)),
        Duration::from_secs(60),
        || {
            let mut g = queue.lock().unwrap();
            let mut v = Vec::new();
            while v.len() < 8 {
                match g.pop_front() {
                    Some(c) => v.push(c),
                    None => break,
                }
            }
            v
        },
        |c: &(String, u64)| format!("{} {}", c.0, c.1),
        |c: &(String, u64), st: Status| match st {
            Status::Ok { payload, .. } => {
                out.lock().unwrap().insert(c.clone(), decode_hashes(&payload));
            }
            other => {
                let (sig, summary) = isolate::describe_fatal("hash worker", &other);
                *bad.lock().unwrap() = Some(format!("{} on chunk {} {}: {}", sig, c.0, c.1, summary));
            }
        },
    )?;
    if let Some(b) = bad.into_inner().unwrap() {
        return Err(b);
    }
    Ok(out.into_inner().unwrap())
}

fn compare_builds(fam: &str, chunk: u64, mine: &[Option<u64>], theirs: &[Option<u64>], t: &mut Tally) -> Result<(), String> {
    if mine.len() != theirs.len() {
        return Err(format!("chunk {} {}: {} outputs here, {} in the checked build", fam, chunk, mine.len(), theirs.len()));
    }
    for (u, (a, b)) in mine.iter().zip(theirs).enumerate() {
        match (a, b) {
            (Some(a), Some(b)) if a == b => t.class("cross-build:identical"),
            (Some(_), Some(_)) => {
                t.class("cross-build:different");
                t.violate(
                    format!("build-divergence:{}", fam),
                    format!("call {} of chunk {} {} returns different output with and without overflow checks", u, fam, chunk),
                    json!({"family": fam, "chunk": chunk, "unit": u, "cross": true}),
                );
            }
            // a panic is reported by the build in which it happens
            _ => t.class("cross-build:not-compared(panic)"),
        }
    }
    Ok(())
}

// ---------------------------------------------------------------------------------------

fn explore(ctx: &Ctx) -> Outcome {
    let tier = ctx.tier;
    let mut chunks: Vec<(String, u64)> = Vec::new();
    // small families first: their signatures then survive the caps on recorded violations
    for fam in FAMILIES {
        for c in 0..chunk_count(tier, fam) {
            chunks.push((fam.to_string(), c));
        }
    }
    let results: Vec<(Tally, Vec<((String, u64), Vec<Option<u64>>)>)> = chunks
        .par_iter()
        .fold(
            || (Tally::new(), Vec::new()),
            |(mut t, mut hs), (fam, c)| {
                let h = run_chunk(tier, fam, *c, &mut t);
                if needs_cross(fam) {
                    hs.push(((fam.clone(), *c), h));
                }
                (t, hs)
            },
        )
        .collect();
    let mut total = Tally::new();
    let mut mine: HashMap<(String, u64), Vec<Option<u64>>> = HashMap::new();
    let mut kept: Vec<Violation> = Vec::new();
    for (mut t, hs) in results {
        // at most 8 recorded violations per signature over the whole run
        for v in std::mem::take(&mut t.violations) {
            if kept.iter().filter(|k| k.sig == v.sig).count() < 8 {
                kept.push(v);
            }
        }
        total.absorb(t);
        mine.extend(hs);
    }
    total.violations = kept;

    // standing determinism check of the harness: a slice of the chunks is run twice
    let mut machinery: Vec<String> = Vec::new();
    for (fam, c) in chunks.iter().filter(|(f, c)| needs_cross(f) && c % 97 == 0) {
        let again = run_chunk(tier, fam, *c, &mut Tally::new());
        if mine.get(&(fam.clone(), *c)) != Some(&again) {
            machinery.push(format!("chunk {} {} is not deterministic", fam, c));
        }
    }

    // cross-build pass (coordinator only)
    let mut cross = json!("not run in this process (the unchecked coordinator runs it)");
    if ctx.build == "unchecked" && ctx.checked_bin.is_some() {
        let list: Vec<(String, u64)> = chunks.iter().filter(|(f, _)| needs_cross(f)).cloned().collect();
        match checked_hashes(ctx, &list) {
            Err(e) => machinery.push(format!("cross-build pass failed: {}", e)),
            Ok(theirs) => {
                let mut compared = 0u64;
                for key in &list {
                    match (mine.get(key), theirs.get(key)) {
                        (Some(a), Some(b)) => {
                            compared += a.len() as u64;
                            if let Err(e) = compare_builds(&key.0, key.1, a, b, &mut total) {
                                machinery.push(e);
                            }
                        }
                        _ => machinery.push(format!("chunk {} {} missing from the cross-build pass", key.0, key.1)),
                    }
                }
                cross = json!({"chunks": list.len(), "outputs_compared": compared, "note": "etc-grid is not re-compared: its expected output is exact in every channel, so agreement with the reference in both builds implies agreement with each other"});
            }
        }
    }

    let fam_json: Vec<Value> = FAMILIES.iter().map(|f| json!({"family": f, "chunks": chunk_count(tier, f), "completed": true})).collect();
    let mut o = total.into_outcome(
        "every member of ten families is decoded by mila and compared pixel by pixel with the reference decoders: (pos) each of the 9 formats x each size x index-revealing payload planes (every output pixel must show the stored element the Morton / block layout assigns to it); (val16) ALL 65536 values of RGBA5551/RGB565/RGBA4/LA8 in two arrangements; (val8) all 256 values of L8, A8 and of each RGBA8 byte on three backgrounds; (rgb5a3) ALL 65536 RGB5A3 values singly, in runs and as TPL palettes; (ci8val) all 256 indices against palettes of 256/255/2/1 entries; (pal) CI8 images of EVERY width x height up to the bound through TPL with an identity-revealing palette; (etc-grid) ALL 256 (mode, flip, table1, table2) x each channel over all 16x16 base pairs (individual) / all defined base+delta pairs (differential) x 20 selector planes, as ETC1 and ETC1A4; (etc-oor) the undefined base+delta pairs: no panic, neighbours intact, same output in both builds; (etc-alpha) the 16 alpha nibbles in every rotation; (rand) each format x size with deterministic pseudo-random payloads (ETC: defined blocks only). A case is one decoded texture (one block in the ETC grids); non-trivial = the expected image is not a single colour",
        true,
        vec![("families", json!(fam_json)), ("cross_build", cross), ("position_sizes", json!(pos_sizes(tier))), ("palette_sizes", json!(format!("1..={} squared", pal_max(tier))))],
    );
    for m in machinery {
        o.machinery(m);
    }
    o.assumptions = vec![
        "dimensions are powers of two 8..=128 per side for 3DS formats (1..=64 for palette images); payloads have exactly the required size".into(),
        "non-ETC channels and the ETC1A4 alpha are judged with the statement's tolerance |out - v*255/(2^k-1)| <= 255/(2^k-1); this makes the 1-bit alpha of RGBA5551 unconstrained and allows +-1 on 8-bit channels".into(),
        "RGB of an A8 pixel is not judged; alpha must be 0xFF where the format has none; ETC1 colours are judged exactly against the Khronos rules".into(),
        "differential ETC1 blocks whose base+delta leaves 0..=31 are undefined by the ETC1 rules: only 'no panic' and 'same output in both builds' are required of them".into(),
        "ColorFormat::decode_indexed with an index outside the palette: Ok or Err accepted, no panic".into(),
        "oracle: vcore::ref_pix, written from the PICA200 / Khronos ETC1 / GX format definitions, independent of mila".into(),
    ];
    o
}

fn replay(ctx: &Ctx, case: &Value) -> Vec<Violation> {
    // `--replay` reaches this function without the driver having installed the hook that
    // records panic locations
    util::install_quiet_panic_hook();
    let fam = case["family"].as_str().unwrap_or("").to_string();
    let chunk = case["chunk"].as_u64().unwrap_or(0);
    let mut t = Tally::new();
    let mine = run_chunk(ctx.tier, &fam, chunk, &mut t);
    if case["cross"].as_bool().unwrap_or(false) {
        let mut t2 = Tally::new();
        if let Ok(theirs) = checked_hashes(ctx, &[(fam.clone(), chunk)]) {
            if let Some(b) = theirs.get(&(fam.clone(), chunk)) {
                let _ = compare_builds(&fam, chunk, &mine, b, &mut t2);
            }
        }
        return t2.violations;
    }
    t.violations
}

/// Worker of the cross-build pass: for each `family chunk` line, the output hashes.
fn worker(ctx: &Ctx) {
    let tier = ctx.tier;
    isolate::worker_loop(
        |_| usize::MAX,
        move |line| {
            let mut it = line.split(' ');
            let fam = it.next().unwrap_or("").to_string();
            let chunk: u64 = it.next().and_then(|s| s.parse().ok()).unwrap_or(0);
            encode_hashes(&run_chunk(tier, &fam, chunk, &mut Tally::new()))
        },
    );
}

fn main() {
    vcore::run_main(PropDef {
        id: "C19",
        level: "model_checking",
        both_builds: BothBuilds::Always,
        explore,
        replay,
        worker: Some(worker),
    })
}
