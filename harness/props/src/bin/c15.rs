//! C15 — GameCube/Wii pack archive: build → parse is the identity, layout is aligned.
//! Engine E2: all ordered maps of 0..=3 files over the name / length alphabets.

use indexmap::IndexMap;
use mila::fe9_arc;
use rayon::prelude::*;
use serde_json::{json, Value};
use vcore::driver::{BothBuilds, Ctx, Outcome, PropDef, Tier, Violation};
use vcore::ref_pack;
use vcore::{util, Tally};

const NAMES: [&str; 5] = ["", "a", "FE9ArcTest1.bin", "日本", "ﾂｱ.bin"];
const LENS: [usize; 8] = [0, 1, 31, 32, 33, 63, 64, 65];

fn body(file_index: usize, len: usize) -> Vec<u8> {
    (0..len).map(|i| (0x30 + file_index as u8 * 0x40).wrapping_add(i as u8)).collect()
}

fn all_cases() -> Vec<Vec<(usize, usize)>> {
    // (name index, length index) lists, names distinct
    let mut name_lists: Vec<Vec<usize>> = vec![vec![]];
    for a in 0..NAMES.len() {
        name_lists.push(vec![a]);
        for b in 0..NAMES.len() {
            if b != a {
                name_lists.push(vec![a, b]);
                for c in 0..NAMES.len() {
                    if c != a && c != b {
                        name_lists.push(vec![a, b, c]);
                    }
                }
            }
        }
    }
    let mut out = Vec::new();
    for nl in name_lists {
        for ls in util::odometer(LENS.len(), nl.len()) {
            out.push(nl.iter().cloned().zip(ls.into_iter()).collect());
        }
    }
    out
}

fn files_of(case: &[(usize, usize)]) -> Vec<(String, Vec<u8>)> {
    case.iter().enumerate().map(|(i, (n, l))| (NAMES[*n].to_string(), body(i, LENS[*l]))).collect()
}

fn judge_files(files: &[(String, Vec<u8>)], t: &mut Tally, with_layouts: bool) -> Option<(String, String)> {
    let map: IndexMap<String, Vec<u8>> = files.iter().cloned().collect();
    t.calls += 2;
    let img = match util::catch(|| fe9_arc::serialize(&map).map_err(|e| e.to_string())) {
        Err(p) => return Some((format!("panic@{}", p.location), format!("serialize panicked: {}", p.message))),
        Ok(Err(e)) => return Some(("serialize-err".into(), format!("serialize failed: {}", e))),
        Ok(Ok(i)) => i,
    };
    let as_vec = |m: IndexMap<String, Vec<u8>>| m.into_iter().collect::<Vec<_>>();
    match util::catch(|| fe9_arc::parse(&img).map_err(|e| e.to_string())) {
        Err(p) => return Some((format!("panic@{}", p.location), format!("parse(serialize()) panicked: {}", p.message))),
        Ok(Err(e)) => return Some(("reparse-err".into(), format!("parse rejects the library's own image: {}", e))),
        Ok(Ok(m)) => {
            if as_vec(m.clone()) != files {
                return Some(("roundtrip".into(), format!("parse(serialize(m)) returned names {:?} sizes {:?}", m.keys().collect::<Vec<_>>(), m.values().map(|v| v.len()).collect::<Vec<_>>())));
            }
        }
    }
    // image shape by the reference reader
    match ref_pack::read_pack(&img) {
        Err(e) => return Some(("image-malformed".into(), format!("reference reader rejects the image: {}", e))),
        Ok(entries) => {
            if entries.len() != files.len() {
                return Some(("image-count".into(), format!("header count {} != {} files", entries.len(), files.len())));
            }
            for (i, e) in entries.iter().enumerate() {
                if e.name != files[i].0 || e.body != files[i].1 || e.size != files[i].1.len() {
                    return Some(("image-entry".into(), format!("entry {} records name {:?} size {} (expected {:?} / {})", i, e.name, e.size, files[i].0, files[i].1.len())));
                }
                if e.body_ptr % 32 != 0 {
                    return Some(("image-alignment".into(), format!("file {} starts at {:#x}, not on a 32-byte boundary", i, e.body_ptr)));
                }
            }
        }
    }
    if with_layouts {
        // images in which equal bodies / bodies that are prefixes of another are stored once
        for longest_first in [false, true] {
            let bytes = ref_pack::build_pack_shared(files, longest_first);
            t.calls += 1;
            match util::catch(|| fe9_arc::parse(&bytes).map_err(|e| e.to_string())) {
                Err(p) => return Some((format!("panic@{}", p.location), format!("parse panicked on an image with shared bodies: {}", p.message))),
                Ok(Err(e)) => return Some(("layout-rejected:shared-bodies".into(), format!("parse rejects a conforming image whose equal / prefix bodies are stored once: {}", e))),
                Ok(Ok(m)) => {
                    if as_vec(m) != files {
                        return Some(("layout-dependence:shared-bodies".into(), "files read from an image with shared bodies differ".into()));
                    }
                }
            }
        }
        for l in ref_pack::pack_layouts() {
            let bytes = ref_pack::build_pack(files, &l);
            t.calls += 1;
            match util::catch(|| fe9_arc::parse(&bytes).map_err(|e| e.to_string())) {
                Err(p) => return Some((format!("panic@{}", p.location), format!("parse panicked on a conforming layout {:?}: {}", l, p.message))),
                Ok(Err(e)) => return Some(("layout-rejected".into(), format!("parse rejects a conforming layout {:?}: {}", l, e))),
                Ok(Ok(m)) => {
                    if as_vec(m) != files {
                        return Some(("layout-dependence".into(), format!("files read from layout {:?} differ", l)));
                    }
                }
            }
        }
    }
    None
}

fn scale_sets() -> Vec<(String, Vec<(String, Vec<u8>)>)> {
    let long_name: String = "長い名前".chars().cycle().take(150).collect(); // 300 Shift-JIS bytes
    let mut v = Vec::new();
    for n in util::ladder(70_001).into_iter().chain([70_001]) {
        v.push((format!("bodies of {} bytes", n), vec![("first".to_string(), body(0, n)), (long_name.clone(), body(1, 3)), ("last.bin".to_string(), body(2, n + 1))]));
    }
    v.push(("names of 254/255/256 bytes".to_string(), (0..3).map(|i| ("n".repeat(254 + i), body(i, 5 + i))).collect()));
    v
}

/// tricky names (shared catalogue) and DENSE sweeps: every file count, body length and name length
fn extra_sets(tier: Tier) -> Vec<(String, Vec<(String, Vec<u8>)>)> {
    let mut v = Vec::new();
    let tricky = vcore::sjis::tricky_strings();
    for (i, s) in tricky.iter().enumerate() {
        let other = &tricky[(i + 1) % tricky.len()];
        let mut files = vec![(s.clone(), body(0, 5)), (format!("{}.bin", s), body(1, 33))];
        if other != s && *other != format!("{}.bin", s) {
            files.push((other.clone(), body(2, 0)));
        }
        v.push((format!("tricky name #{}", i), files));
    }
    let mut pairs: Vec<(String, String)> = vcore::collide::pairs().iter().map(|(_, a, b)| (a.clone(), b.clone())).collect();
    pairs.extend(vcore::sjis::suffix_pairs());
    pairs.extend(vcore::sjis::case_pairs());
    for (i, (a, b)) in pairs.iter().enumerate() {
        let mut files = vec![(a.clone(), body(0, 5)), (b.clone(), body(1, 33))];
        let ab = format!("{}{}", a, b);
        if ab != *a && ab != *b {
            files.push((ab, body(2, 1)));
        }
        v.push((format!("name pair #{}", i), files));
        v.push((format!("name pair #{} reversed", i), vec![(b.clone(), body(0, 0)), (a.clone(), body(1, 32))]));
    }
    // every character of the Shift-JIS domain in a name, 40 per archive
    for (i, chunk) in vcore::sjis::domain().chunks(40).enumerate() {
        v.push((format!("domain characters #{}", i), chunk.iter().enumerate().map(|(k, ch)| (format!("{}{}x", ch, k), body(k % 4, k % 3))).collect()));
    }
    for len in [0usize, 1, 31, 32, 33, 64, 100, 300, 5000] {
        v.push((format!("equal and prefix bodies of {} bytes", len), vec![("one".to_string(), body(0, len)), ("two".to_string(), body(0, len)), ("prefix".to_string(), body(0, len / 2))]));
    }
    // bodies that differ ONLY by trailing zero bytes (equal once padded to the 32-byte block): a
    // writer that recognises "the same body" on the padded form confuses their sizes
    for head in [vec![], vec![7u8, 7, 7], vec![0u8; 30], vec![9u8; 32]] {
        for k in [1usize, 2, 28, 29, 31, 32, 33] {
            let mut longer = head.clone();
            longer.extend(std::iter::repeat(0u8).take(k));
            v.push((format!("a body of {} bytes and the same body + {} zero bytes", head.len(), k), vec![("short".to_string(), head.clone()), ("long".to_string(), longer.clone()), ("again".to_string(), head.clone())]));
            v.push((format!("a body of {} bytes + {} zero bytes and the body without them", head.len(), k), vec![("long".to_string(), longer), ("short".to_string(), head.clone())]));
        }
    }
    // a name table of more than 64 KiB with suffix-related / case-related / colliding names on
    // either side of it (an offset into the name table kept in 16 bits wraps only here)
    for (k, (a, b)) in [("chapter/map_late.cmp", "map_late.cmp"), ("Map01.cmp", "map01.cmp"), ("攻撃力", "力")].iter().enumerate() {
        for at_end in [true, false] {
            let mut files: Vec<(String, Vec<u8>)> = Vec::new();
            if !at_end {
                files.push((a.to_string(), body(0, 3)));
                files.push((b.to_string(), body(1, 5)));
            }
            for i in 0..4200usize {
                files.push((format!("chapter_{:04}/entry_{:04}.dat", i, i), body(i % 4, i % 3)));
            }
            if at_end {
                files.push((a.to_string(), body(0, 3)));
                files.push((b.to_string(), body(1, 5)));
            }
            v.push((format!("4200 files around a related name pair #{} ({})", k, if at_end { "pair last" } else { "pair first" }), files));
        }
    }
    let (counts, lens, names) = tier.pick((300usize, 200usize, 1700usize), (1500, 700, 4400));
    for n in 0..=counts {
        v.push((format!("{} files", n), (0..n).map(|i| (format!("f{}", i), body(i % 4, (i * 7) % 5))).collect()));
    }
    for l in 0..=lens {
        v.push((format!("bodies of {} and {} bytes", l, lens - l), vec![("a".to_string(), body(0, l)), ("b".to_string(), body(1, lens - l)), ("c".to_string(), body(2, 1))]));
    }
    for l in 0..=names {
        let n1: String = "abcdefghij".chars().cycle().take(l).collect();
        let n2: String = (if l % 2 == 1 { "z" } else { "" }).to_string() + &"名前".chars().cycle().take(l / 2).collect::<String>() + "ｶ"; // two-byte lead bytes at odd AND even offsets
        v.push((format!("names of {} bytes", l), vec![(n1, body(0, 3)), (n2, body(1, 40)), ("z".to_string(), body(2, 0))]));
    }
    v
}

fn explore(ctx: &Ctx) -> Outcome {
    let cases = all_cases();
    let mut total = cases
        .par_iter()
        .fold(Tally::new, |mut t, c| {
            t.cases += 1;
            if !c.is_empty() {
                t.nontrivial += 1;
            }
            let files = files_of(c);
            if let Some((sig, summary)) = judge_files(&files, &mut t, true) {
                t.violate(sig, summary, json!({"case": c}));
            }
            t
        })
        .reduce(Tally::new, Tally::merge);
    let mut layers = vec![json!({"family": "ordered maps of 0..=3 files", "cases": cases.len(), "layouts_per_case": ref_pack::pack_layouts().len(), "completed": true})];
    // large archives: many files
    // (cheap enough for the quick tier too: the full ladder up to the format's maximum of 65 535 files)
    for n in util::ladder(65535).into_iter().chain(vec![65535]) {
        let files: Vec<(String, Vec<u8>)> = (0..n).map(|i| (format!("f{:05}", i), body(i % 4, i % 3))).collect();
        total.cases += 1;
        total.nontrivial += 1;
        if let Some((sig, summary)) = judge_files(&files, &mut total, false) {
            total.violate(sig, summary, json!({"many": n}));
        }
        layers.push(json!({"family": "many files", "files": n, "completed": true}));
    }
    // state carried between calls: failing parses right before the case
    for c in cases.iter().step_by(97) {
        props::poison::failing_calls();
        total.cases += 1;
        if let Some((sig, summary)) = judge_files(&files_of(c), &mut total, true) {
            total.violate(format!("after-failed-calls:{}", sig), summary, json!({"case": c, "after_failed_calls": true}));
        }
    }
    // ... and each SINGLE call of the series immediately before a representative case (state that
    // the very next decode consumes — a pending lead byte in a shared decoder — shows only then)
    {
        let reps: Vec<&Vec<(usize, usize)>> = cases.iter().filter(|c| c.len() == 2 && ((c[0].0 == 2 && c[1].0 == 1) || (c[0].0 == 1 && c[1].0 == 3) || (c[0].0 == 4 && c[1].0 == 2)) && c[0].1 == 1 && c[1].1 == 4).collect();
        for i in 0..props::poison::count() {
            for c in &reps {
                props::poison::single_call(i);
                total.cases += 1;
                if let Some((sig, summary)) = judge_files(&files_of(c), &mut total, false) {
                    total.violate(format!("after-single-call:{}", sig), format!("right after call #{} of the odd-call series: {}", i, summary), json!({"case": c, "after_single_call": i}));
                }
            }
        }
        layers.push(json!({"family": "each single call of the odd-call series immediately before a representative case", "calls": props::poison::count(), "representatives": reps.len(), "completed": true}));
    }
    // scale: bodies and names beyond 8- and 16-bit sizes
    for (tag, files) in scale_sets() {
        total.cases += 1;
        total.nontrivial += 1;
        if let Some((sig, summary)) = judge_files(&files, &mut total, true) {
            total.violate(format!("scale:{}", sig), format!("[{}] {}", tag, summary), json!({"scale": tag}));
        }
        layers.push(json!({"family": "scale", "case": tag, "completed": true}));
    }
    // tricky names and dense sweeps
    {
        let sets = extra_sets(ctx.tier);
        let t = sets
            .par_iter()
            .fold(Tally::new, |mut t, (tag, files)| {
                t.cases += 1;
                t.nontrivial += 1;
                if let Some((sig, summary)) = judge_files(files, &mut t, files.len() <= 3) {
                    t.violate(format!("extra:{}", sig), format!("[{}] {}", tag, summary.chars().take(400).collect::<String>()), json!({"extra": tag, "tier": ctx.tier.name()}));
                }
                t
            })
            .reduce(Tally::new, Tally::merge);
        layers.push(json!({"family": "tricky-name catalogue; DENSE sweeps: every file count, body length, name length from 0", "cases": sets.len(), "completed": true}));
        total.absorb(t);
    }
    total.sample(json!({"case": cases[cases.len() / 2]}));
    let mut o = total.into_outcome(
        "ALL ordered maps of 0..=3 files with distinct names from {\"\", a, FE9ArcTest1.bin, 日本, ﾂｱ.bin (half-width katakana pair: its Shift-JIS bytes are also valid UTF-8)} and lengths from {0,1,31,32,33,63,64,65} (position-dependent contents), plus archives of 255/256/4096/4097/5000 (65 535 thorough) files; oracles: parse(serialize(m)) == m in order, strict reference reader of the image (count, names, offsets, sizes, 32-byte alignment), and parse of all 16 conforming re-arrangements written by the reference builder (names before/after bodies, either order, gaps); non-trivial = non-empty map",
        true,
        vec![("layers", json!(layers))],
    );
    o.assumptions = vec!["names are distinct, NUL-free and Shift-JIS-lossless; re-arranged images keep bodies on 32-byte boundaries".into()];
    o
}

fn replay(_ctx: &Ctx, case: &Value) -> Vec<Violation> {
    let mut t = Tally::new();
    if let Some(tag) = case["extra"].as_str() {
        let tier = if case["tier"] == "thorough" { Tier::Thorough } else { Tier::Quick };
        return extra_sets(tier).into_iter().filter(|(t2, _)| t2 == tag).filter_map(|(_, files)| judge_files(&files, &mut t, files.len() <= 3)).map(|(sig, summary)| Violation { sig: format!("extra:{}", sig), summary, case: case.clone() }).collect();
    }
    if let Some(tag) = case["scale"].as_str() {
        return scale_sets().into_iter().filter(|(t2, _)| t2 == tag).filter_map(|(_, files)| judge_files(&files, &mut t, true)).map(|(sig, summary)| Violation { sig: format!("scale:{}", sig), summary, case: case.clone() }).collect();
    }
    let r = if let Some(n) = case["many"].as_u64() {
        let files: Vec<(String, Vec<u8>)> = (0..n as usize).map(|i| (format!("f{:05}", i), body(i % 4, i % 3))).collect();
        judge_files(&files, &mut t, false)
    } else {
        let c: Vec<(usize, usize)> = serde_json::from_value(case["case"].clone()).unwrap_or_default();
        if let Some(i) = case["after_single_call"].as_u64() {
            props::poison::single_call(i as usize);
            return judge_files(&files_of(&c), &mut t, false).map(|(sig, summary)| vec![Violation { sig: format!("after-single-call:{}", sig), summary, case: case.clone() }]).unwrap_or_default();
        }
        if case["after_failed_calls"].as_bool().unwrap_or(false) {
            props::poison::failing_calls();
            return judge_files(&files_of(&c), &mut t, true).map(|(sig, summary)| vec![Violation { sig: format!("after-failed-calls:{}", sig), summary, case: case.clone() }]).unwrap_or_default();
        }
        judge_files(&files_of(&c), &mut t, true)
    };
    match r {
        Some((sig, summary)) => vec![Violation { sig, summary, case: case.clone() }],
        None => vec![],
    }
}

fn main() {
    vcore::run_main(PropDef { id: "C15", level: "model_checking", both_builds: BothBuilds::ThoroughOnly, explore, replay, worker: None })
}
