//! C01 — bin archive content survives serialize → parse, for any conforming layout.
//! Engine E2: every archive content of the enumerated family, three oracles each.

use mila::BinArchive;
use props::{arch, binfam};
use rayon::prelude::*;
use serde_json::{json, Value};
use vcore::driver::{BothBuilds, Ctx, Outcome, PropDef, Violation};
use vcore::ref_bin::{self, Content};
use vcore::{util, Tally};

fn sig(oracle: &str, c: &Content) -> String {
    let kinds: Vec<&str> = binfam::features(c).into_iter().filter(|f| ["ptr", "str", "cstr", "label"].contains(f)).collect();
    format!("{}:[{}]", oracle, kinds.join(","))
}

/// Run the three oracles on one content. Returns (sig, summary) of the first failure.
fn judge(c: &Content, t: &mut Tally, with_layouts: bool) -> Option<(String, String)> {
    // build + serialize
    let img = match util::catch(|| arch::build(c, None).and_then(|a| a.serialize().map_err(|e| e.to_string()))) {
        Err(p) => return Some((format!("panic@{}", p.location), format!("build/serialize panicked: {}", p.message))),
        Ok(Err(e)) => return Some((sig("serialize-err", c), format!("building or serializing a domain archive failed: {}", e))),
        Ok(Ok(i)) => i,
    };
    t.calls += 2;
    // (a) round trip through mila's parser
    let back = match util::catch(|| BinArchive::from_bytes(&img, arch::endian(c.endian)).map(|a| arch::observe(&a)).map_err(|e| e.to_string())) {
        Err(p) => return Some((format!("panic@{}", p.location), format!("from_bytes(serialize()) panicked: {}", p.message))),
        Ok(Err(e)) => return Some((sig("reparse-err", c), format!("from_bytes rejects the library's own image: {}", e))),
        Ok(Ok(o)) => o,
    };
    let d = arch::diff_reparsed(&back, c);
    if !d.is_empty() {
        return Some((sig("roundtrip", c), format!("serialize→parse changed the content: {}", d.join("; "))));
    }
    // (b) image well-formedness by the reference parser
    let m = ref_bin::materialise_cstrings(c);
    match ref_bin::parse(&img, c.endian) {
        Err(e) => return Some((sig("image-malformed", c), format!("reference parser rejects the serialized image: {}", e))),
        Ok(p) => {
            let want_p = c.pointers.len() + c.strings.len() + c.cstrings.len();
            if p.pointer_count != want_p || p.label_count != c.label_count() {
                return Some((sig("image-counts", c), format!("header counts pointers={} labels={} but content has {} / {}", p.pointer_count, p.label_count, want_p, c.label_count())));
            }
            if p.data_size != m.size() {
                return Some((sig("image-data-size", c), format!("data size field {} != data {} + padded pool {}", p.data_size, c.size(), m.size() - c.size())));
            }
            if p.data_size % 4 != c.size() % 4 {
                return Some((sig("image-alignment", c), "tables are not word-aligned although the data is".into()));
            }
            // (the order of the c-string pool is left open)
            let dm = ref_bin::diff_materialised(&p.content.data, &p.content.strings, &p.content.pointers, c);
            if !dm.is_empty() || p.content.labels != m.labels {
                return Some((sig("image-content", c), format!("reference parser reads different content from the image: {}; strings {:?} pointers {:?} labels {:?}", dm.join("; "), p.content.strings, p.content.pointers, p.content.labels)));
            }
        }
    }
    // (c) layout independence
    if with_layouts && m.pointers.len() + m.strings.len() <= 3 && m.label_count() <= 3 {
        let fam = ref_bin::layout_family(&m, 3);
        for l in &fam {
            let bytes = ref_bin::write_layout(&m, l);
            t.calls += 1;
            let o = match util::catch(|| BinArchive::from_bytes(&bytes, arch::endian(c.endian)).map(|a| arch::observe(&a)).map_err(|e| e.to_string())) {
                Err(p) => return Some((format!("panic@{}", p.location), format!("from_bytes panicked on a conforming layout {:?}: {}", l, p.message))),
                Ok(Err(e)) => return Some((sig("layout-rejected", c), format!("from_bytes rejects a conforming layout {:?}: {}", l, e))),
                Ok(Ok(o)) => o,
            };
            let d = arch::diff_reparsed(&o, c);
            if !d.is_empty() {
                return Some((sig("layout-dependence", c), format!("content read from layout {:?} differs: {}", l, d.join("; "))));
            }
        }
        t.class_n("layouts-parsed", fam.len() as u64);
    }
    None
}

fn explore(ctx: &Ctx) -> Outcome {
    let mut total = Tally::new();
    let mut layers = Vec::new();
    for cfg in binfam::cfgs(ctx.tier, true) {
        for &l in &cfg.lengths {
            let n = binfam::count(&cfg, l);
            let t = (0..n)
                .into_par_iter()
                .fold(Tally::new, |mut t, i| {
                    let c = binfam::case_at(&cfg, l, i);
                    debug_assert!(c.in_roundtrip_domain());
                    t.cases += 1;
                    let f = binfam::features(&c);
                    if !f.is_empty() && f != ["BE"] {
                        t.nontrivial += 1;
                    }
                    if !c.cstrings.is_empty() && !c.strings.is_empty() {
                        t.class("has-cstring-and-string");
                    }
                    if let Some((sig, summary)) = judge(&c, &mut t, true) {
                        t.violate(sig, summary, binfam::describe(&c));
                    }
                    t
                })
                .reduce(Tally::new, Tally::merge);
            layers.push(json!({"data_length": l, "archives": n, "strings": cfg.strings, "completed": true}));
            total.absorb(t);
        }
    }
    // length sweep
    let sweep = binfam::length_sweep();
    let t = sweep
        .par_iter()
        .fold(Tally::new, |mut t, c| {
            t.cases += 1;
            t.nontrivial += 1;
            if let Some((sig, summary)) = judge(c, &mut t, true) {
                t.violate(sig, summary, binfam::describe(c));
            }
            t
        })
        .reduce(Tally::new, Tally::merge);
    layers.push(json!({"family": "length sweep: label name / string lengths 0..=48, shared or not", "archives": sweep.len(), "completed": true}));
    total.absorb(t);
    // long multi-byte strings at every alignment
    let mut mb = binfam::multibyte_alignment();
    mb.extend(binfam::kana_family());
    mb.extend(binfam::tricky_family());
    mb.extend(binfam::echo_family());
    mb.extend(binfam::collation_family());
    mb.extend(binfam::many_labels_family());
    mb.extend(binfam::pair_family());
    mb.extend(binfam::domain_family());
    mb.extend(binfam::palindromic_size_family());
    let (dl, dd) = ctx.tier.pick((300, 300), (1300, 4400));
    mb.extend(binfam::dense_family(dl, dd));
    mb.extend(binfam::long_string_family(ctx.tier.pick(4400, 20_000)));
    let t = mb
        .par_iter()
        .fold(Tally::new, |mut t, c| {
            t.cases += 1;
            t.nontrivial += 1;
            if let Some((sig, summary)) = judge(c, &mut t, true) {
                t.violate(sig, summary.chars().take(500).collect::<String>(), binfam::describe(c));
            }
            t
        })
        .reduce(Tally::new, Tally::merge);
    layers.push(json!({"family": format!("strings of 62..403 Shift-JIS bytes made of two-byte characters at byte alignments 0..3; the shared tricky-string catalogue ({} strings: trail byte 0x5C / 'n', half-width pairs valid as UTF-8, 2-byte-in-both-encodings + ASCII, IBM-extension kanji, one character per lead×trail byte class) in every role; collation-inversion label pairs; 3..=40 cells × 1..=3 unsorted labels; DENSE sweeps: every string/c-string/label length 0..={} and every data length 0..={}", vcore::sjis::tricky_strings().len(), dl, dd), "archives": mb.len(), "completed": true}));
    total.absorb(t);
    // call histories: a failing parse (every truncation of an image) followed by a good parse on one thread
    {
        let mut c = Content::new(vcore::ref_bin::End::Little);
        c.data = vec![0; 12];
        c.strings.insert(0, "first".into());
        c.pointers.insert(4, 8);
        c.cstrings.insert(8, "pool".into());
        c.labels.insert(0, vec!["Lab".into(), "Lab2".into()]);
        c.labels.insert(12, vec!["End".into()]);
        let img = ref_bin::write_canonical(&ref_bin::materialise_cstrings(&c));
        let mut t = Tally::new();
        for cut in 0..img.len() {
            let _ = util::catch(|| BinArchive::from_bytes(&img[..cut], arch::endian(c.endian)).map(|a| a.size()).map_err(|e| e.to_string()));
            t.cases += 1;
            t.nontrivial += 1;
            if let Some((sig, summary)) = judge(&c, &mut t, false) {
                t.violate(format!("after-failed-parse:{}", sig), format!("right after parsing the first {} bytes of an image: {}", cut, summary), json!({"after_cut": cut}));
                break;
            }
        }
        layers.push(json!({"family": "call histories: failing parse of every truncation, then a full round trip, on one thread", "cuts": img.len(), "completed": true}));
        total.absorb(t);
    }
    // state carried between calls: the fixed series of failing parses / failing serializations /
    // odd strings (props::poison) on the same thread right before representative cases
    {
        let mut t = Tally::new();
        let reps: Vec<Content> = binfam::kana_family().into_iter().chain(binfam::length_sweep().into_iter().step_by(29)).collect();
        for c in &reps {
            props::poison::failing_calls();
            t.cases += 1;
            t.nontrivial += 1;
            if let Some((sig, summary)) = judge(c, &mut t, true) {
                let mut cj = binfam::describe(c);
                cj["after_failed_calls"] = json!(true);
                t.violate(format!("after-failed-calls:{}", sig), summary.chars().take(500).collect::<String>(), cj);
            }
        }
        layers.push(json!({"family": "a fixed series of failing parses / failing serializations / odd strings on the same thread right before the case", "cases": reps.len(), "completed": true}));
        // each SINGLE call of the series immediately before a representative case
        let reps2: Vec<Content> = binfam::kana_family().into_iter().step_by(5).chain(binfam::length_sweep().into_iter().step_by(131)).collect();
        for i in 0..props::poison::count() {
            for c in &reps2 {
                props::poison::single_call(i);
                t.cases += 1;
                t.nontrivial += 1;
                if let Some((sig, summary)) = judge(c, &mut t, false) {
                    let mut cj = binfam::describe(c);
                    cj["after_single_call"] = json!(i);
                    t.violate(format!("after-single-call:{}", sig), format!("right after call #{} of the odd-call series: {}", i, summary.chars().take(500).collect::<String>()), cj);
                }
            }
        }
        layers.push(json!({"family": "each single call of the odd-call series immediately before a representative case", "calls": props::poison::count(), "representatives": reps2.len(), "completed": true}));
        total.absorb(t);
    }
    // large archives (tables and text beyond 64 KiB; a ladder of cell counts)
    let bigs = binfam::big_cases();
    let t = bigs
        .par_iter()
        .fold(Tally::new, |mut t, c| {
            t.cases += 1;
            t.nontrivial += 1;
            if let Some((sig, summary)) = judge(c, &mut t, false) {
                t.violate(format!("big:{}", sig), summary.chars().take(500).collect::<String>(), json!({"big": format!("{:?}/{} bytes", c.endian, c.size())}));
            }
            t
        })
        .reduce(Tally::new, Tally::merge);
    total.absorb(t);
    layers.push(json!({"family": "large archives (cell counts 100..20 000 on a 2^k±1 ladder, strings/pointers/labels interleaved)", "archives": bigs.len(), "completed": true}));
    let s = binfam::case_at(&binfam::cfgs(ctx.tier, true)[0], 8, 12345);
    total.sample(binfam::describe(&s));
    let mut o = total.into_outcome(
        "every archive content over: data length L in the listed set; each aligned cell ∈ {3 raw patterns (one looking like a string pointer), pointer→target, string s, c-string s}; up to two labelled addresses from {0,1,4,L-1,L} with name lists {[L0],[L0,L1],[a],[L1,L0]}; both endiannesses. Oracles per archive: (a) from_bytes(serialize()) observed through the public API equals the content model, (b) the image parses under the strict reference parser with exact totals, (c) from_bytes reads the same content from EVERY layout of the conforming family (table permutations × text order × shared/duplicated strings × lead pad) for archives with ≤3 pointer entries and ≤3 labels. non-trivial = at least one annotation",
        true,
        vec![("layers", json!(layers))],
    );
    o.assumptions = vec![
        "size equality with pending c-strings is read as: re-parsed size = size + padded pool (the format stores the pool inside the data region) — DESIGN §3 rule 3".into(),
        "strings come from a 6-string alphabet (3 at the quick tier) chosen to hit empty, one-word, multi-byte, half-width and label-colliding cases".into(),
    ];
    o
}

fn replay(_ctx: &Ctx, case: &Value) -> Vec<Violation> {
    if let Some(cut) = case["after_cut"].as_u64() {
        let mut c = Content::new(vcore::ref_bin::End::Little);
        c.data = vec![0; 12];
        c.strings.insert(0, "first".into());
        c.pointers.insert(4, 8);
        c.cstrings.insert(8, "pool".into());
        c.labels.insert(0, vec!["Lab".into(), "Lab2".into()]);
        c.labels.insert(12, vec!["End".into()]);
        let img = ref_bin::write_canonical(&ref_bin::materialise_cstrings(&c));
        let _ = util::catch(|| BinArchive::from_bytes(&img[..(cut as usize).min(img.len())], arch::endian(c.endian)).map(|a| a.size()).map_err(|e| e.to_string()));
        let mut t = Tally::new();
        return judge(&c, &mut t, false).map(|(sig, summary)| vec![Violation { sig: format!("after-failed-parse:{}", sig), summary, case: case.clone() }]).unwrap_or_default();
    }
    if let Some(tag) = case["big"].as_str() {
        let mut out = Vec::new();
        for c in binfam::big_cases() {
            if format!("{:?}/{} bytes", c.endian, c.size()) == tag {
                let mut t = Tally::new();
                if let Some((sig, summary)) = judge(&c, &mut t, false) {
                    out.push(Violation { sig: format!("big:{}", sig), summary, case: case.clone() });
                }
            }
        }
        return out;
    }
    let c = binfam::content_from_json(case);
    let mut t = Tally::new();
    if let Some(i) = case["after_single_call"].as_u64() {
        props::poison::single_call(i as usize);
        return judge(&c, &mut t, false).map(|(sig, summary)| vec![Violation { sig: format!("after-single-call:{}", sig), summary, case: case.clone() }]).unwrap_or_default();
    }
    if case["after_failed_calls"].as_bool().unwrap_or(false) {
        props::poison::failing_calls();
        return judge(&c, &mut t, true).map(|(sig, summary)| vec![Violation { sig: format!("after-failed-calls:{}", sig), summary, case: case.clone() }]).unwrap_or_default();
    }
    match judge(&c, &mut t, true) {
        Some((sig, summary)) => vec![Violation { sig, summary, case: case.clone() }],
        None => vec![],
    }
}

fn main() {
    vcore::run_main(PropDef { id: "C01", level: "model_checking", both_builds: BothBuilds::ThoroughOnly, explore, replay, worker: None })
}
