//! C11 — decompression is correct on every conforming stream and errors on the rest.
//! Engine E3 (chunked sweep in worker subprocesses), both builds.
//!
//! Conforming streams are produced by the reference *encoder* from arbitrary token
//! sequences (not what mila's compressor would choose); non-conforming ones are derived
//! from them (every strict prefix, references rewritten to point before the start of the
//! output, first byte replaced) plus short arbitrary byte strings.

use mila::{CompressionFormat, LZ10CompressionFormat, LZ13CompressionFormat};
use serde_json::{json, Value};
use std::time::Duration;
use vcore::driver::{BothBuilds, Ctx, Outcome, PropDef, Tier, Violation};
use vcore::isolate::{self, Family};
use vcore::ref_lz::{self, Kind, LzError, Token};
use vcore::{util, Tally};

#[derive(Clone, Debug)]
struct Spec {
    tag: String,
    kind: Kind,
    start: usize,
    lens: Vec<usize>,
    depth: usize,
    /// derive first-byte replacements for sequences up to this length
    first_byte_depth: usize,
}

const DISP_CHOICES: usize = 7;

fn specs(tier: Tier) -> Vec<Spec> {
    let mut v = Vec::new();
    let lz10_lens = vec![3, 4, 17, 18];
    let lz11_lens: Vec<usize> = match tier {
        // 4369 = 0x1111: the first length whose 4-byte form has a non-zero top nibble
        Tier::Quick => vec![3, 4, 16, 17, 18, 272, 273, 274, 4096, 4369],
        Tier::Thorough => vec![3, 4, 16, 17, 18, 272, 273, 274, 4096, 4369, 65808],
    };
    for &start in &[0usize, 1, 2, 17, 4095, 4096, 4097] {
        let small = start <= 17;
        let (d10, d11) = match (tier, small) {
            (Tier::Quick, true) => (4, 3),
            (Tier::Quick, false) => (2, 1),
            (Tier::Thorough, true) => (5, 3),
            (Tier::Thorough, false) => (3, 2),
        };
        v.push(Spec { tag: format!("lz10:s{}", start), kind: Kind::Lz10, start, lens: lz10_lens.clone(), depth: d10, first_byte_depth: 1 });
        v.push(Spec { tag: format!("lz11:s{}", start), kind: Kind::Lz11, start, lens: lz11_lens.clone(), depth: d11, first_byte_depth: 1 });
        if start <= 1 {
            // very long references (expansion ratios far above what mila's compressor produces)
            v.push(Spec { tag: format!("lz11long:s{}", start), kind: Kind::Lz11, start, lens: vec![12_288, 20_000, 65_808], depth: 2, first_byte_depth: 0 });
        }
        if small {
            // deeper sequences over a reduced length alphabet (one length per LZ11 form)
            let d = tier.pick(4, 5);
            v.push(Spec { tag: format!("lz11r:s{}", start), kind: Kind::Lz11, start, lens: vec![3, 17, 273, 4369], depth: d, first_byte_depth: 0 });
        }
    }
    v
}

fn radix(s: &Spec) -> u64 {
    1 + (s.lens.len() * DISP_CHOICES) as u64
}
fn spec_count(s: &Spec) -> u64 {
    (0..=s.depth).map(|l| radix(s).pow(l as u32)).sum()
}
fn choices_of(s: &Spec, mut idx: u64) -> Vec<usize> {
    let r = radix(s);
    let mut len = 0usize;
    loop {
        let c = r.pow(len as u32);
        if idx < c {
            break;
        }
        idx -= c;
        len += 1;
    }
    let mut v = vec![0usize; len];
    for i in (0..len).rev() {
        v[i] = (idx % r) as usize;
        idx /= r;
    }
    v
}

fn lit_at(produced: usize) -> u8 {
    (produced as u8).wrapping_mul(37).wrapping_add(11)
}

/// Build the token list (preamble literals + explored tokens); None if the choice vector
/// is invalid or a duplicate of another choice vector.
fn build_tokens(s: &Spec, choices: &[usize]) -> Option<(Vec<Token>, usize)> {
    let mut toks: Vec<Token> = (0..s.start).map(|i| Token::Lit(lit_at(i))).collect();
    let mut produced = s.start;
    for &c in choices {
        if c == 0 {
            toks.push(Token::Lit(lit_at(produced)));
            produced += 1;
        } else {
            let li = (c - 1) / DISP_CHOICES;
            let dj = (c - 1) % DISP_CHOICES;
            let cand: [i64; DISP_CHOICES] = [1, 2, 3, produced as i64 - 1, produced as i64, 4095, 4096];
            let d = cand[dj];
            if d < 1 || d as usize > produced.min(4096) {
                return None;
            }
            if cand[..dj].contains(&d) {
                return None; // same token as an earlier choice
            }
            let len = s.lens[li];
            toks.push(Token::Ref { len, disp: d as usize });
            produced += len;
        }
    }
    Some((toks, produced))
}

#[derive(Clone, Copy, Debug, PartialEq, Eq)]
enum Entry {
    Lz10,
    Lz10Enum,
    Lz13,
    Lz13Enum,
}
const ENTRIES: [Entry; 4] = [Entry::Lz10, Entry::Lz10Enum, Entry::Lz13, Entry::Lz13Enum];

impl Entry {
    fn is_lz13(self) -> bool {
        matches!(self, Entry::Lz13 | Entry::Lz13Enum)
    }
    fn call(self, b: &[u8]) -> Result<Result<Vec<u8>, String>, util::PanicInfo> {
        util::catch(|| match self {
            Entry::Lz10 => (LZ10CompressionFormat {}).decompress(b).map_err(|e| e.to_string()),
            Entry::Lz10Enum => CompressionFormat::LZ10(LZ10CompressionFormat {}).decompress(b).map_err(|e| e.to_string()),
            Entry::Lz13 => (LZ13CompressionFormat {}).decompress(b).map_err(|e| e.to_string()),
            Entry::Lz13Enum => CompressionFormat::LZ13(LZ13CompressionFormat {}).decompress(b).map_err(|e| e.to_string()),
        })
    }
}

enum Expect {
    Data(Vec<u8>),
    Err(&'static str),
    Open,
    /// an LZ10 stream behind the 0x13 wrapper: the statement does not say whether the LZ13
    /// entry point accepts it, but IF it does the data must be the encoded data
    DataOrErr(Vec<u8>),
}

fn expect_bare(bytes: &[u8], kind: Kind) -> Expect {
    match ref_lz::decode(bytes, kind, true) {
        Ok(d) => {
            if d.consumed == bytes.len() {
                Expect::Data(d.data)
            } else {
                // trailing bytes after a complete stream (alignment padding, an end marker): the
                // statement does not say whether that is accepted, but IF it is, the result must be
                // exactly the announced data
                Expect::DataOrErr(d.data)
            }
        }
        Err(LzError::TooShort) => Expect::Err("shorter-than-header"),
        Err(LzError::Truncated { .. }) => Expect::Err("truncated"),
        Err(LzError::RefBeforeStart { .. }) => Expect::Err("ref-before-start"),
        Err(LzError::BadType(_)) => Expect::Err("unknown-type"),
        Err(_) => Expect::Open, // overshoot etc.: not covered by the statement
    }
}

/// What the property demands of `entry` on `bytes`.
fn expectation(entry: Entry, bytes: &[u8]) -> Expect {
    if bytes.is_empty() {
        return Expect::Err("empty");
    }
    if bytes.len() < 4 {
        return Expect::Err("shorter-than-header");
    }
    if !entry.is_lz13() {
        return match bytes[0] {
            0x10 => expect_bare(bytes, Kind::Lz10),
            0x11 => Expect::Open, // an LZ11 stream at the LZ10 entry point: either outcome
            _ => Expect::Err("unknown-type"),
        };
    }
    match bytes[0] {
        0x00 => Expect::Data(bytes[4..].to_vec()),
        0x10 => expect_bare(bytes, Kind::Lz10),
        0x11 => expect_bare(bytes, Kind::Lz11),
        0x13 => {
            let inner = &bytes[4..];
            if inner.len() < 4 {
                return Expect::Err("truncated");
            }
            match inner[0] {
                0x11 => expect_bare(inner, Kind::Lz11),
                0x10 => match expect_bare(inner, Kind::Lz10) {
                    Expect::Data(d) => Expect::DataOrErr(d),
                    other => other, // truncated / reference before the start: an error whatever the wrapper
                },
                _ => Expect::Err("unknown-type"),
            }
        }
        _ => Expect::Err("unknown-type"),
    }
}

/// Run one (entry, bytes) pair against its expectation.
fn check(entry: Entry, bytes: &[u8], what: &str, t: &mut Tally) -> Option<(String, String)> {
    t.calls += 1;
    let exp = expectation(entry, bytes);
    let got = match entry.call(bytes) {
        Err(p) => {
            let cls = match &exp {
                Expect::Err(c) => *c,
                Expect::Data(_) => "conforming",
                Expect::Open => "unspecified",
                Expect::DataOrErr(_) => "wrapped-lz10-or-trailing-bytes",
            };
            return Some((
                format!("panic@{}:{}", p.location, cls),
                format!("{:?}.decompress panicked on {} ({} bytes, class {}): {}", entry, what, bytes.len(), cls, p.message),
            ));
        }
        Ok(r) => r,
    };
    match (exp, got) {
        (Expect::Open, _) => {
            t.class("unspecified-no-panic");
            None
        }
        (Expect::DataOrErr(_), Err(_)) => {
            t.class("open-acceptance:rejected");
            None
        }
        (Expect::DataOrErr(d), Ok(g)) => {
            if d == g {
                t.class("open-acceptance:ok");
                None
            } else {
                Some((format!("wrong-data:{:?}:open-acceptance", entry), format!("{:?}.decompress({}) accepted the input (an LZ10 stream behind the 0x13 wrapper / a stream followed by trailing bytes) but returned {} bytes that differ from the reference expansion ({} bytes)", entry, what, g.len(), d.len())))
            }
        }
        (Expect::Data(d), Ok(g)) => {
            if d == g {
                t.class("conforming-ok");
                None
            } else {
                Some((
                    format!("wrong-data:{:?}", entry),
                    format!("{:?}.decompress({}) returned {} bytes that differ from the reference expansion ({} bytes)", entry, what, g.len(), d.len()),
                ))
            }
        }
        (Expect::Data(d), Err(e)) => Some((
            format!("rejected-conforming:{:?}", entry),
            format!("{:?}.decompress({}) = Err({}) on a conforming stream expanding to {} bytes", entry, what, e, d.len()),
        )),
        (Expect::Err(c), Err(_)) => {
            t.class(&format!("err:{}", c));
            None
        }
        (Expect::Err(c), Ok(g)) => Some((
            format!("accepted:{}:{:?}", c, entry),
            format!("{:?}.decompress({}) = Ok({} bytes) but the input is {} and must be rejected", entry, what, g.len(), c),
        )),
    }
}

fn wrap13(s: &[u8]) -> Vec<u8> {
    let mut w = vec![0x13, 0xAB, 0xCD, 0xEF];
    w.extend_from_slice(s);
    w
}

fn run_stream_case(s: &Spec, idx: u64, t: &mut Tally) {
    let choices = choices_of(s, idx);
    let (toks, total) = match build_tokens(s, &choices) {
        None => {
            t.class("skipped-invalid-or-duplicate-choice");
            return;
        }
        Some(x) => x,
    };
    t.cases += 1;
    let case = |variant: String| json!({"family": s.tag, "index": idx, "variant": variant});
    let stream = ref_lz::encode(&toks, s.kind, total, None);
    let expected = ref_lz::expand(&[], &toks);
    debug_assert_eq!(expected.len(), total);
    // self-check of the generator against the reference decoder
    match ref_lz::decode(&stream, s.kind, false) {
        Ok(d) if d.data == expected => {}
        other => {
            t.violate("machinery:generator", format!("reference encoder/decoder disagree: {:?}", other.map(|d| d.data.len())), case("self-check".into()));
            return;
        }
    }
    let has_ref = toks.iter().any(|x| matches!(x, Token::Ref { .. }));
    if has_ref {
        t.nontrivial += 1;
    }
    for tok in &choices {
        if *tok != 0 {
            let li = (tok - 1) / DISP_CHOICES;
            t.class(&format!("{:?}:len={}", s.kind, s.lens[li]));
        }
    }
    let mut report = |r: Option<(String, String)>, variant: String, t: &mut Tally| {
        if let Some((sig, summary)) = r {
            t.violate(sig, summary, case(variant));
        }
    };
    // A. conforming
    let wrapped = wrap13(&stream);
    for e in ENTRIES {
        let r = check(e, &stream, "bare stream", t);
        report(r, "bare".into(), t);
        if e.is_lz13() {
            let r = check(e, &wrapped, "0x13-wrapped stream", t);
            report(r, "wrapped".into(), t);
        }
    }
    // A2. the same tokens behind the 8-byte LZ11 header (24-bit size 0, 32-bit size follows):
    // the format gives that form no minimum size
    if s.kind == Kind::Lz11 {
        let ext = ref_lz::encode_with_header(&toks, s.kind, total, None, true);
        for e in ENTRIES {
            if e.is_lz13() {
                let r = check(e, &ext, "bare stream with the 8-byte header", t);
                report(r, "ext".into(), t);
                let r = check(e, &wrap13(&ext), "0x13-wrapped stream with the 8-byte header", t);
                report(r, "wext".into(), t);
            }
        }
    }
    // A3. the conforming stream followed by padding (zero bytes to a 4- and 32-byte boundary, one
    // 0xFF end marker): accepted or not, never more than the announced data
    if choices.len() <= 3 {
        for (pi, pad) in [vec![0u8; (4 - stream.len() % 4) % 4 + 4], vec![0u8; 32 - stream.len() % 32], vec![0xFFu8]].iter().enumerate() {
            let mut p = stream.clone();
            p.extend_from_slice(pad);
            for e in ENTRIES {
                let r = check(e, &p, "conforming stream followed by padding", t);
                report(r, format!("padded:{}", pi), t);
            }
            let r = check(Entry::Lz13, &wrap13(&p), "wrapped stream followed by padding", t);
            report(r, format!("wpadded:{}", pi), t);
        }
    }
    // B1. strict prefixes
    let preamble_bytes = if s.start <= 17 { 0 } else { 4 + s.start + (s.start + 7) / 8 - 2 };
    let mut cuts: Vec<usize> = Vec::new();
    if s.start <= 17 {
        cuts.extend(0..stream.len());
    } else {
        cuts.extend((preamble_bytes.min(stream.len()))..stream.len());
        for k in 0..16 {
            cuts.push(k * preamble_bytes / 16);
        }
        cuts.sort();
        cuts.dedup();
    }
    for &c in &cuts {
        for e in [Entry::Lz10, Entry::Lz13] {
            let r = check(e, &stream[..c], "strict prefix of a conforming stream", t);
            report(r, format!("prefix:{}", c), t);
        }
        {
            let r = check(Entry::Lz13, &wrapped[..c + 4], "strict prefix of a wrapped stream", t);
            report(r, format!("wprefix:{}", c + 4), t);
        }
    }
    // B2. references rewritten to point before the start of the output
    let mut produced = 0usize;
    for (ti, tok) in toks.iter().enumerate() {
        match *tok {
            Token::Lit(_) => produced += 1,
            Token::Ref { len, .. } => {
                for k in [1usize, 2, 4096] {
                    let bad_disp = produced + k;
                    if bad_disp > 4096 {
                        continue;
                    }
                    let bad = ref_lz::encode(&toks, s.kind, total, Some((ti, bad_disp - 1)));
                    for e in [Entry::Lz10, Entry::Lz13] {
                        let r = check(e, &bad, "stream with a reference before the start of output", t);
                        report(r, format!("badref:{}:{}", ti, k), t);
                    }
                    {
                        let r = check(Entry::Lz13Enum, &wrap13(&bad), "wrapped stream with a reference before the start of output", t);
                        report(r, format!("wbadref:{}:{}", ti, k), t);
                    }
                }
                produced += len;
            }
        }
    }
    // B3. first byte replaced
    if choices.len() <= s.first_byte_depth && s.start <= 17 {
        let mut m = stream.clone();
        for v in 0..=255u8 {
            if v == stream[0] {
                continue;
            }
            m[0] = v;
            for e in [Entry::Lz10, Entry::Lz13] {
                let r = check(e, &m, "stream with its type byte replaced", t);
                report(r, format!("type:{}", v), t);
            }
            // the same replacement BEHIND the 0x13 wrapper (the inner stream's type byte)
            if s.kind == Kind::Lz11 && v != 0x10 {
                let w = wrap13(&m);
                let r = check(Entry::Lz13, &w, "wrapped stream with its inner type byte replaced", t);
                report(r, format!("inner-type:{}", v), t);
            }
        }
    }
}

// --- arbitrary short byte strings and the stored form -----------------------------------

const ARB_ALPHA: [u8; 7] = [0x00, 0x01, 0x10, 0x11, 0x13, 0x80, 0xFF];

fn arb_count() -> u64 {
    1 + 256 + 65536 + 7u64.pow(3) + 7u64.pow(4) + 7u64.pow(5)
}
fn arb_nth(mut i: u64) -> Vec<u8> {
    if i == 0 {
        return vec![];
    }
    i -= 1;
    if i < 256 {
        return vec![i as u8];
    }
    i -= 256;
    if i < 65536 {
        return vec![(i >> 8) as u8, i as u8];
    }
    i -= 65536;
    for l in 3..=5usize {
        let c = 7u64.pow(l as u32);
        if i < c {
            let mut v = vec![0u8; l];
            for k in (0..l).rev() {
                v[k] = ARB_ALPHA[(i % 7) as usize];
                i /= 7;
            }
            return v;
        }
        i -= c;
    }
    unreachable!()
}

/// stored form: `00 h1 h2 h3` + payload of length 0..=5, three header fillings, and all prefixes
fn stored_cases() -> Vec<Vec<u8>> {
    let mut v = Vec::new();
    for hdr in [[0u8, 0, 0], [5, 0, 0], [0xFF, 0xFF, 0xFF]] {
        for n in 0..=5usize {
            let mut s = vec![0u8];
            s.extend_from_slice(&hdr);
            s.extend((0..n).map(|i| 0x41 + i as u8));
            v.push(s);
        }
    }
    v
}

/// streams for the call-history family (decompress(x) then decompress(y) on one thread)
fn history_streams() -> Vec<Vec<u8>> {
    let lits: Vec<Token> = (0..9).map(|i| Token::Lit(i as u8 + 1)).collect();
    let mut with_ref = lits.clone();
    with_ref.push(Token::Ref { len: 300, disp: 9 });
    let lz10 = ref_lz::encode(&[Token::Lit(5), Token::Lit(6), Token::Ref { len: 18, disp: 2 }], Kind::Lz10, 20, None);
    let lz11 = ref_lz::encode(&with_ref, Kind::Lz11, 309, None);
    let mut v = vec![vec![], vec![0x10], lz10.clone(), lz11.clone(), wrap13(&lz11), vec![0, 0, 0, 0, 9, 9], lz10[..lz10.len() - 1].to_vec(), ref_lz::encode(&[Token::Lit(1), Token::Ref { len: 3, disp: 1 }], Kind::Lz10, 4, Some((1, 5))), ref_lz::encode(&[], Kind::Lz11, 0, None)];
    v.push(ref_lz::encode(&lits, Kind::Lz10, 9, None));
    // two streams of equal length with the same first and last bytes and one different byte in
    // the middle (a result cached under a cheap fingerprint of the previous stream would be reused)
    for kind in [Kind::Lz10, Kind::Lz11] {
        let mut a: Vec<Token> = (0..600).map(|i| Token::Lit((i * 7 % 251) as u8)).collect();
        v.push(ref_lz::encode(&a, kind, 600, None));
        a[300] = Token::Lit(0xEE);
        v.push(ref_lz::encode(&a, kind, 600, None));
    }
    v
}

const HUGE_REFS: [usize; 6] = [255, 256, 1000, 2040, 2041, 4100];

fn run_case(tier: Tier, fam: &str, idx: u64, t: &mut Tally) {
    if fam == "arb" {
        let b = arb_nth(idx);
        t.cases += 1;
        for e in ENTRIES {
            if let Some((sig, summary)) = check(e, &b, "arbitrary bytes", t) {
                t.violate(sig, summary, json!({"family": fam, "index": idx, "hex": util::hex(&b)}));
            }
        }
        return;
    }
    if fam == "ext" {
        let b = ext_nth(idx);
        t.cases += 1;
        for (e, bytes) in [(Entry::Lz13, b.clone()), (Entry::Lz13Enum, wrap13(&b)), (Entry::Lz10, b.clone())] {
            if let Some((sig, summary)) = check(e, &bytes, "LZ11 8-byte header with a short body", t) {
                t.violate(sig, summary, json!({"family": fam, "index": idx, "hex": util::hex(&bytes)}));
            }
        }
        return;
    }
    if fam == "lz11huge" {
        // LZ11 streams of 16 MiB and more use the 8-byte header (24-bit size 0, 32-bit size follows)
        // expansions of 16.0, 16.1, 63, 128.03 (just above 2^27), 128.1 and 257 MiB
        let refs = HUGE_REFS[idx as usize];
        let mut toks = vec![Token::Lit(0x5A)];
        for _ in 0..refs {
            toks.push(Token::Ref { len: 65_808, disp: 1 });
        }
        let total: usize = 1 + refs * 65_808;
        let stream = ref_lz::encode(&toks, Kind::Lz11, total, None);
        t.cases += 1;
        t.nontrivial += 1;
        if stream[1] != 0 || stream[2] != 0 || stream[3] != 0 {
            t.violate("machinery:generator", "the reference encoder did not use the extended header", json!({"family": fam, "index": idx}));
            return;
        }
        for (e, bytes, what) in [(Entry::Lz13, stream.clone(), "bare LZ11 stream with the 8-byte header"), (Entry::Lz13Enum, wrap13(&stream), "wrapped LZ11 stream with the 8-byte header")] {
            t.calls += 1;
            match e.call(&bytes) {
                Err(p) => t.violate(format!("panic@{}:huge", p.location), format!("{:?}.decompress panicked on a {}: {}", e, what, p.message), json!({"family": fam, "index": idx})),
                Ok(Err(err)) => t.violate(format!("rejected-conforming:{:?}:huge", e), format!("{:?}.decompress rejects a {} expanding to {} bytes: {}", e, what, total, err), json!({"family": fam, "index": idx})),
                Ok(Ok(out)) => {
                    if out.len() != total || out.iter().any(|b| *b != 0x5A) {
                        t.violate(format!("wrong-data:{:?}:huge", e), format!("{:?}.decompress of a {} returned {} bytes (expected {} × 0x5A)", e, what, out.len(), total), json!({"family": fam, "index": idx}));
                    } else {
                        t.class("conforming-ok");
                    }
                }
            }
        }
        return;
    }
    if fam == "densedisp" {
        // DENSE displacement sweep: d literals, then ONE reference of every displacement
        // 1..=4096 (each length form of the format), then two literals; and the same reference
        // reaching one byte before the start (must be rejected)
        const LENS10: [usize; 2] = [3, 18];
        const LENS11: [usize; 5] = [3, 16, 17, 272, 273];
        let d = (idx % 4096) as usize + 1;
        let li = (idx / 4096) as usize;
        let (kind, len) = if li < LENS10.len() { (Kind::Lz10, LENS10[li]) } else { (Kind::Lz11, LENS11[li - LENS10.len()]) };
        let mut toks: Vec<Token> = (0..d).map(|i| Token::Lit(lit_at(i))).collect();
        toks.push(Token::Ref { len, disp: d });
        toks.push(Token::Lit(0xE1));
        // ... then a reference reaching back as far as the format allows (to the very first byte
        // while the output is short): a decoder that miscounts what the probe produced rejects it
        let back = (d + len + 1).min(4096);
        toks.push(Token::Ref { len: 3, disp: back });
        toks.push(Token::Lit(0xE2));
        let total = d + len + 2 + 3;
        let good = ref_lz::encode(&toks, kind, total, None);
        t.cases += 1;
        t.nontrivial += 1;
        let entries: Vec<(Entry, Vec<u8>)> = match kind {
            Kind::Lz10 => vec![(Entry::Lz10, good.clone()), (Entry::Lz10Enum, good.clone()), (Entry::Lz13, good.clone())],
            Kind::Lz11 => vec![(Entry::Lz13, good.clone()), (Entry::Lz13Enum, wrap13(&good))],
        };
        for (e, bytes) in entries {
            if let Some((sig, summary)) = check(e, &bytes, &format!("{} literals then a reference of length {} at displacement {}", d, len, d), t) {
                t.violate(format!("{}:displacement-sweep", sig), summary, json!({"family": fam, "index": idx}));
            }
        }
        if d < 4096 {
            let bad = ref_lz::encode(&toks, kind, total, Some((d, d)));
            let entries: Vec<(Entry, Vec<u8>)> = match kind {
                Kind::Lz10 => vec![(Entry::Lz10, bad.clone()), (Entry::Lz13, bad.clone())],
                Kind::Lz11 => vec![(Entry::Lz13, bad.clone()), (Entry::Lz13Enum, wrap13(&bad))],
            };
            for (e, bytes) in entries {
                if let Some((sig, summary)) = check(e, &bytes, &format!("{} literals then a reference at displacement {} (one before the start)", d, d + 1), t) {
                    t.violate(format!("{}:displacement-sweep", sig), summary, json!({"family": fam, "index": idx}));
                }
            }
        }
        return;
    }
    if fam == "denselen" {
        // DENSE length sweep: 4 literals, ONE reference of every length the format can express
        // in its first two forms (and the last hundred of the third), at displacement 1 and 4
        let lens11: Vec<usize> = (3..=700usize).chain(65_700..=65_808).collect();
        let lens10: Vec<usize> = (3..=18).collect();
        let i = idx as usize;
        let (kind, len) = if i < lens10.len() * 2 { (Kind::Lz10, lens10[i / 2]) } else { (Kind::Lz11, lens11[(i - lens10.len() * 2) / 2]) };
        let d = if i % 2 == 0 { 1 } else { 4 };
        let mut toks: Vec<Token> = (0..4).map(|k| Token::Lit(lit_at(k))).collect();
        toks.push(Token::Ref { len, disp: d });
        toks.push(Token::Lit(0xE7));
        // ... then references reaching back 300 bytes and as far as the format allows
        let produced = 4 + len + 1;
        let mut total = produced;
        for back in [300usize, 4096] {
            let b = back.min(total);
            toks.push(Token::Ref { len: 3, disp: b });
            total += 3;
        }
        let good = ref_lz::encode(&toks, kind, total, None);
        t.cases += 1;
        t.nontrivial += 1;
        let entries: Vec<(Entry, Vec<u8>)> = match kind {
            Kind::Lz10 => vec![(Entry::Lz10, good.clone()), (Entry::Lz10Enum, good.clone()), (Entry::Lz13, good.clone())],
            Kind::Lz11 => vec![(Entry::Lz13, good.clone()), (Entry::Lz13Enum, wrap13(&good))],
        };
        for (e, bytes) in entries {
            if let Some((sig, summary)) = check(e, &bytes, &format!("4 literals then a reference of length {} at displacement {}", len, d), t) {
                t.violate(format!("{}:length-sweep", sig), summary, json!({"family": fam, "index": idx}));
            }
        }
        return;
    }
    if fam == "hist" {
        let all = history_streams();
        let n = all.len() as u64;
        let (x, y) = (&all[(idx / n) as usize], &all[(idx % n) as usize]);
        t.cases += 1;
        t.nontrivial += 1;
        for e in ENTRIES {
            let _ = e.call(x);
            if let Some((sig, summary)) = check(e, y, "a stream decompressed right after another call", t) {
                t.violate(format!("after-previous-call:{}", sig), summary, json!({"family": fam, "index": idx}));
            }
        }
        return;
    }
    if fam == "stored" {
        let all = stored_cases();
        let b = &all[idx as usize];
        t.cases += 1;
        t.nontrivial += 1;
        for e in [Entry::Lz13, Entry::Lz13Enum] {
            if let Some((sig, summary)) = check(e, b, "type-0 stored form", t) {
                t.violate(sig, summary, json!({"family": fam, "index": idx, "hex": util::hex(b)}));
            }
        }
        return;
    }
    let all = specs(tier);
    if let Some(s) = all.iter().find(|s| s.tag == fam) {
        run_stream_case(s, idx, t);
    }
}

/// LZ11 8-byte headers announcing 0 .. 16 MiB+1 bytes followed by every body of ≤ 4 bytes over
/// {00, 01, 10, 80, FF}: truncated / reference-before-start ⇒ Err, never a panic
const EXT_SIZES: [u32; 7] = [0, 1, 8, 0xFF_FFFF, 0x100_0000, 0x100_0001, 0x100_1000];
const EXT_ALPHA: [u8; 5] = [0x00, 0x01, 0x10, 0x80, 0xFF];
fn ext_count() -> u64 {
    EXT_SIZES.len() as u64 * (1 + 5 + 25 + 125 + 625)
}
fn ext_nth(mut i: u64) -> Vec<u8> {
    let size = EXT_SIZES[(i % EXT_SIZES.len() as u64) as usize];
    i /= EXT_SIZES.len() as u64;
    let mut len = 0usize;
    loop {
        let c = 5u64.pow(len as u32);
        if i < c {
            break;
        }
        i -= c;
        len += 1;
    }
    let mut v = vec![0x11, 0, 0, 0];
    v.extend_from_slice(&size.to_le_bytes());
    let mut body = vec![0u8; len];
    for k in (0..len).rev() {
        body[k] = EXT_ALPHA[(i % 5) as usize];
        i /= 5;
    }
    v.extend(body);
    v
}

fn families(tier: Tier) -> Vec<Family> {
    let mut f: Vec<Family> = specs(tier).iter().map(|s| Family::new(s.tag.clone(), spec_count(s))).collect();
    f.push(Family::new("arb", arb_count()));
    f.push(Family::new("ext", ext_count()));
    f.push(Family::new("stored", stored_cases().len() as u64));
    f.push(Family::new("lz11huge", HUGE_REFS.len() as u64));
    f.push(Family::new("densedisp", 4096 * 7));
    f.push(Family::new("denselen", 2 * (16 + 698 + 109)));
    let h = history_streams().len() as u64;
    f.push(Family::new("hist", h * h));
    f
}

fn explore(ctx: &Ctx) -> Outcome {
    let fams = families(ctx.tier);
    let args = vec!["--tier".to_string(), ctx.tier.name().to_string()];
    let res = isolate::sweep(&ctx.exe, &args, 16, &fams, 512, Duration::from_secs(30));
    let res = match res {
        Ok(r) => r,
        Err(e) => {
            let mut o = Outcome::default();
            o.machinery(format!("worker pool failed: {}", e));
            return o;
        }
    };
    let capped = res.capped.clone();
    let mut tally = res.tally;
    for f in &res.fatals {
        let (sig, summary) = isolate::describe_fatal("decompress", &f.status);
        tally.cases += 1;
        tally.violate(sig, format!("case {} #{}: {}", f.family, f.index, summary), json!({"family": f.family, "index": f.index, "fatal": true}));
    }
    tally.sample(json!({"family": "lz11:s2", "index": 57, "tokens": format!("{:?}", build_tokens(&specs(ctx.tier)[7], &choices_of(&specs(ctx.tier)[7], 57)).map(|x| x.0))}));
    tally.sample(json!({"family": "arb", "index": 70000, "hex": util::hex(&arb_nth(70000))}));
    let fam_json: Vec<Value> = fams.iter().map(|f| json!({"family": f.tag, "indices": f.count, "completed": true})).collect();
    let mut o = tally.into_outcome(
        "token-sequence families: from each start state (0,1,2,17,4095,4096,4097 bytes of literals) ALL sequences up to the stated depth over {literal} ∪ {reference(len, disp)} with the listed lengths and disp ∈ {1,2,3,produced-1,produced,4095,4096}, encoded by the reference encoder and fed to the four decompress entry points; derived from each: every strict prefix, every reference rewritten to point 1/2/4096 bytes before the start, type byte replaced by all 255 other values (short sequences); plus ALL byte strings of length ≤ 2, all strings of length 3..=5 over {00,01,10,11,13,80,FF} and the type-0 stored forms; non-trivial = stream with ≥ 1 reference (or stored form); evaluations count base cases, transitions count decompress calls",
        true,
        vec![("families", json!(fam_json)), ("worker_respawns", json!(res.respawns)), ("chunks", json!(res.chunks))],
    );
    if let Some(c) = &capped {
        o.coverage.exhaustive = false;
        o.warn(format!("sweep capped: {}", c));
    }
    o.assumptions = vec![
        "an LZ11 stream at the LZ10 entry point, an LZ10 stream inside the 0x13 wrapper, trailing bytes after the last token and references that overshoot the declared length are not covered by the statement: only 'no panic' is required there".into(),
        "declared lengths stay below 64 MiB (resource exhaustion is not a verdict)".into(),
    ];
    o
}

fn replay(ctx: &Ctx, case: &Value) -> Vec<Violation> {
    let fam = case["family"].as_str().unwrap_or("").to_string();
    let idx = case["index"].as_u64().unwrap_or(0);
    let args = vec!["--tier".to_string(), ctx.tier.name().to_string()];
    match isolate::sweep(&ctx.exe, &args, 1, &[Family::single(fam.clone(), idx)], 1, Duration::from_secs(30)) {
        Err(_) => vec![],
        Ok(res) => {
            let mut v: Vec<Violation> = res.tally.violations.into_iter().filter(|x| x.case["index"].as_u64() == Some(idx)).collect();
            for f in res.fatals.iter().filter(|f| f.index == idx) {
                let (sig, summary) = isolate::describe_fatal("decompress", &f.status);
                v.push(Violation { sig, summary, case: case.clone() });
            }
            v
        }
    }
}

fn worker(ctx: &Ctx) {
    let tier = ctx.tier;
    isolate::sweep_worker(move |fam, idx, t| run_case(tier, fam, idx, t));
}

fn main() {
    vcore::run_main(PropDef {
        id: "C11",
        level: "model_checking",
        both_builds: BothBuilds::Always,
        explore,
        replay,
        worker: Some(worker),
    })
}
