//! C04 — cell access is bounds-safe, endian-correct and local.
//! (a) Engine E2: grid of sizes × endians × accessors × addresses × lengths × values.
//! (b) Engine E1: BFS over (archive, reader cursor, writer cursor) interleaving stream and
//!     positional operations.   Both arithmetic builds.

use mila::{BinArchive, BinArchiveReader, BinArchiveWriter};
use props::arch;
use rayon::prelude::*;
use serde_json::{json, Value};
use std::sync::Arc;
use vcore::bfs::{self, Step, System};
use vcore::driver::{BothBuilds, Ctx, Outcome, PropDef, Tier, Violation};
use vcore::ref_bin::{Content, End};
use vcore::{util, Tally};

// ------------------------------------------------------------------------------------
// (a) grid

fn base_content(size: usize, e: End) -> Content {
    let mut c = Content::new(e);
    c.data = (0..size).map(|i| (i as u8).wrapping_mul(17).wrapping_add(3)).collect();
    if size >= 4 {
        c.strings.insert(0, "s".into());
    }
    if size >= 8 {
        c.pointers.insert(4, 0);
    }
    c.labels.insert(0, vec!["L".into()]);
    c
}

fn addresses(size: usize) -> Vec<usize> {
    let mut v: Vec<usize> = (0..=size + 2).collect();
    v.extend([(1usize << 31) - 1, 1 << 31, (1 << 31) + 1, (1usize << 32) - 1, 1 << 32, (1 << 32) + 1, isize::MAX as usize - 1, isize::MAX as usize, isize::MAX as usize + 1]);
    v.extend((usize::MAX - 8)..=usize::MAX);
    v.sort();
    v.dedup();
    v
}

fn in_range(addr: usize, len: usize, size: usize) -> bool {
    len > 0 && (addr as u128) + (len as u128) <= size as u128
}

const F32_BITS: [u32; 14] = [
    0x0000_0000, 0x8000_0000, 0x3F80_0000, 0xBF80_0000, 0x0000_0001, 0x7F80_0000, 0xFF80_0000, 0x7FC0_0000, 0x7F80_0001, 0x7FAA_AAAA, 0x7FBF_FFFF, 0xFFC0_0001,
    0xFF80_0001, 0x7FFF_FFFF,
];

fn patterns32() -> Vec<u32> {
    let mut v = vec![0, 0xFFFF_FFFF, 0x0102_0304, 0xA1B2_C3D4, 0x8000_0000, 0x7FFF_FFFF];
    for i in 0..32 {
        v.push(1 << i);
        v.push(!(1u32 << i));
    }
    v
}

#[derive(Clone, Copy, Debug, PartialEq, Eq)]
enum W {
    U8,
    I8,
    U16,
    I16,
    U32,
    I32,
    F32,
}
const WIDTHS: [W; 7] = [W::U8, W::I8, W::U16, W::I16, W::U32, W::I32, W::F32];
impl W {
    fn width(self) -> usize {
        match self {
            W::U8 | W::I8 => 1,
            W::U16 | W::I16 => 2,
            _ => 4,
        }
    }
}

fn enc(e: End, bits: u32, w: usize) -> Vec<u8> {
    let le = bits.to_le_bytes()[..w].to_vec();
    match e {
        End::Little => le,
        End::Big => le.into_iter().rev().collect(),
    }
}
fn dec(e: End, b: &[u8]) -> u32 {
    let mut v = 0u32;
    match e {
        End::Little => {
            for (i, x) in b.iter().enumerate() {
                v |= (*x as u32) << (8 * i);
            }
        }
        End::Big => {
            for x in b {
                v = (v << 8) | *x as u32;
            }
        }
    }
    v
}

fn typed_read(a: &BinArchive, w: W, addr: usize) -> Result<u32, String> {
    match w {
        W::U8 => a.read_u8(addr).map(|v| v as u32),
        W::I8 => a.read_i8(addr).map(|v| v as u8 as u32),
        W::U16 => a.read_u16(addr).map(|v| v as u32),
        W::I16 => a.read_i16(addr).map(|v| v as u16 as u32),
        W::U32 => a.read_u32(addr),
        W::I32 => a.read_i32(addr).map(|v| v as u32),
        W::F32 => a.read_f32(addr).map(|v| v.to_bits()),
    }
    .map_err(|e| e.to_string())
}
fn typed_write(a: &mut BinArchive, w: W, addr: usize, bits: u32) -> Result<(), String> {
    match w {
        W::U8 => a.write_u8(addr, bits as u8),
        W::I8 => a.write_i8(addr, bits as u8 as i8),
        W::U16 => a.write_u16(addr, bits as u16),
        W::I16 => a.write_i16(addr, bits as u16 as i16),
        W::U32 => a.write_u32(addr, bits),
        W::I32 => a.write_i32(addr, bits as i32),
        W::F32 => a.write_f32(addr, f32::from_bits(bits)),
    }
    .map_err(|e| e.to_string())
}

/// Display prefix of `ArchiveError::OutOfBoundsAddress`
const OOB: &str = "Out of bounds address";

struct GridCase {
    size: usize,
    e: End,
}

type V = Option<(String, String, Value)>;

fn case_json(size: usize, e: End, op: &str, addr: usize, extra: Value) -> Value {
    json!({"part": "grid", "size": size, "endian": format!("{:?}", e), "op": op, "addr": addr.to_string(), "extra": extra})
}

/// The whole grid for one (size, endian). Returns the first violation of each kind.
fn e_dummy(gc: &GridCase) -> End {
    gc.e
}
fn e_of(e: End) -> End {
    e
}

fn run_grid(gc: &GridCase, tier: Tier, t: &mut Tally, only: Option<(&str, usize)>) -> Vec<(String, String, Value)> {
    let (size, e) = (gc.size, gc.e);
    let base = base_content(size, e);
    let mut out: Vec<(String, String, Value)> = Vec::new();
    let mut push = |v: V, out: &mut Vec<(String, String, Value)>| {
        if let Some(x) = v {
            if out.iter().filter(|y| y.0 == x.0).count() < 2 {
                out.push(x);
            }
        }
    };
    // building the base archive uses only in-range writes: if that fails the property is
    // already violated (an in-range access was rejected)
    if let Err(e) = util::catch(|| arch::build(&base, None)).map_err(|p| p.message).and_then(|r| r) {
        out.push(("in-range-write-rejected:base-archive".into(), format!("building a {}-byte archive with write_bytes(0, ..), write_string, write_pointer, write_label failed: {}", size, e), case_json(size, e_of(e_dummy(gc)), "build", 0, json!("base"))));
        return out;
    }
    let fresh = || arch::build(&base, None).expect("build base");
    // the observation the whole grid relies on: the full-range read and every in-range
    // annotation read must succeed on the untouched base archive
    {
        let o = arch::observe(&fresh());
        let d = arch::diff_obs(&o, &base);
        if !d.is_empty() {
            out.push(("in-range-access-rejected:base-archive".into(), format!("observing an untouched {}-byte archive through in-range reads disagrees with what was written: {}", size, d.join("; ")), case_json(size, e, "observe", 0, json!("base"))));
            return out;
        }
    }
    let want = |op: &str, addr: usize| only.map_or(true, |(o, a)| o == op && a == addr);
    for &addr in &addresses(size) {
        // ---- typed reads and writes
        for w in WIDTHS {
            let opname = format!("{:?}", w);
            if !want(&opname, addr) {
                continue;
            }
            let ok = in_range(addr, w.width(), size);
            let a = fresh();
            t.calls += 1;
            t.cases += 1;
            let r = util::catch(|| typed_read(&a, w, addr));
            match r {
                Err(p) => push(Some((format!("panic@{}:read", p.location), format!("read_{:?}({}) on size {} panicked: {}", w, addr, size, p.message), case_json(size, e, &opname, addr, json!("read")))), &mut out),
                Ok(Ok(v)) => {
                    if !ok {
                        push(Some((format!("read-accepted-oob:{:?}", w), format!("read_{:?}({}) on size {} returned Ok({:#x}) but the range is outside the data", w, addr, size, v), case_json(size, e, &opname, addr, json!("read")))), &mut out);
                    } else {
                        let exp = dec(e, &base.data[addr..addr + w.width()]);
                        if v != exp {
                            push(Some((format!("read-value:{:?}:{:?}", w, e), format!("read_{:?}({}) = {:#x}, expected {:#x} ({:?})", w, addr, v, exp, e), case_json(size, e, &opname, addr, json!("read")))), &mut out);
                        }
                        t.nontrivial += 1;
                    }
                }
                Ok(Err(m)) => {
                    if ok {
                        push(Some((format!("read-rejected:{:?}", w), format!("read_{:?}({}) on size {} returned Err but the range lies inside the data", w, addr, size), case_json(size, e, &opname, addr, json!("read")))), &mut out);
                    } else if !m.starts_with(OOB) {
                        // the statement names the error: an out-of-bounds error
                        push(Some((format!("read-error-kind:{:?}", w), format!("read_{:?}({}) on size {} is out of range but the error is not an out-of-bounds error: {}", w, addr, size, m), case_json(size, e, &opname, addr, json!("read")))), &mut out);
                    }
                }
            }
            // writes: values
            let values: Vec<u32> = match w {
                W::U8 | W::I8 => (0..256).collect(),
                W::U16 | W::I16 => {
                    if ok || tier == Tier::Thorough {
                        (0..65536).collect()
                    } else {
                        vec![0, 1, 0x1234, 0xFFFF]
                    }
                }
                W::U32 | W::I32 => patterns32(),
                W::F32 => F32_BITS.to_vec(),
            };
            let mut a = fresh();
            let before = arch::observe(&a);
            for bits in values {
                t.calls += 2;
                t.cases += 1;
                let r = util::catch(|| typed_write(&mut a, w, addr, bits));
                let cj = || case_json(size, e, &opname, addr, json!({"write": bits}));
                match r {
                    Err(p) => {
                        push(Some((format!("panic@{}:write", p.location), format!("write_{:?}({}, {:#x}) on size {} panicked: {}", w, addr, bits, size, p.message), cj())), &mut out);
                        a = fresh();
                    }
                    Ok(Ok(())) => {
                        if !ok {
                            push(Some((format!("write-accepted-oob:{:?}", w), format!("write_{:?}({}, ..) on size {} returned Ok but the range is outside the data", w, addr, size), cj())), &mut out);
                            a = fresh();
                            continue;
                        }
                        let now = a.read_bytes(0, size).map(|b| b.to_vec()).unwrap_or_default();
                        let mut exp = base.data.clone();
                        exp[addr..addr + w.width()].copy_from_slice(&enc(e, bits, w.width()));
                        if now != exp {
                            push(Some((format!("write-layout:{:?}:{:?}", w, e), format!("write_{:?}({}, {:#x}) left bytes {} expected {}", w, addr, bits, util::hex(&now), util::hex(&exp)), cj())), &mut out);
                        }
                        match typed_read(&a, w, addr) {
                            Ok(v) if v == bits & (u32::MAX >> (32 - 8 * w.width())) => {}
                            other => push(Some((format!("write-read-mismatch:{:?}", w), format!("write_{:?}({}, {:#x}) then read gives {:?}", w, addr, bits, other), cj())), &mut out),
                        }
                        t.nontrivial += 1;
                        // restore
                        let _ = a.write_bytes(0, &base.data);
                    }
                    Ok(Err(m)) => {
                        if ok {
                            push(Some((format!("write-rejected:{:?}", w), format!("write_{:?}({}, ..) on size {} returned Err but the range lies inside the data", w, addr, size), cj())), &mut out);
                        } else if !m.starts_with(OOB) {
                            push(Some((format!("write-error-kind:{:?}", w), format!("write_{:?}({}, ..) on size {} is out of range but the error is not an out-of-bounds error: {}", w, addr, size, m), cj())), &mut out);
                        } else if arch::observe(&a) != before {
                            push(Some((format!("write-err-changed:{:?}", w), format!("write_{:?}({}, ..) returned Err and changed the archive", w, addr), cj())), &mut out);
                            a = fresh();
                        }
                    }
                }
            }
            // after all writes + restores the annotations must be untouched
            if arch::observe(&a) != before {
                push(Some((format!("write-disturbed-annotations:{:?}", w), format!("typed writes at {} disturbed annotations or other bytes", addr), case_json(size, e, &opname, addr, json!("after-writes")))), &mut out);
            }
        }
        // ---- read_bytes / write_bytes
        if want("bytes", addr) {
            let mut lens: Vec<usize> = (0..=size + 1).collect();
            lens.push(usize::MAX);
            for k in 0..=2usize {
                lens.push((usize::MAX - addr).wrapping_add(k));
            }
            lens.push(isize::MAX as usize);
            lens.sort();
            lens.dedup();
            let a = fresh();
            for &len in &lens {
                t.calls += 1;
                t.cases += 1;
                let ok = in_range(addr, len, size);
                let r = util::catch(|| a.read_bytes(addr, len).map(|b| b.to_vec()).map_err(|e| e.to_string()));
                let cj = || case_json(size, e, "bytes", addr, json!({"read_len": len.to_string()}));
                match r {
                    Err(p) => push(Some((format!("panic@{}:read_bytes", p.location), format!("read_bytes({}, {}) on size {} panicked: {}", addr, len, size, p.message), cj())), &mut out),
                    Ok(Ok(b)) => {
                        if len == 0 {
                            continue; // zero-length access: outcome open
                        }
                        if !ok {
                            push(Some(("read_bytes-accepted-oob".into(), format!("read_bytes({}, {}) on size {} returned Ok", addr, len, size), cj())), &mut out);
                        } else if b != base.data[addr..addr + len] {
                            push(Some(("read_bytes-value".into(), format!("read_bytes({}, {}) returned {}", addr, len, util::hex(&b)), cj())), &mut out);
                        } else {
                            t.nontrivial += 1;
                        }
                    }
                    Ok(Err(m)) => {
                        if ok {
                            push(Some(("read_bytes-rejected".into(), format!("read_bytes({}, {}) on size {} returned Err but the range lies inside the data", addr, len, size), cj())), &mut out);
                        } else if len > 0 && !m.starts_with(OOB) {
                            push(Some(("read_bytes-error-kind".into(), format!("read_bytes({}, {}) on size {} is out of range but the error is not an out-of-bounds error: {}", addr, len, size, m), cj())), &mut out);
                        }
                    }
                }
            }
            for len in 0..=size + 1 {
                let payload: Vec<u8> = (0..len).map(|i| 0xC0 + i as u8).collect();
                let mut a = fresh();
                let before = arch::observe(&a);
                t.calls += 1;
                t.cases += 1;
                let ok = in_range(addr, len, size);
                let r = util::catch(|| a.write_bytes(addr, &payload).map_err(|e| e.to_string()));
                let cj = || case_json(size, e, "bytes", addr, json!({"write_len": len}));
                match r {
                    Err(p) => push(Some((format!("panic@{}:write_bytes", p.location), format!("write_bytes({}, {} bytes) on size {} panicked: {}", addr, len, size, p.message), cj())), &mut out),
                    Ok(Ok(())) => {
                        if len == 0 {
                            if arch::observe(&a) != before {
                                push(Some(("write_bytes-empty-changed".into(), "write_bytes of an empty slice changed the archive".into(), cj())), &mut out);
                            }
                            continue;
                        }
                        if !ok {
                            push(Some(("write_bytes-accepted-oob".into(), format!("write_bytes({}, {} bytes) on size {} returned Ok", addr, len, size), cj())), &mut out);
                            continue;
                        }
                        let mut exp = before.clone();
                        exp.bytes[addr..addr + len].copy_from_slice(&payload);
                        if arch::observe(&a) != exp {
                            push(Some(("write_bytes-locality".into(), format!("write_bytes({}, {} bytes) changed something else than the addressed bytes", addr, len), cj())), &mut out);
                        } else {
                            t.nontrivial += 1;
                        }
                    }
                    Ok(Err(m)) => {
                        if ok {
                            push(Some(("write_bytes-rejected".into(), format!("write_bytes({}, {} bytes) on size {} returned Err but the range lies inside the data", addr, len, size), cj())), &mut out);
                        } else if len > 0 && !m.starts_with(OOB) {
                            push(Some(("write_bytes-error-kind".into(), format!("write_bytes({}, {} bytes) on size {} is out of range but the error is not an out-of-bounds error: {}", addr, len, size, m), cj())), &mut out);
                        } else if arch::observe(&a) != before {
                            push(Some(("write_bytes-err-changed".into(), format!("write_bytes({}, {} bytes) returned Err and changed the archive", addr, len), cj())), &mut out);
                        }
                    }
                }
            }
        }
        // ---- annotation accessors
        if want("annot", addr) {
            let cell_ok = in_range(addr, 4, size);
            let label_ok = (addr as u128) <= size as u128;
            type Acc = (&'static str, fn(&mut BinArchive, usize) -> Result<(), String>, bool);
            let accs: Vec<Acc> = vec![
                ("read_string", |a, x| a.read_string(x).map(|_| ()).map_err(|e| e.to_string()), false),
                ("read_pointer", |a, x| a.read_pointer(x).map(|_| ()).map_err(|e| e.to_string()), false),
                ("read_labels", |a, x| a.read_labels(x).map(|_| ()).map_err(|e| e.to_string()), false),
                ("write_string", |a, x| a.write_string(x, Some("w")).map_err(|e| e.to_string()), false),
                ("write_string_none", |a, x| a.write_string(x, None).map_err(|e| e.to_string()), false),
                ("write_pointer", |a, x| a.write_pointer(x, Some(0)).map_err(|e| e.to_string()), false),
                ("write_pointer_none", |a, x| a.write_pointer(x, None).map_err(|e| e.to_string()), false),
                ("write_c_string", |a, x| a.write_c_string(x, "c".to_string()).map_err(|e| e.to_string()), false),
                ("delete_string", |a, x| a.delete_string(x).map_err(|e| e.to_string()), false),
                ("delete_pointer", |a, x| a.delete_pointer(x).map_err(|e| e.to_string()), false),
                ("write_label", |a, x| a.write_label(x, "n").map_err(|e| e.to_string()), true),
                ("write_labels", |a, x| a.write_labels(x, vec!["n".to_string(), "m".to_string()]).map_err(|e| e.to_string()), true),
            ];
            for (name, f, is_label) in accs {
                let mut a = fresh();
                let before = arch::observe(&a);
                t.calls += 1;
                t.cases += 1;
                let r = util::catch(|| f(&mut a, addr));
                let cj = || case_json(size, e, "annot", addr, json!(name));
                let must_ok = if is_label { label_ok } else { cell_ok };
                match r {
                    Err(p) => push(Some((format!("panic@{}:{}", p.location, name), format!("{}({}) on size {} panicked: {}", name, addr, size, p.message), cj())), &mut out),
                    Ok(res) => {
                        let after = arch::observe(&a);
                        if after.bytes != before.bytes || after.size != before.size {
                            push(Some((format!("annotation-disturbed-bytes:{}", name), format!("{}({}) changed raw bytes", name, addr), cj())), &mut out);
                        }
                        match res {
                            Ok(()) => {
                                if !must_ok {
                                    push(Some((format!("{}-accepted-oob", name), format!("{}({}) on size {} returned Ok but the address is outside", name, addr, size), cj())), &mut out);
                                } else {
                                    t.nontrivial += 1;
                                }
                            }
                            Err(_) => {
                                if must_ok {
                                    push(Some((format!("{}-rejected", name), format!("{}({}) on size {} returned Err but the address is valid", name, addr, size), cj())), &mut out);
                                }
                                if after != before {
                                    push(Some((format!("{}-err-changed", name), format!("{}({}) returned Err and changed the archive", name, addr), cj())), &mut out);
                                }
                            }
                        }
                    }
                }
            }
            // label accessors whose outcome on the last three addresses is open: no panic, bytes untouched
            for (name, f) in [
                ("delete_labels", (|a: &mut BinArchive, x: usize| a.delete_labels(x).map_err(|e| e.to_string())) as fn(&mut BinArchive, usize) -> Result<(), String>),
                ("delete_label", |a, x| a.delete_label(x, 0).map_err(|e| e.to_string())),
                ("read_c_string", |a, x| a.read_c_string(x).map(|_| ()).map_err(|e| e.to_string())),
            ] {
                let mut a = fresh();
                let before = arch::observe(&a);
                t.calls += 1;
                t.cases += 1;
                let cj = || case_json(size, e, "annot", addr, json!(name));
                match util::catch(|| f(&mut a, addr)) {
                    Err(p) => push(Some((format!("panic@{}:{}", p.location, name), format!("{}({}) on size {} panicked: {}", name, addr, size, p.message), cj())), &mut out),
                    Ok(res) => {
                        let after = arch::observe(&a);
                        if after.bytes != before.bytes {
                            push(Some((format!("annotation-disturbed-bytes:{}", name), format!("{}({}) changed raw bytes", name, addr), cj())), &mut out);
                        }
                        if res.is_ok() && !((addr as u128) <= size as u128) {
                            push(Some((format!("{}-accepted-oob", name), format!("{}({}) on size {} returned Ok", name, addr, size), cj())), &mut out);
                        }
                        if res.is_err() && cell_ok && name != "read_c_string" {
                            push(Some((format!("{}-rejected", name), format!("{}({}) on size {} returned Err but the cell is valid", name, addr, size), cj())), &mut out);
                        }
                        if res.is_err() && after != before {
                            push(Some((format!("{}-err-changed", name), format!("{}({}) returned Err and changed the archive", name, addr), cj())), &mut out);
                        }
                    }
                }
            }
        }
    }
    out
}

// ------------------------------------------------------------------------------------
// (a') the same oracle on one large archive: addresses and lengths beyond 255 and 65 535

fn run_large(e: End, t: &mut Tally) -> Vec<(String, String, Value)> {
    const SIZE: usize = 70_000;
    let mut out: Vec<(String, String, Value)> = Vec::new();
    let mut base = Content::new(e);
    base.data = (0..SIZE).map(|i| (i as u8).wrapping_mul(31).wrapping_add(7) ^ (i >> 8) as u8).collect();
    base.strings.insert(65_536, "far".into());
    base.pointers.insert(65_540, 65_536);
    base.labels.insert(65_544, vec!["FarLabel".into()]);
    let cj = |op: &str, addr: usize, extra: Value| json!({"part": "large", "endian": format!("{:?}", e), "op": op, "addr": addr.to_string(), "extra": extra});
    let mut a = match util::catch(|| arch::build(&base, None)) {
        Ok(Ok(a)) => a,
        other => {
            out.push(("in-range-write-rejected:large-archive".into(), format!("building a {}-byte archive failed: {:?}", SIZE, other.map(|r| r.map(|_| ()))), cj("build", 0, json!(null))));
            return out;
        }
    };
    let d = arch::diff_obs(&arch::observe(&a), &base);
    if !d.is_empty() {
        out.push(("large-archive:observation".into(), format!("a {}-byte archive does not read back what was written: {}", SIZE, d[0].chars().take(300).collect::<String>()), cj("observe", 0, json!(null))));
        return out;
    }
    let mut addrs: Vec<usize> = vec![0, 1];
    addrs.extend(252..=258);
    addrs.extend(65_532..=65_538);
    addrs.extend(SIZE - 5..=SIZE + 1);
    for &addr in &addrs {
        for w in WIDTHS {
            t.cases += 1;
            t.calls += 3;
            let ok = in_range(addr, w.width(), SIZE);
            let bits = 0xA1B2_C3D4u32 ^ addr as u32;
            let r = util::catch(|| {
                let rd = typed_read(&a, w, addr);
                let wr = typed_write(&mut a, w, addr, bits);
                let back = typed_read(&a, w, addr);
                (rd, wr, back)
            });
            match r {
                Err(p) => out.push((format!("panic@{}:large", p.location), format!("{:?} access at {} of a {}-byte archive panicked: {}", w, addr, SIZE, p.message), cj(&format!("{:?}", w), addr, json!(null)))),
                Ok((rd, wr, back)) => {
                    if ok {
                        let want = dec(e, &base.data[addr..addr + w.width()]);
                        let mask = u32::MAX >> (32 - 8 * w.width());
                        if rd != Ok(want) || wr.is_err() || back != Ok(bits & mask) {
                            out.push((format!("large-archive:{:?}", w), format!("{:?} at {} of a {}-byte archive: read {:?} (expected {:#x}), write {:?}, read-back {:?} (expected {:#x})", w, addr, SIZE, rd, want, wr, back, bits & mask), cj(&format!("{:?}", w), addr, json!(null))));
                        }
                        // locality: everything else untouched
                        let now = a.read_bytes(0, SIZE).map(|b| b.to_vec()).unwrap_or_default();
                        let mut exp = base.data.clone();
                        exp[addr..addr + w.width()].copy_from_slice(&enc(e, bits, w.width()));
                        if now != exp {
                            let first = now.iter().zip(exp.iter()).position(|(x, y)| x != y);
                            out.push((format!("large-archive:locality:{:?}", w), format!("write_{:?} at {} changed other bytes (first difference at {:?})", w, addr, first), cj(&format!("{:?}", w), addr, json!(null))));
                        }
                        let _ = a.write_bytes(0, &base.data);
                        t.nontrivial += 1;
                    } else if rd.is_ok() || wr.is_ok() {
                        out.push((format!("large-archive:accepted-oob:{:?}", w), format!("{:?} at {} of a {}-byte archive was accepted", w, addr, SIZE), cj(&format!("{:?}", w), addr, json!(null))));
                        let _ = a.write_bytes(0, &base.data);
                    }
                }
            }
        }
        for len in [1usize, 255, 256, 257, 65_535, 65_536, 65_537, SIZE.saturating_sub(addr), SIZE.saturating_sub(addr) + 1] {
            t.cases += 1;
            t.calls += 2;
            let ok = in_range(addr, len, SIZE);
            let payload: Vec<u8> = (0..len).map(|i| 0x5A ^ i as u8).collect();
            let r = util::catch(|| {
                let rd = a.read_bytes(addr, len).map(|b| b.to_vec()).map_err(|e| e.to_string());
                let wr = a.write_bytes(addr, &payload).map_err(|e| e.to_string());
                (rd, wr)
            });
            match r {
                Err(p) => out.push((format!("panic@{}:large", p.location), format!("byte-range access ({}, {}) on a {}-byte archive panicked: {}", addr, len, SIZE, p.message), cj("bytes", addr, json!(len)))),
                Ok((rd, wr)) => {
                    if ok {
                        let now = a.read_bytes(0, SIZE).map(|b| b.to_vec()).unwrap_or_default();
                        let mut exp = base.data.clone();
                        exp[addr..addr + len].copy_from_slice(&payload);
                        if rd.as_deref() != Ok(&base.data[addr..addr + len]) || wr.is_err() || now != exp {
                            out.push(("large-archive:bytes".into(), format!("read_bytes/write_bytes({}, {}) on a {}-byte archive: read ok={} write={:?} locality={}", addr, len, SIZE, rd.as_deref() == Ok(&base.data[addr..addr + len]), wr, now == exp), cj("bytes", addr, json!(len))));
                        }
                        let _ = a.write_bytes(0, &base.data);
                        t.nontrivial += 1;
                    } else if rd.is_ok() || wr.is_ok() {
                        out.push(("large-archive:bytes-accepted-oob".into(), format!("byte-range access ({}, {}) on a {}-byte archive was accepted", addr, len, SIZE), cj("bytes", addr, json!(len))));
                        let _ = a.write_bytes(0, &base.data);
                    }
                }
            }
        }
        // streams at a far cursor
        t.cases += 1;
        t.calls += 2;
        let r = util::catch(|| {
            let mut rdr = BinArchiveReader::new(&a, addr);
            let v = rdr.read_u32().map_err(|e| e.to_string());
            (v, rdr.tell())
        });
        match r {
            Err(p) => out.push((format!("panic@{}:large", p.location), format!("stream read_u32 at {} panicked: {}", addr, p.message), cj("stream", addr, json!(null)))),
            Ok((v, tell)) => {
                let ok = in_range(addr, 4, SIZE);
                let want_tell = if ok { addr + 4 } else { addr };
                if v.is_ok() != ok || tell != want_tell || (ok && v != Ok(dec(e, &base.data[addr..addr + 4]))) {
                    out.push(("large-archive:stream".into(), format!("reader at {}: read_u32 = {:?}, cursor afterwards {} (expected {})", addr, v, tell, want_tell), cj("stream", addr, json!(null))));
                }
            }
        }
    }
    // annotations beyond 65 535 survived all of the above
    let d = arch::diff_obs(&arch::observe(&a), &base);
    if !d.is_empty() {
        out.push(("large-archive:annotations".into(), format!("annotations at 65 536.. were disturbed: {}", d[0].chars().take(300).collect::<String>()), cj("observe", 0, json!("after"))));
    }
    out
}

// ------------------------------------------------------------------------------------
// (b) cursor interleavings

#[derive(Clone, Debug, PartialEq, Eq, Hash, serde::Serialize, serde::Deserialize)]
enum Cop {
    RSeek(usize),
    RSkip,
    RRead(u8),      // index into WIDTHS
    RReadBytes(usize),
    RReadString,
    RReadPointer,
    RReadCString,
    RReadLabel(usize),
    RReadLabels,
    WSeek(usize),
    WSkip,
    WWrite(u8),
    WWriteBytes(usize),
    WWriteString,
    WWriteStringNone,
    WWritePointerNone,
    WWritePointer,
    WWriteCString,
    WWriteLabel,
    // positional calls interleaved
    PWriteU16(usize),
    PWriteString(usize),
    PDeletePointer(usize),
}

#[derive(Clone, Debug, PartialEq, Eq, Hash)]
struct CState {
    model: Content,
    rc: usize,
    wc: usize,
}

struct CSys {
    init: Content,
}

const WVAL: [u32; 7] = [0x5A, 0xA5, 0x1234, 0xFEDC, 0x0102_0304, 0xF1E2_D3C4, 0x7FAA_AAAA];

impl CSys {
    fn rebuild(&self, hist: &[Cop]) -> (BinArchive, usize, usize) {
        let mut a = arch::build(&self.init, None).expect("building the 9-byte cursor archive failed (in-range writes rejected)");
        let (mut rc, mut wc) = (0usize, 0usize);
        for op in hist {
            let _ = apply_cop(&mut a, &mut rc, &mut wc, op);
        }
        (a, rc, wc)
    }
}

#[derive(Debug, Clone, PartialEq)]
enum Ret {
    Unit,
    Val(u32),
    Bytes(Vec<u8>),
    OptStr(Option<String>),
    OptPtr(Option<usize>),
    OptLabels(Option<Vec<String>>),
}

/// Execute one op on the real objects. Returns Ok(ret)/Err(msg).
fn apply_cop(a: &mut BinArchive, rc: &mut usize, wc: &mut usize, op: &Cop) -> Result<Ret, String> {
    let es = |e: mila::ArchiveError| e.to_string();
    match op {
        Cop::RSeek(p) => {
            let mut r = BinArchiveReader::new(a, *rc);
            r.seek(*p);
            *rc = r.tell();
            Ok(Ret::Unit)
        }
        Cop::RSkip => {
            let mut r = BinArchiveReader::new(a, *rc);
            r.skip(1);
            *rc = r.tell();
            Ok(Ret::Unit)
        }
        Cop::WSeek(p) => {
            let mut w = BinArchiveWriter::new(a, *wc);
            w.seek(*p);
            *wc = w.tell();
            Ok(Ret::Unit)
        }
        Cop::WSkip => {
            let mut w = BinArchiveWriter::new(a, *wc);
            w.skip(1);
            *wc = w.tell();
            Ok(Ret::Unit)
        }
        Cop::RRead(i) => {
            let mut r = BinArchiveReader::new(a, *rc);
            let v = match WIDTHS[*i as usize] {
                W::U8 => r.read_u8().map(|v| v as u32),
                W::I8 => r.read_i8().map(|v| v as u8 as u32),
                W::U16 => r.read_u16().map(|v| v as u32),
                W::I16 => r.read_i16().map(|v| v as u16 as u32),
                W::U32 => r.read_u32(),
                W::I32 => r.read_i32().map(|v| v as u32),
                W::F32 => r.read_f32().map(|v| v.to_bits()),
            };
            *rc = r.tell();
            v.map(Ret::Val).map_err(es)
        }
        Cop::RReadBytes(k) => {
            let mut r = BinArchiveReader::new(a, *rc);
            let v = r.read_bytes(*k);
            *rc = r.tell();
            v.map(Ret::Bytes).map_err(es)
        }
        Cop::RReadString => {
            let mut r = BinArchiveReader::new(a, *rc);
            let v = r.read_string();
            *rc = r.tell();
            v.map(Ret::OptStr).map_err(es)
        }
        Cop::RReadPointer => {
            let mut r = BinArchiveReader::new(a, *rc);
            let v = r.read_pointer();
            *rc = r.tell();
            v.map(Ret::OptPtr).map_err(es)
        }
        Cop::RReadCString => {
            let mut r = BinArchiveReader::new(a, *rc);
            let v = r.read_c_string();
            *rc = r.tell();
            v.map(Ret::OptStr).map_err(es)
        }
        Cop::RReadLabel(i) => {
            let mut r = BinArchiveReader::new(a, *rc);
            let v = r.read_label(*i);
            *rc = r.tell();
            v.map(Ret::OptStr).map_err(es)
        }
        Cop::RReadLabels => {
            let mut r = BinArchiveReader::new(a, *rc);
            let v = r.read_labels();
            *rc = r.tell();
            v.map(Ret::OptLabels).map_err(es)
        }
        Cop::WWrite(i) => {
            let mut w = BinArchiveWriter::new(a, *wc);
            let bits = WVAL[*i as usize];
            let v = match WIDTHS[*i as usize] {
                W::U8 => w.write_u8(bits as u8),
                W::I8 => w.write_i8(bits as u8 as i8),
                W::U16 => w.write_u16(bits as u16),
                W::I16 => w.write_i16(bits as u16 as i16),
                W::U32 => w.write_u32(bits),
                W::I32 => w.write_i32(bits as i32),
                W::F32 => w.write_f32(f32::from_bits(bits)),
            };
            *wc = w.tell();
            v.map(|_| Ret::Unit).map_err(es)
        }
        Cop::WWriteBytes(k) => {
            let mut w = BinArchiveWriter::new(a, *wc);
            let payload: Vec<u8> = (0..*k).map(|i| 0xD0 + i as u8).collect();
            let v = w.write_bytes(&payload);
            *wc = w.tell();
            v.map(|_| Ret::Unit).map_err(es)
        }
        Cop::WWriteString => {
            let mut w = BinArchiveWriter::new(a, *wc);
            let v = w.write_string(Some("ws"));
            *wc = w.tell();
            v.map(|_| Ret::Unit).map_err(es)
        }
        Cop::WWriteStringNone => {
            let mut w = BinArchiveWriter::new(a, *wc);
            let v = w.write_string(None);
            *wc = w.tell();
            v.map(|_| Ret::Unit).map_err(es)
        }
        Cop::WWritePointerNone => {
            let mut w = BinArchiveWriter::new(a, *wc);
            let v = w.write_pointer(None);
            *wc = w.tell();
            v.map(|_| Ret::Unit).map_err(es)
        }
        Cop::WWritePointer => {
            let mut w = BinArchiveWriter::new(a, *wc);
            let v = w.write_pointer(Some(0));
            *wc = w.tell();
            v.map(|_| Ret::Unit).map_err(es)
        }
        Cop::WWriteCString => {
            let mut w = BinArchiveWriter::new(a, *wc);
            let v = w.write_c_string("wc".to_string());
            *wc = w.tell();
            v.map(|_| Ret::Unit).map_err(es)
        }
        Cop::WWriteLabel => {
            let mut w = BinArchiveWriter::new(a, *wc);
            let v = w.write_label("wl");
            *wc = w.tell();
            v.map(|_| Ret::Unit).map_err(es)
        }
        Cop::PWriteU16(x) => a.write_u16(*x, 0xBEEF).map(|_| Ret::Unit).map_err(es),
        Cop::PWriteString(x) => a.write_string(*x, Some("ps")).map(|_| Ret::Unit).map_err(es),
        Cop::PDeletePointer(x) => a.delete_pointer(*x).map(|_| Ret::Unit).map_err(es),
    }
}

/// Model: expected (result, new state). `None` result = outcome open.
fn model_cop(s: &CState, op: &Cop) -> (Option<Result<Ret, ()>>, CState) {
    let mut n = s.clone();
    let size = s.model.size();
    let e = s.model.endian;
    let cell = |c: usize| in_range(c, 4, size);
    match op {
        Cop::RSeek(p) => {
            n.rc = *p;
            (Some(Ok(Ret::Unit)), n)
        }
        Cop::RSkip => {
            n.rc = s.rc + 1;
            (Some(Ok(Ret::Unit)), n)
        }
        Cop::WSeek(p) => {
            n.wc = *p;
            (Some(Ok(Ret::Unit)), n)
        }
        Cop::WSkip => {
            n.wc = s.wc + 1;
            (Some(Ok(Ret::Unit)), n)
        }
        Cop::RRead(i) => {
            let w = WIDTHS[*i as usize].width();
            if in_range(s.rc, w, size) {
                n.rc = s.rc + w;
                (Some(Ok(Ret::Val(dec(e, &s.model.data[s.rc..s.rc + w])))), n)
            } else {
                (Some(Err(())), n)
            }
        }
        Cop::RReadBytes(k) => {
            if *k == 0 {
                return (None, n);
            }
            if in_range(s.rc, *k, size) {
                n.rc = s.rc + k;
                (Some(Ok(Ret::Bytes(s.model.data[s.rc..s.rc + k].to_vec()))), n)
            } else {
                (Some(Err(())), n)
            }
        }
        Cop::RReadString => {
            if cell(s.rc) {
                n.rc = s.rc + 4;
                (Some(Ok(Ret::OptStr(s.model.strings.get(&s.rc).cloned()))), n)
            } else {
                (Some(Err(())), n)
            }
        }
        Cop::RReadPointer => {
            if cell(s.rc) {
                n.rc = s.rc + 4;
                (Some(Ok(Ret::OptPtr(s.model.pointers.get(&s.rc).cloned()))), n)
            } else {
                (Some(Err(())), n)
            }
        }
        Cop::RReadCString => {
            if !cell(s.rc) {
                return (Some(Err(())), n);
            }
            match s.model.pointers.get(&s.rc) {
                None => {
                    n.rc = s.rc + 4;
                    (Some(Ok(Ret::OptStr(None))), n)
                }
                Some(_) => (None, n), // value depends on the pointed-to bytes; outcome judged by cursor rule only
            }
        }
        Cop::RReadLabel(i) => {
            if cell(s.rc) {
                (Some(Ok(Ret::OptStr(s.model.labels.get(&s.rc).and_then(|b| b.get(*i).cloned())))), n)
            } else {
                (None, n) // label reads near / past the end: open, but must not move the cursor
            }
        }
        Cop::RReadLabels => {
            if cell(s.rc) {
                (Some(Ok(Ret::OptLabels(s.model.labels.get(&s.rc).cloned()))), n)
            } else {
                (None, n)
            }
        }
        Cop::WWrite(i) => {
            let w = WIDTHS[*i as usize].width();
            if in_range(s.wc, w, size) {
                n.model.data[s.wc..s.wc + w].copy_from_slice(&enc(e, WVAL[*i as usize], w));
                n.wc = s.wc + w;
                (Some(Ok(Ret::Unit)), n)
            } else {
                (Some(Err(())), n)
            }
        }
        Cop::WWriteBytes(k) => {
            if *k == 0 {
                return (None, n);
            }
            if in_range(s.wc, *k, size) {
                for i in 0..*k {
                    n.model.data[s.wc + i] = 0xD0 + i as u8;
                }
                n.wc = s.wc + k;
                (Some(Ok(Ret::Unit)), n)
            } else {
                (Some(Err(())), n)
            }
        }
        Cop::WWriteString | Cop::WWriteStringNone | Cop::WWritePointer | Cop::WWritePointerNone | Cop::WWriteCString => {
            if cell(s.wc) {
                match op {
                    Cop::WWriteString => {
                        n.model.strings.insert(s.wc, "ws".into());
                    }
                    Cop::WWriteStringNone => {
                        n.model.strings.remove(&s.wc);
                    }
                    Cop::WWritePointer => {
                        n.model.pointers.insert(s.wc, 0);
                    }
                    Cop::WWritePointerNone => {
                        n.model.pointers.remove(&s.wc);
                    }
                    _ => {
                        n.model.cstrings.insert(s.wc, "wc".into());
                    }
                }
                n.wc = s.wc + 4;
                (Some(Ok(Ret::Unit)), n)
            } else {
                (Some(Err(())), n)
            }
        }
        Cop::WWriteLabel => {
            if (s.wc as u128) <= size as u128 {
                n.model.labels.entry(s.wc).or_default().push("wl".into());
                (Some(Ok(Ret::Unit)), n)
            } else {
                (Some(Err(())), n)
            }
        }
        Cop::PWriteU16(x) => {
            if in_range(*x, 2, size) {
                n.model.data[*x..*x + 2].copy_from_slice(&enc(e, 0xBEEF, 2));
                (Some(Ok(Ret::Unit)), n)
            } else {
                (Some(Err(())), n)
            }
        }
        Cop::PWriteString(x) => {
            if cell(*x) {
                n.model.strings.insert(*x, "ps".into());
                (Some(Ok(Ret::Unit)), n)
            } else {
                (Some(Err(())), n)
            }
        }
        Cop::PDeletePointer(x) => {
            if cell(*x) {
                n.model.pointers.remove(x);
                (Some(Ok(Ret::Unit)), n)
            } else {
                (Some(Err(())), n)
            }
        }
    }
}

impl System for CSys {
    type State = (CState, Arc<Vec<Cop>>);
    type Key = CState;
    type Action = Cop;
    fn init(&self) -> Vec<Self::State> {
        vec![(CState { model: self.init.clone(), rc: 0, wc: 0 }, Arc::new(vec![]))]
    }
    fn key(&self, s: &Self::State) -> CState {
        s.0.clone()
    }
    fn actions(&self, s: &Self::State) -> Vec<Cop> {
        let size = s.0.model.size();
        let mut v = Vec::new();
        for p in [0usize, 1, size - 1, size, size + 1, usize::MAX] {
            v.push(Cop::RSeek(p));
            v.push(Cop::WSeek(p));
        }
        if s.0.rc < usize::MAX - 8 {
            v.push(Cop::RSkip);
        }
        if s.0.wc < usize::MAX - 8 {
            v.push(Cop::WSkip);
        }
        for i in 0..7u8 {
            v.push(Cop::RRead(i));
            v.push(Cop::WWrite(i));
        }
        for k in 0..=3usize {
            v.push(Cop::RReadBytes(k));
            v.push(Cop::WWriteBytes(k));
        }
        v.extend([Cop::RReadString, Cop::RReadPointer, Cop::RReadCString, Cop::RReadLabel(0), Cop::RReadLabel(1), Cop::RReadLabels]);
        // keep one annotation per cell: string/pointer/c-string writes only onto compatible cells
        let m = &s.0.model;
        let wc = s.0.wc;
        let (hs, hp, hc) = (m.strings.contains_key(&wc), m.pointers.contains_key(&wc), m.cstrings.contains_key(&wc));
        let overlaps = |c: usize| m.strings.keys().chain(m.pointers.keys()).chain(m.cstrings.keys()).any(|k| *k != c && (*k as i64 - c as i64).abs() < 4);
        if !overlaps(wc) {
            if !hp && !hc {
                v.push(Cop::WWriteString);
            }
            if !hs && !hc {
                v.push(Cop::WWritePointer);
            }
            if !hs && !hp && !hc {
                v.push(Cop::WWriteCString);
            }
        }
        v.push(Cop::WWriteStringNone);
        v.push(Cop::WWritePointerNone);
        v.push(Cop::WWriteLabel);
        v.push(Cop::PWriteU16(1));
        if !overlaps(4) && !m.pointers.contains_key(&4) && !m.cstrings.contains_key(&4) {
            v.push(Cop::PWriteString(4));
        }
        v.push(Cop::PDeletePointer(4));
        v
    }
    fn step(&self, s: &Self::State, history: &[Cop], op: &Cop) -> Step<Self::State> {
        let (exp, next) = model_cop(&s.0, op);
        let kind = format!("{:?}", op).split('(').next().unwrap_or("?").to_string();
        let real = util::catch(|| {
            let (mut a, mut rc, mut wc) = self.rebuild(history);
            let before = arch::observe(&a);
            let r = apply_cop(&mut a, &mut rc, &mut wc, op);
            (r, rc, wc, before, arch::observe(&a))
        });
        let (r, rc, wc, before, after) = match real {
            Err(p) => return Step::Violation { sig: format!("panic@{}:{}", p.location, kind), summary: format!("{:?} at reader {} / writer {} panicked: {}", op, s.0.rc, s.0.wc, p.message), witnesses: 0 },
            Ok(x) => x,
        };
        let fail = |sig: String, summary: String| Step::Violation { sig, summary, witnesses: 0 };
        let mut w = 0u64;
        let state_after = match (&exp, &r) {
            (Some(Ok(want)), Ok(got)) => {
                if want != got {
                    return fail(format!("stream-value:{}", kind), format!("{:?} at cursor r={} w={} returned {:?}, the positional call gives {:?}", op, s.0.rc, s.0.wc, got, want));
                }
                next.clone()
            }
            (Some(Ok(_)), Err(e)) => return fail(format!("stream-rejected:{}", kind), format!("{:?} at cursor r={} w={} returned Err({}) but the access lies inside the data", op, s.0.rc, s.0.wc, e)),
            (Some(Err(())), Ok(got)) => return fail(format!("stream-accepted-oob:{}", kind), format!("{:?} at cursor r={} w={} returned Ok({:?}) but the access is outside the data", op, s.0.rc, s.0.wc, got)),
            (Some(Err(())), Err(_)) => {
                w |= 1;
                if after != before {
                    return fail(format!("stream-err-changed:{}", kind), format!("{:?} at cursor r={} w={} returned Err and changed the archive", op, s.0.rc, s.0.wc));
                }
                next.clone()
            }
            (None, res) => {
                // open outcome: cursor rule still applies
                let mut n = s.0.clone();
                match op {
                    Cop::RReadCString => {
                        if res.is_ok() {
                            n.rc += 4;
                        }
                    }
                    Cop::RReadBytes(0) | Cop::WWriteBytes(0) | Cop::RReadLabel(_) | Cop::RReadLabels => {}
                    _ => {}
                }
                if after != before {
                    return fail(format!("stream-open-changed:{}", kind), format!("{:?} changed the archive", op));
                }
                n
            }
        };
        if rc != state_after.rc || wc != state_after.wc {
            return fail(
                format!("cursor:{}:{}", kind, if r.is_ok() { "ok" } else { "err" }),
                format!("{:?} ({}) moved the cursors to r={} w={}, expected r={} w={} (from r={} w={})", op, if r.is_ok() { "Ok" } else { "Err" }, rc, wc, state_after.rc, state_after.wc, s.0.rc, s.0.wc),
            );
        }
        let d = arch::diff_obs(&after, &state_after.model);
        if !d.is_empty() {
            return fail(format!("stream-effect:{}", kind), format!("after {:?} at r={} w={}: {}", op, s.0.rc, s.0.wc, d.join("; ")));
        }
        if matches!(op, Cop::RReadLabel(_) | Cop::RReadLabels | Cop::WWriteLabel) {
            w |= 2;
        }
        let mut h = (*s.1).clone();
        h.push(op.clone());
        Step::Next { state: (state_after, Arc::new(h)), witnesses: w }
    }
    fn witness_names(&self) -> Vec<&'static str> {
        vec!["stream access rejected out of bounds, nothing changed", "label access leaves the cursor in place"]
    }
}

fn cursor_init(e: End) -> Content {
    let mut c = Content::new(e);
    c.data = vec![0x10, 0x21, 0x32, 0x43, 0x54, 0x65, 0x76, 0x87, 0x98];
    c.strings.insert(0, "s".into());
    c.pointers.insert(4, 0);
    c.labels.insert(4, vec!["A".into(), "B".into()]);
    c
}


// ------------------------------------------------------------------------------------
// (c) ONE reader / writer object kept alive across a whole sequence of accesses (state kept
// inside the stream object — a look-ahead window, a cached bound — must not change results)

#[derive(Clone, Copy, Debug, PartialEq, Eq)]
enum Sop {
    U8,
    U16,
    U32,
    I16,
    F32,
    Bytes(usize),
    Skip(usize),
    SeekRel(isize),
    /// writer only: `allocate(n, false)` at the cursor (the reader skips it)
    Alloc(usize),
    /// reader only: annotation reads at the cursor, compared with the positional call there
    /// (read_labels, read_label(0), read_label(1)); they never move the cursor
    Labels,
    Label(usize),
}
const SOPS: [Sop; 15] = [Sop::U8, Sop::U16, Sop::U32, Sop::I16, Sop::F32, Sop::Bytes(3), Sop::Bytes(5), Sop::Skip(1), Sop::Skip(61), Sop::SeekRel(-2), Sop::SeekRel(62), Sop::Alloc(8), Sop::Labels, Sop::Label(0), Sop::Label(1)];

/// labels on the archives of the stream sequences: every 4th byte up to 60 and around 64/128,
/// one or two names each (distinct per address)
fn annotate_for_streams(a: &mut BinArchive) {
    let size = a.size();
    for addr in (0..size.min(140)).step_by(4) {
        if addr % 12 == 8 {
            continue;
        }
        let _ = a.write_label(addr, &format!("L{}", addr));
        if addr % 8 == 4 {
            let _ = a.write_label(addr, &format!("M{}", addr));
        }
    }
}

/// one annotation read through a reader, compared with the positional call at its cursor
fn label_step(r: &mut mila::BinArchiveReader, a: &BinArchive, cur: usize, op: &Sop) -> Option<String> {
    match op {
        Sop::Labels => {
            let got = r.read_labels().map_err(|x| x.to_string());
            let want = a.read_labels(cur).map_err(|x| x.to_string());
            if got.is_ok() != want.is_ok() || (got.is_ok() && got != want) {
                return Some(format!("reader.read_labels() at cursor {} = {:?}, the positional read_labels({}) = {:?}", cur, got, cur, want));
            }
        }
        Sop::Label(i) => {
            let got = r.read_label(*i).map_err(|x| x.to_string());
            let want = a.read_labels(cur).map(|b| b.and_then(|v| v.get(*i).cloned())).map_err(|x| x.to_string());
            if got.is_ok() != want.is_ok() || (got.is_ok() && got != want) {
                return Some(format!("reader.read_label({}) at cursor {} = {:?}, the positional bucket gives {:?}", i, cur, got, want));
            }
        }
        _ => {}
    }
    if r.tell() != cur {
        return Some(format!("an annotation read moved the cursor from {} to {}", cur, r.tell()));
    }
    None
}

fn stream_bytes(size: usize) -> Vec<u8> {
    (0..size).map(|i| ((i * 37 + i / 256 * 11 + 5) % 251) as u8).collect()
}

/// run one sequence on a single reader and a single writer; compare every step with the positional model
fn run_stream_seq(a: &mut BinArchive, data: &mut Vec<u8>, e: End, start: usize, seq: &[Sop], t: &mut Tally) -> Option<(String, String)> {
    let size = data.len();
    // ---- reader
    {
        let a_ro: &BinArchive = a;
        let mut r = mila::BinArchiveReader::new(a_ro, start);
        let mut cur = start;
        for (k, op) in seq.iter().enumerate() {
            t.calls += 1;
            let width = match op {
                Sop::U8 => 1,
                Sop::U16 | Sop::I16 => 2,
                Sop::U32 | Sop::F32 => 4,
                Sop::Bytes(n) => *n,
                Sop::Skip(n) => {
                    r.skip(*n);
                    cur += n;
                    continue;
                }
                Sop::SeekRel(d) => {
                    cur = (cur as isize + d).max(0) as usize;
                    r.seek(cur);
                    continue;
                }
                Sop::Alloc(_) => continue,
                Sop::Labels | Sop::Label(_) => {
                    if let Some(msg) = label_step(&mut r, a_ro, cur, op) {
                        return Some(("long-lived-reader:labels".into(), format!("one reader on a {}-byte archive started at {}, sequence {:?}, step {}: {}", size, start, seq, k, msg)));
                    }
                    continue;
                }
            };
            let ok = in_range(cur, width, size);
            let got: Result<Vec<u8>, String> = match op {
                Sop::U8 => r.read_u8().map(|v| vec![v]).map_err(|x| x.to_string()),
                Sop::U16 => r.read_u16().map(|v| enc(e, v as u32, 2)).map_err(|x| x.to_string()),
                Sop::I16 => r.read_i16().map(|v| enc(e, v as u16 as u32, 2)).map_err(|x| x.to_string()),
                Sop::U32 => r.read_u32().map(|v| enc(e, v, 4)).map_err(|x| x.to_string()),
                Sop::F32 => r.read_f32().map(|v| enc(e, v.to_bits(), 4)).map_err(|x| x.to_string()),
                Sop::Bytes(n) => r.read_bytes(*n).map_err(|x| x.to_string()),
                _ => unreachable!(),
            };
            match (&got, ok) {
                (Ok(b), true) if *b == data[cur..cur + width] => cur += width,
                (Err(_), false) => {}
                _ => {
                    return Some((
                        format!("long-lived-reader:{:?}", op).split('(').next().unwrap().to_string(),
                        format!("one reader on a {}-byte archive started at {}, sequence {:?}: step {} ({:?}) at cursor {} returned {:?}, the positional access gives {}", size, start, seq, k, op, cur, got.as_ref().map(|b| util::hex(b)), if ok { util::hex(&data[cur..cur + width]) } else { "Err".into() }),
                    ))
                }
            }
            if r.tell() != cur {
                return Some(("long-lived-reader:cursor".into(), format!("one reader started at {}, sequence {:?}: after step {} the cursor is {} instead of {}", start, seq, k, r.tell(), cur)));
            }
        }
    }
    // ---- writer (values derived from the step index, archive compared with the model afterwards)
    {
        let mut w = mila::BinArchiveWriter::new(a, start);
        let mut cur = start;
        for (k, op) in seq.iter().enumerate() {
            t.calls += 1;
            let v: u32 = 0xC0DE_0000u32.wrapping_add((k as u32) << 8).wrapping_add(start as u32).rotate_left(k as u32 * 7);
            let (width, bytes): (usize, Vec<u8>) = match op {
                Sop::U8 => (1, vec![v as u8]),
                Sop::U16 | Sop::I16 => (2, enc(e, v & 0xFFFF, 2)),
                Sop::U32 => (4, enc(e, v, 4)),
                Sop::F32 => (4, enc(e, f32::from_bits(v).to_bits(), 4)),
                Sop::Bytes(n) => (*n, (0..*n).map(|i| (v as u8).wrapping_add(i as u8)).collect()),
                Sop::Skip(n) => {
                    w.skip(*n);
                    cur += n;
                    continue;
                }
                Sop::SeekRel(d) => {
                    cur = (cur as isize + d).max(0) as usize;
                    w.seek(cur);
                    continue;
                }
                Sop::Labels | Sop::Label(_) => continue,
                Sop::Alloc(n) => {
                    // insert n zero bytes at the cursor (appending at the end is always accepted;
                    // elsewhere the cursor must be an aligned address inside the data)
                    let size_now = data.len();
                    let valid = cur == size_now || (cur < size_now && cur % 4 == 0 && size_now % 4 == 0);
                    let got = w.allocate(*n, false).map_err(|x| x.to_string());
                    match (&got, valid) {
                        (Ok(()), true) => {
                            let at = cur;
                            for _ in 0..*n {
                                data.insert(at, 0);
                            }
                        }
                        (Err(_), false) => {}
                        (Ok(()), false) if cur < size_now && cur % 4 == 0 => {
                            // unaligned data SIZE with an aligned cursor: the statement speaks of the
                            // request, not of the archive's size; mirror the accepted insert
                            for _ in 0..*n {
                                data.insert(cur, 0);
                            }
                        }
                        _ => return Some(("long-lived-writer:allocate".into(), format!("one writer started at {}, sequence {:?}: step {} allocate({}) at cursor {} of {} bytes returned {:?}", start, seq, k, n, cur, size_now, got))),
                    }
                    if w.tell() != cur || w.size() != data.len() {
                        return Some(("long-lived-writer:allocate".into(), format!("one writer started at {}, sequence {:?}: after allocate the cursor is {} (expected {}) and size() {} (expected {})", start, seq, w.tell(), cur, w.size(), data.len())));
                    }
                    continue;
                }
            };
            let size = data.len();
            let ok = in_range(cur, width, size);
            let got = match op {
                Sop::U8 => w.write_u8(v as u8),
                Sop::U16 => w.write_u16(v as u16),
                Sop::I16 => w.write_i16(v as u16 as i16),
                Sop::U32 => w.write_u32(v),
                Sop::F32 => w.write_f32(f32::from_bits(v)),
                Sop::Bytes(_) => w.write_bytes(&bytes),
                _ => unreachable!(),
            }
            .map_err(|x| x.to_string());
            match (&got, ok) {
                (Ok(()), true) => {
                    // f32 NaN payloads survive bit for bit (C04 grid decides that); here the value is written as given
                    data[cur..cur + width].copy_from_slice(&bytes);
                    cur += width;
                }
                (Err(_), false) => {}
                _ => return Some((format!("long-lived-writer:{:?}", op).split('(').next().unwrap().to_string(), format!("one writer on a {}-byte archive started at {}, sequence {:?}: step {} ({:?}) at cursor {} returned {:?} but the access is {}", size, start, seq, k, op, cur, got, if ok { "inside the data" } else { "outside the data" }))),
            }
            if w.tell() != cur {
                return Some(("long-lived-writer:cursor".into(), format!("one writer started at {}, sequence {:?}: after step {} the cursor is {} instead of {}", start, seq, k, w.tell(), cur)));
            }
        }
    }
    let size = data.len();
    match a.read_bytes(0, size) {
        Ok(b) if b == &data[..] && a.size() == size => None,
        _ => Some(("long-lived-writer:bytes".into(), format!("after the writer sequence {:?} from {} the archive bytes differ from the model", seq, start))),
    }
}

fn stream_case(size: usize, e: End, start: usize, seq: &[Sop], t: &mut Tally) -> Option<(String, String)> {
    let mut data = stream_bytes(size);
    let r = util::catch(|| {
        let mut a = BinArchive::new(arch::endian(e));
        a.allocate_at_end(size);
        a.write_bytes(0, &data).map_err(|x| x.to_string())?;
        annotate_for_streams(&mut a);
        Ok::<_, String>(run_stream_seq(&mut a, &mut data, e, start, seq, t))
    });
    match r {
        Err(p) => Some((format!("panic@{}:long-lived-stream", p.location), format!("sequence {:?} from {} on a {}-byte archive panicked: {}", seq, start, size, p.message))),
        Ok(Err(x)) => Some(("machinery:stream-setup".into(), x)),
        Ok(Ok(v)) => v,
    }
}

/// TWO readers alive at once — one on the archive under test, one on a second archive with other
/// bytes and the other endianness — take the steps of a sequence in turn (reader 1 step 0, reader
/// 2 step 0, reader 1 step 1, ...): each must behave like the positional access at ITS cursor on
/// ITS archive (a cursor or a scratch buffer kept outside the reader object shows only here).
fn two_reader_case(size: usize, e: End, start: usize, seq: &[Sop], t: &mut Tally) -> Option<(String, String)> {
    let r = util::catch(|| -> Result<Option<(String, String)>, String> {
        let e2 = if e == End::Little { End::Big } else { End::Little };
        let datas = [stream_bytes(size), stream_bytes(size + 7).into_iter().rev().collect::<Vec<u8>>()];
        let mut a1 = BinArchive::new(arch::endian(e));
        a1.allocate_at_end(datas[0].len());
        a1.write_bytes(0, &datas[0]).map_err(|x| x.to_string())?;
        let mut a2 = BinArchive::new(arch::endian(e2));
        a2.allocate_at_end(datas[1].len());
        a2.write_bytes(0, &datas[1]).map_err(|x| x.to_string())?;
        annotate_for_streams(&mut a1);
        annotate_for_streams(&mut a2);
        let _ = a2.write_label(0, "only-in-the-second-archive");
        let archives = [&a1, &a2];
        let start2 = (start * 7 + 3) % (size + 9);
        let mut readers = [mila::BinArchiveReader::new(&a1, start), mila::BinArchiveReader::new(&a2, start2)];
        let mut curs = [start, start2];
        let ends = [e, e2];
        for (k, op) in seq.iter().enumerate() {
            for which in 0..2 {
                t.calls += 1;
                let r = &mut readers[which];
                let cur = &mut curs[which];
                let data = &datas[which];
                let width = match op {
                    Sop::U8 => 1,
                    Sop::U16 | Sop::I16 => 2,
                    Sop::U32 | Sop::F32 => 4,
                    Sop::Bytes(n) => *n,
                    Sop::Skip(n) => {
                        r.skip(*n);
                        *cur += n;
                        continue;
                    }
                    Sop::SeekRel(d) => {
                        *cur = (*cur as isize + d).max(0) as usize;
                        r.seek(*cur);
                        continue;
                    }
                    Sop::Alloc(_) => continue,
                    Sop::Labels | Sop::Label(_) => {
                        if let Some(msg) = label_step(r, archives[which], *cur, op) {
                            return Ok(Some(("two-readers:labels".into(), format!("two readers alive, sequence {:?} taken in turn from {} / {}: reader {} step {}: {}", seq, start, start2, which + 1, k, msg))));
                        }
                        continue;
                    }
                };
                let ok = in_range(*cur, width, data.len());
                let en = ends[which];
                let got: Result<Vec<u8>, String> = match op {
                    Sop::U8 => r.read_u8().map(|v| vec![v]).map_err(|x| x.to_string()),
                    Sop::U16 => r.read_u16().map(|v| enc(en, v as u32, 2)).map_err(|x| x.to_string()),
                    Sop::I16 => r.read_i16().map(|v| enc(en, v as u16 as u32, 2)).map_err(|x| x.to_string()),
                    Sop::U32 => r.read_u32().map(|v| enc(en, v, 4)).map_err(|x| x.to_string()),
                    Sop::F32 => r.read_f32().map(|v| enc(en, v.to_bits(), 4)).map_err(|x| x.to_string()),
                    Sop::Bytes(n) => r.read_bytes(*n).map_err(|x| x.to_string()),
                    _ => unreachable!(),
                };
                match (&got, ok) {
                    (Ok(b), true) if *b == data[*cur..*cur + width] => *cur += width,
                    (Err(_), false) => {}
                    _ => {
                        return Ok(Some((
                            format!("two-readers:{:?}", op).split('(').next().unwrap().to_string(),
                            format!("two readers alive (archive 1: {} bytes {:?} from {}; archive 2: {} bytes {:?} from {}), sequence {:?} taken in turn: reader {} step {} ({:?}) at cursor {} returned {:?}, the positional access on its archive gives {}", datas[0].len(), e, start, datas[1].len(), e2, start2, seq, which + 1, k, op, cur, got.as_ref().map(|b| util::hex(b)), if ok { util::hex(&data[*cur..*cur + width]) } else { "Err".into() }),
                        )))
                    }
                }
                if r.tell() != *cur {
                    return Ok(Some(("two-readers:cursor".into(), format!("two readers alive, sequence {:?} taken in turn from {} / {}: after step {} reader {} is at {} instead of {}", seq, start, start2, k, which + 1, r.tell(), cur))));
                }
            }
        }
        Ok(None)
    });
    match r {
        Err(p) => Some((format!("panic@{}:two-readers", p.location), format!("two readers, sequence {:?} from {} on a {}-byte archive panicked: {}", seq, start, size, p.message))),
        Ok(Err(x)) => Some(("machinery:two-readers-setup".into(), x)),
        Ok(Ok(v)) => v,
    }
}

fn run_two_readers(tier: Tier) -> Tally {
    let depth = tier.pick(3usize, 4usize);
    let read_ops: Vec<usize> = (0..SOPS.len()).filter(|i| !matches!(SOPS[*i], Sop::Alloc(_))).collect();
    let mut jobs: Vec<(End, usize)> = Vec::new();
    for e in [End::Little, End::Big] {
        for start in (0..=202usize).step_by(tier.pick(3, 1)) {
            jobs.push((e, start));
        }
    }
    jobs.par_iter()
        .fold(Tally::new, |mut t, (e, start)| {
            for len in 1..=depth {
                for idx in util::odometer(read_ops.len(), len) {
                    let idx: Vec<usize> = idx.iter().map(|i| read_ops[*i]).collect();
                    let seq: Vec<Sop> = idx.iter().map(|i| SOPS[*i]).collect();
                    t.cases += 1;
                    t.nontrivial += 1;
                    if let Some((sig, summary)) = two_reader_case(200, *e, *start, &seq, &mut t) {
                        t.violate(sig, summary, json!({"part": "two-readers", "size": 200, "endian": format!("{:?}", e), "start": start, "seq": idx}));
                    }
                }
            }
            t
        })
        .reduce(Tally::new, Tally::merge)
}

/// all sequences of ≤ depth stream operations from EVERY start position of a 200-byte archive,
/// and from the positions around every power of two of a 70 000-byte archive
fn run_streams(tier: Tier) -> Tally {
    let depth = tier.pick(3usize, 4usize);
    let mut jobs: Vec<(usize, End, usize)> = Vec::new();
    for e in [End::Little, End::Big] {
        for start in 0..=202usize {
            jobs.push((200, e, start));
        }
        let mut p = 64usize;
        while p <= 65_536 {
            for d in [-5isize, -3, -2, -1, 0, 1] {
                jobs.push((70_000, e, (p as isize + d) as usize));
            }
            p *= 2;
        }
        for start in [69_990usize, 69_996, 69_999, 70_000] {
            jobs.push((70_000, e, start));
        }
    }
    jobs.par_iter()
        .fold(Tally::new, |mut t, (size, e, start)| {
            for len in 1..=depth {
                for idx in util::odometer(SOPS.len(), len) {
                    let seq: Vec<Sop> = idx.iter().map(|i| SOPS[*i]).collect();
                    t.cases += 1;
                    t.nontrivial += 1;
                    if let Some((sig, summary)) = stream_case(*size, *e, *start, &seq, &mut t) {
                        t.violate(sig, summary, json!({"part": "stream", "size": size, "endian": format!("{:?}", e), "start": start, "seq": idx}));
                    }
                }
            }
            t
        })
        .reduce(Tally::new, Tally::merge)
}

/// c-string reads through a pointer annotation whose DESTINATION lies at, just past or far past
/// the end of the data (a dangling pointer, e.g. after a truncate): whatever is returned, the
/// call must not panic in either build and must not change the archive
fn run_dangling(t: &mut Tally) -> Vec<(String, String, Value)> {
    let mut out = Vec::new();
    for e in [End::Little, End::Big] {
        for size in [4usize, 8, 9, 12] {
            for dest in [0usize, 1, size - 1, size, size + 1, size + 4, 1 << 31, (1usize << 32) + 1, usize::MAX - 1, usize::MAX] {
                for cell in [0usize, size / 4 * 4 - 4] {
                    t.cases += 1;
                    t.calls += 3;
                    let r = util::catch(|| -> Result<Option<String>, String> {
                        let mut a = BinArchive::new(arch::endian(e));
                        a.allocate_at_end(size);
                        let bytes: Vec<u8> = (0..size).map(|i| 0x41 + i as u8).collect();
                        a.write_bytes(0, &bytes).map_err(|x| x.to_string())?;
                        if a.write_pointer(cell, Some(dest)).is_err() {
                            return Ok(None); // the library may refuse such a pointer
                        }
                        let before = arch::observe(&a);
                        let _ = a.read_c_string(cell);
                        let _ = mila::BinArchiveReader::new(&a, cell).read_c_string();
                        let _ = a.read_pointer(cell);
                        if arch::observe(&a) != before {
                            return Ok(Some("the archive changed".into()));
                        }
                        Ok(None)
                    });
                    let case = json!({"part": "dangling", "endian": format!("{:?}", e), "size": size, "dest": dest.to_string(), "cell": cell});
                    match r {
                        Err(p) => out.push((format!("panic@{}:read_c_string", p.location), format!("read_c_string({}) through a pointer to {} on a {}-byte archive panicked: {}", cell, dest, size, p.message), case)),
                        Ok(Ok(Some(m))) => out.push(("read_c_string:changed".into(), m, case)),
                        Ok(Err(m)) => out.push(("machinery:dangling-setup".into(), m, case)),
                        Ok(Ok(None)) => {}
                    }
                }
            }
        }
    }
    out
}

/// Every ordered pair (old, new) of f32 bit patterns that compare specially as floats (the two
/// zeros, NaNs with different payloads, infinities, denormals): the cell holds `old`, `new` is
/// written positionally and through a stream, the cell must then hold exactly the bits of `new`
/// (a write that is skipped "because the value is unchanged" compares floats, not bits).
fn run_f32_pairs(t: &mut Tally) -> Vec<(String, String, Value)> {
    let mut out = Vec::new();
    let vals: [u32; 12] = [0x0000_0000, 0x8000_0000, 0x3F80_0000, 0xBF80_0000, 0x7FC0_0000, 0xFFC0_0001, 0x7FA0_0000, 0x7F80_0000, 0xFF80_0000, 0x0000_0001, 0x8000_0001, 0x7FC0_0001];
    for e in [End::Little, End::Big] {
        for &old in &vals {
            for &new in &vals {
                for stream in [false, true] {
                    t.cases += 1;
                    t.calls += 2;
                    let r = util::catch(|| -> Result<u32, String> {
                        let mut a = BinArchive::new(arch::endian(e));
                        a.allocate_at_end(8);
                        a.write_f32(4, f32::from_bits(old)).map_err(|x| x.to_string())?;
                        if stream {
                            let mut w = mila::BinArchiveWriter::new(&mut a, 4);
                            w.write_f32(f32::from_bits(new)).map_err(|x| x.to_string())?;
                        } else {
                            a.write_f32(4, f32::from_bits(new)).map_err(|x| x.to_string())?;
                        }
                        a.read_u32(4).map_err(|x| x.to_string())
                    });
                    let cj = json!({"part": "f32-pairs", "endian": format!("{:?}", e), "old": old, "new": new, "stream": stream});
                    match r {
                        Err(p) => out.push((format!("panic@{}:f32-pairs", p.location), format!("write_f32 of bits {:#010x} over {:#010x} panicked: {}", new, old, p.message), cj)),
                        Ok(Err(x)) => out.push(("f32-pairs:rejected".into(), format!("in-range write_f32 of bits {:#010x} over {:#010x} failed: {}", new, old, x), cj)),
                        Ok(Ok(got)) if got != new => out.push((format!("f32-pairs:{}", if stream { "stream-write" } else { "positional-write" }), format!("{} write_f32 of bits {:#010x} over a cell holding {:#010x} ({:?}) left {:#010x} in the cell", if stream { "stream" } else { "positional" }, new, old, e, got), cj)),
                        Ok(Ok(_)) => t.nontrivial += 1,
                    }
                }
            }
        }
    }
    out
}

/// stream read_bytes / positional read_bytes with counts around 2^16, 2^20 and 2^24 on a 17 MiB archive
fn run_huge_counts(t: &mut Tally) -> Vec<(String, String, Value)> {
    let mut out = Vec::new();
    let size = 17 * 1024 * 1024 + 3;
    let r = util::catch(|| {
        let mut a = BinArchive::new(mila::Endian::Little);
        a.allocate_at_end(size);
        let _ = a.write_bytes(size - 4, &[1, 2, 3, 4]);
        let _ = a.write_bytes(0, &[9, 8, 7]);
        let mut bad = Vec::new();
        for count in [65_535usize, 65_536, 65_537, (1 << 20) - 1, 1 << 20, (1 << 20) + 1, (1 << 24) - 1, 1 << 24, (1 << 24) + 1, size - 1, size] {
            for start in [0usize, 1, 3] {
                let ok = in_range(start, count, size);
                let pos = a.read_bytes(start, count).map(|b| (b.len(), b[0], b[b.len() - 1])).map_err(|x| x.to_string());
                let mut rd = mila::BinArchiveReader::new(&a, start);
                let st = rd.read_bytes(count).map(|b| (b.len(), b[0], b[b.len() - 1])).map_err(|x| x.to_string());
                if pos.is_ok() != ok || st.is_ok() != ok || (ok && (pos != st || pos.as_ref().unwrap().0 != count)) || (ok && rd.tell() != start + count) {
                    bad.push(format!("read_bytes({}, {}) on a {}-byte archive: positional {:?}, stream {:?} (cursor {}), expected {}", start, count, size, pos, st, rd.tell(), if ok { "Ok" } else { "Err" }));
                }
            }
        }
        bad
    });
    t.cases += 33;
    t.calls += 66;
    match r {
        Err(p) => out.push((format!("panic@{}:huge-count", p.location), format!("read_bytes with a large count panicked: {}", p.message), json!({"part": "huge"}))),
        Ok(bad) => {
            for b in bad {
                out.push(("huge-count".to_string(), b, json!({"part": "huge"})));
            }
        }
    }
    out
}

// ------------------------------------------------------------------------------------

fn explore(ctx: &Ctx) -> Outcome {
    let mut total = Tally::new();
    let grid: Vec<GridCase> = (0..=9).flat_map(|s| [End::Little, End::Big].map(|e| GridCase { size: s, e })).collect();
    let t = grid
        .par_iter()
        .fold(Tally::new, |mut t, gc| {
            for (sig, summary, case) in run_grid(gc, ctx.tier, &mut t, None) {
                t.violate(sig, summary, case);
            }
            t
        })
        .reduce(Tally::new, Tally::merge);
    total.absorb(t);
    for e in [End::Little, End::Big] {
        let mut t = Tally::new();
        for (sig, summary, case) in run_large(e, &mut t) {
            t.violate(sig, summary, case);
        }
        total.absorb(t);
    }
    let ts = run_streams(ctx.tier);
    let stream_cases = ts.cases;
    total.absorb(ts);
    let t2 = run_two_readers(ctx.tier);
    let two_reader_cases = t2.cases;
    total.absorb(t2);
    {
        let mut t = Tally::new();
        for (sig, summary, case) in run_huge_counts(&mut t) {
            t.violate(sig, summary, case);
        }
        for (sig, summary, case) in run_dangling(&mut t) {
            t.violate(sig, summary, case);
        }
        for (sig, summary, case) in run_f32_pairs(&mut t) {
            t.violate(sig, summary, case);
        }
        total.absorb(t);
    }
    total.sample(case_json(4, End::Big, "U16", 3, json!({"write": 4660})));
    total.sample(case_json(9, End::Little, "bytes", 1, json!({"read_len": usize::MAX.to_string()})));
    let grid_cases = total.cases;

    // (b)
    let depth = ctx.tier.pick(4, 5);
    let mut bfs_states = 0;
    let mut bfs_trans = 0;
    let mut wit = Vec::new();
    let mut per_depth = Vec::new();
    let mut samples = Vec::new();
    for e in [End::Little, End::Big] {
        let sys = CSys { init: cursor_init(e) };
        let rep = bfs::explore(&sys, Some(depth), Some(8_000_000));
        bfs_states += rep.states;
        bfs_trans += rep.transitions;
        wit.push(json!({"endian": format!("{:?}", e), "witnesses": rep.witness_counts}));
        per_depth.push(rep.states_per_depth.clone());
        for h in rep.sample_histories.iter().take(1) {
            samples.push(json!({"part": "cursor", "endian": format!("{:?}", e), "history": h}));
        }
        for v in rep.violations {
            total.violate(v.sig, v.summary, json!({"part": "cursor", "endian": format!("{:?}", e), "history": v.history}));
        }
    }
    for s in samples {
        total.samples.push(s);
    }
    let mut o = total.into_outcome(
        "(a) grid: archive sizes 0..=9 (plus one 70 000-byte archive probed around addresses/lengths 255, 65 535 and its end) × both endiannesses × every typed/bytes/annotation accessor × addresses {0..=size+2, 2^31±1, 2^32±1, isize::MAX±1, usize::MAX-8..=usize::MAX} × read_bytes lengths {0..=size+1, isize::MAX, usize::MAX, usize::MAX-address+{0,1,2}} × values (all 256 / all 65 536 in range / walking-one-zero patterns / f32 incl. NaN payloads); oracle: Ok iff non-empty range inside the data (u128 arithmetic), Err ⇒ nothing observable changed, Ok write ⇒ exactly the addressed bytes in the archive's endianness and identical bits on read-back, annotation accessors never change raw bytes. (b) BFS over (archive content, reader cursor, writer cursor) of a 9-byte archive, every stream read/write/seek/skip interleaved with positional calls; oracle: stream op ≡ positional op at the cursor, cursor advances by the width iff Ok, label accesses never move it. (c) ONE reader and ONE writer object kept across every sequence of ≤ 3 (thorough 4) accesses from {u8, u16, i16, u32, f32, bytes(3), bytes(5), skip 1, skip 61, seek −2, seek +62} started at every position 0..=202 of a 200-byte archive and around every power of two up to 65 536 and the end of a 70 000-byte archive, each step compared with the positional access; the same sequences taken in turn by TWO readers alive at once on two archives of different bytes and endianness; read_bytes counts around 2^16, 2^20, 2^24 on a 17 MiB archive, stream vs positional. non-trivial = successful in-range accesses",
        true,
        vec![("long_lived_stream_sequences", json!(stream_cases)), ("two_readers_interleaved_sequences", json!(two_reader_cases)), ("grid_cases", json!(grid_cases)), ("cursor_bfs_states", json!(bfs_states)), ("cursor_bfs_transitions", json!(bfs_trans)), ("cursor_bfs_depth", json!(depth)), ("cursor_states_per_depth", json!(per_depth)), ("cursor_witnesses", json!(wit))],
    );
    o.coverage.states += bfs_states;
    o.coverage.transitions += bfs_trans;
    o.coverage.evaluations += bfs_trans;
    o.coverage.traces_validated_against_impl += bfs_trans;
    o.assumptions = vec![
        "zero-length byte accesses, label accessors on the last three addresses, and read_c_string through an existing pointer are outside the statement: only 'no panic, raw bytes untouched' (and the cursor rule) is required".into(),
        "skip() is enabled only while the cursor is below usize::MAX-8 (overflow of skip itself is not a value access)".into(),
    ];
    o
}

fn replay(_ctx: &Ctx, case: &Value) -> Vec<Violation> {
    let e = if case["endian"] == "Big" { End::Big } else { End::Little };
    if case["part"] == "cursor" {
        let hist: Vec<Cop> = serde_json::from_value(case["history"].clone()).unwrap_or_default();
        if hist.is_empty() {
            return vec![];
        }
        let sys = CSys { init: cursor_init(e) };
        let mut st = (CState { model: sys.init.clone(), rc: 0, wc: 0 }, Arc::new(vec![]));
        for k in 0..hist.len() {
            match sys.step(&st, &hist[..k], &hist[k]) {
                Step::Next { state, .. } => st = state,
                Step::Violation { sig, summary, .. } => return vec![Violation { sig, summary, case: case.clone() }],
                Step::Skip => {}
            }
        }
        return vec![];
    }
    if case["part"] == "stream" {
        let size = case["size"].as_u64().unwrap_or(200) as usize;
        let start = case["start"].as_u64().unwrap_or(0) as usize;
        let seq: Vec<Sop> = case["seq"].as_array().map(|a| a.iter().map(|i| SOPS[i.as_u64().unwrap_or(0) as usize % SOPS.len()]).collect()).unwrap_or_default();
        let mut t = Tally::new();
        return stream_case(size, e, start, &seq, &mut t).map(|(sig, summary)| vec![Violation { sig, summary, case: case.clone() }]).unwrap_or_default();
    }
    if case["part"] == "two-readers" {
        let start = case["start"].as_u64().unwrap_or(0) as usize;
        let seq: Vec<Sop> = case["seq"].as_array().map(|a| a.iter().map(|i| SOPS[i.as_u64().unwrap_or(0) as usize % SOPS.len()]).collect()).unwrap_or_default();
        let mut t = Tally::new();
        return two_reader_case(200, e, start, &seq, &mut t).map(|(sig, summary)| vec![Violation { sig, summary, case: case.clone() }]).unwrap_or_default();
    }
    if case["part"] == "f32-pairs" {
        let mut t = Tally::new();
        return run_f32_pairs(&mut t).into_iter().filter(|(_, _, c)| c == case).map(|(sig, summary, c)| Violation { sig, summary, case: c }).collect();
    }
    if case["part"] == "dangling" {
        let mut t = Tally::new();
        return run_dangling(&mut t).into_iter().filter(|(_, _, c)| c == case).map(|(sig, summary, c)| Violation { sig, summary, case: c }).collect();
    }
    if case["part"] == "huge" {
        let mut t = Tally::new();
        return run_huge_counts(&mut t).into_iter().map(|(sig, summary, c)| Violation { sig, summary, case: c }).collect();
    }
    if case["part"] == "large" {
        let mut t = Tally::new();
        return run_large(e, &mut t).into_iter().map(|(sig, summary, c)| Violation { sig, summary, case: c }).collect();
    }
    let size = case["size"].as_u64().unwrap_or(0) as usize;
    let addr: usize = case["addr"].as_str().and_then(|s| s.parse().ok()).unwrap_or(0);
    let op = case["op"].as_str().unwrap_or("");
    let mut t = Tally::new();
    run_grid(&GridCase { size, e }, Tier::Thorough, &mut t, Some((op, addr))).into_iter().map(|(sig, summary, c)| Violation { sig, summary, case: c }).collect()
}

fn main() {
    vcore::run_main(PropDef { id: "C04", level: "model_checking", both_builds: BothBuilds::Always, explore, replay, worker: None })
}
