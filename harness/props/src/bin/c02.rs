//! C02 — bin archive serialization is canonical, deterministic and byte-stable.
//! Engine E2: every content of the C01 family without c-strings × every call order that
//! builds it (≤ K annotation calls) × R fresh instances (fresh hash states).

use mila::BinArchive;
use props::arch::{self, Call};
use props::binfam;
use props::c02judge::{self, sig};
use rayon::prelude::*;
use serde_json::{json, Value};
use vcore::driver::{BothBuilds, Ctx, Outcome, PropDef, Tier, Violation};
use vcore::ref_bin::{self, Content, End};
use vcore::{util, Tally};

/// all orders of `calls` that keep the relative order of labels on one address
fn call_orders(calls: &[Call], max_calls: usize) -> Vec<Vec<Call>> {
    if calls.len() > max_calls {
        // canonical order and its reverse-by-kind variant (labels first)
        let mut rev: Vec<Call> = calls.iter().filter(|c| matches!(c, Call::Label(..))).cloned().collect();
        rev.extend(calls.iter().filter(|c| !matches!(c, Call::Label(..))).rev().cloned());
        return vec![calls.to_vec(), rev];
    }
    let mut out = Vec::new();
    'perm: for p in util::permutations(calls.len()) {
        for i in 0..p.len() {
            for j in (i + 1)..p.len() {
                if let (Call::Label(a, _), Call::Label(b, _)) = (&calls[p[i]], &calls[p[j]]) {
                    if a == b && p[i] > p[j] {
                        continue 'perm;
                    }
                }
            }
        }
        out.push(p.iter().map(|i| calls[*i].clone()).collect());
    }
    out
}

fn judge(c: &Content, t: &mut Tally, max_calls: usize, r_canon: usize, r_perm: usize) -> Option<(String, String)> {
    let calls = arch::calls_of(c);
    let orders = call_orders(&calls, max_calls);
    let mut images: Vec<Vec<u8>> = Vec::new();
    for (oi, order) in orders.iter().enumerate() {
        let reps = if oi == 0 { r_canon } else { r_perm };
        for _ in 0..reps {
            t.calls += 1;
            match util::catch(|| arch::build(c, Some(order)).and_then(|a| a.serialize().map_err(|e| e.to_string()))) {
                Err(p) => return Some((format!("panic@{}", p.location), format!("build/serialize panicked: {}", p.message))),
                Ok(Err(e)) => return Some((sig("serialize-err", c), format!("building or serializing a domain archive failed: {}", e))),
                Ok(Ok(i)) => {
                    if !images.contains(&i) {
                        images.push(i);
                    }
                }
            }
        }
    }
    t.class_n("call-orders", orders.len() as u64);
    c02judge::judge_images(c, &images, &format!("{} call orders × fresh instances", orders.len()), t)
}

/// extra contents with many tied big-endian names (t = 8) — the hash-order sensitive case
fn tie_cases() -> Vec<Content> {
    let mut v = Vec::new();
    for e in [End::Big, End::Little] {
        for n in [2usize, 3, 8] {
            let mut c = Content::new(e);
            c.data = vec![0; 4 * n];
            for i in 0..n {
                c.labels.insert(4 * i, vec!["same".to_string()]);
            }
            v.push(c.clone());
            // distinct names in reverse address order
            let mut d = Content::new(e);
            d.data = vec![0; 4 * n];
            for i in 0..n {
                d.labels.insert(4 * i, vec![format!("n{}", n - i)]);
            }
            v.push(d);
            // strings shared between cells and labels
            let mut s = c.clone();
            for i in 0..n {
                s.strings.insert(4 * i, if i % 2 == 0 { "same".into() } else { "other".into() });
            }
            v.push(s);
        }
    }
    v
}

fn params(tier: Tier) -> (usize, usize, usize) {
    // (max calls for full permutation, R canonical order, R per permuted order)
    match tier {
        Tier::Quick => (5, 8, 2),
        Tier::Thorough => (6, 16, 2),
    }
}

fn explore(ctx: &Ctx) -> Outcome {
    let (max_calls, r_canon, r_perm) = params(ctx.tier);
    let mut total = Tally::new();
    let mut layers = Vec::new();
    for cfg in binfam::cfgs(ctx.tier, false) {
        for &l in &cfg.lengths {
            let n = binfam::count(&cfg, l);
            let t = (0..n)
                .into_par_iter()
                .fold(Tally::new, |mut t, i| {
                    let c = binfam::case_at(&cfg, l, i);
                    t.cases += 1;
                    if arch::calls_of(&c).len() >= 2 {
                        t.nontrivial += 1;
                    }
                    if let Some((sig, summary)) = judge(&c, &mut t, max_calls, r_canon, r_perm) {
                        t.violate(sig, summary, binfam::describe(&c));
                    }
                    t
                })
                .reduce(Tally::new, Tally::merge);
            layers.push(json!({"data_length": l, "contents": n, "completed": true}));
            total.absorb(t);
        }
    }
    // length sweep (text offsets slid across the table offsets) and long multi-byte strings
    let mut extra = binfam::length_sweep();
    let (dl, dd) = ctx.tier.pick((300, 300), (1300, 4400));
    extra.extend(binfam::multibyte_alignment().into_iter().chain(binfam::kana_family()).chain(binfam::tricky_family()).chain(binfam::collation_family()).chain(binfam::many_labels_family()).chain(binfam::pair_family()).chain(binfam::domain_family()).chain(binfam::palindromic_size_family()).chain(binfam::dense_family(dl, dd)).chain(binfam::long_string_family(if dl > 300 { 20_000 } else { 4400 })).map(|mut c| {
        c.cstrings.clear();
        c
    }));
    let t = extra
        .par_iter()
        .fold(Tally::new, |mut t, c| {
            t.cases += 1;
            t.nontrivial += 1;
            if let Some((sig, summary)) = judge(c, &mut t, 4, 2, 1) {
                t.violate(sig, summary.chars().take(500).collect::<String>(), binfam::describe(c));
            }
            t
        })
        .reduce(Tally::new, Tally::merge);
    layers.push(json!({"family": format!("length sweep (names/strings of length 0..=48, shared or not) + long multi-byte strings + tricky-string catalogue + collation-inversion label pairs + 3..=40 cells × 1..=3 unsorted labels + dense sweeps (every string/label length 0..={}, every data length 0..={})", dl, dd), "contents": extra.len(), "completed": true}));
    total.absorb(t);
    // state carried between calls (props::poison right before representative cases, same thread)
    {
        let mut t = Tally::new();
        let reps: Vec<Content> = binfam::kana_family().into_iter().chain(binfam::length_sweep().into_iter().step_by(29)).map(|mut c| {
            c.cstrings.clear();
            c
        }).collect();
        for c in &reps {
            props::poison::failing_calls();
            t.cases += 1;
            t.nontrivial += 1;
            if let Some((sig, summary)) = judge(c, &mut t, 3, 2, 1) {
                let mut cj = binfam::describe(c);
                cj["after_failed_calls"] = json!(true);
                t.violate(format!("after-failed-calls:{}", sig), summary.chars().take(500).collect::<String>(), cj);
            }
        }
        // ... and EACH SINGLE call of the series immediately before a representative content
        for i in 0..props::poison::count() {
            let c = &reps[i % reps.len()];
            props::poison::single_call(i);
            t.cases += 1;
            t.nontrivial += 1;
            if let Some((sig, summary)) = judge(c, &mut t, 3, 2, 1) {
                let mut cj = binfam::describe(c);
                cj["after_single_call"] = json!(i);
                t.violate(format!("after-single-call:{}", sig), summary.chars().take(500).collect::<String>(), cj);
            }
        }
        layers.push(json!({"family": "a fixed series of failing parses / failing serializations / odd strings on the same thread right before the case", "cases": reps.len(), "completed": true}));
        total.absorb(t);
    }
    // large archives (tables and text beyond 64 KiB; a ladder of cell counts)
    let bigs = binfam::big_cases();
    let t = bigs
        .par_iter()
        .fold(Tally::new, |mut t, c| {
            t.cases += 1;
            t.nontrivial += 1;
            if let Some((sig, summary)) = judge(c, &mut t, 2, 2, 1) {
                t.violate(format!("big:{}", sig), summary.chars().take(500).collect::<String>(), json!({"big": format!("{:?}/{} bytes", c.endian, c.size())}));
            }
            t
        })
        .reduce(Tally::new, Tally::merge);
    total.absorb(t);
    layers.push(json!({"family": "large archives (cell counts 100..20 000 on a 2^k±1 ladder, strings/pointers/labels interleaved)", "archives": bigs.len(), "completed": true}));
    // tie cases: many fresh instances each
    let ties = tie_cases();
    let t = ties
        .par_iter()
        .fold(Tally::new, |mut t, c| {
            t.cases += 1;
            t.nontrivial += 1;
            if let Some((sig, summary)) = judge(c, &mut t, 3, 64, 4) {
                t.violate(sig, summary, binfam::describe(c));
            }
            t
        })
        .reduce(Tally::new, Tally::merge);
    layers.push(json!({"family": "tied / reversed big-endian names, up to 8 labels, 64 fresh instances each", "contents": ties.len(), "completed": true}));
    total.absorb(t);
    // fixture files: parse → serialize is the identity
    let mut fixtures = 0;
    for name in ["ArchiveTest_Mixed1.bin", "ArchiveTest_Mixed2.bin", "ArchiveTest_OnlyText.bin"] {
        if let Ok(bytes) = std::fs::read(format!("/repo/resources/test/{}", name)) {
            fixtures += 1;
            total.cases += 1;
            total.calls += 2;
            match util::catch(|| BinArchive::from_bytes(&bytes, mila::Endian::Little).and_then(|a| a.serialize()).map_err(|e| e.to_string())) {
                Ok(Ok(again)) if again == bytes => {}
                other => total.violate(
                    format!("fixture-not-byte-stable:{}", name),
                    format!("parse → serialize of {} does not reproduce the file ({:?})", name, other.map(|r| r.map(|b| b.len())).map_err(|p| p.message)),
                    json!({"fixture": name}),
                ),
            }
        }
    }
    layers.push(json!({"family": "little-endian fixture files", "files": fixtures}));
    total.sample(binfam::describe(&ties[0]));
    total.sample(binfam::describe(&binfam::case_at(&binfam::cfgs(ctx.tier, false)[0], 8, 4321)));
    let mut o = total.into_outcome(
        "every content of the C01 family without c-strings, built through every order of its annotation calls (all permutations keeping same-address label order when there are ≤ K calls, two orders otherwise), each serialized in R fresh BinArchive instances; oracle: one single image per content, equal to the reference writer's canonical image (little-endian always; big-endian when names are distinct and one per address, else determinism + name order + structural correctness); parse→serialize of every canonical image and of the fixture files is the identity; non-trivial = content with ≥ 2 annotation calls",
        true,
        vec![("layers", json!(layers)), ("max_calls_fully_permuted", json!(max_calls)), ("fresh_instances_canonical_order", json!(r_canon)), ("fresh_instances_per_permuted_order", json!(r_perm))],
    );
    o.assumptions = vec![
        "'fresh processes/hash states' is SAMPLED: std's HashMap seeds cannot be set from outside, so each (content, call order) is serialized in R fresh instances (64 for the tie cases); contents and call orders are enumerated exhaustively".into(),
        "for big-endian archives with equal names on several addresses or several labels on one address the statement does not fix the table order: determinism, order by name (single-label case) and structural correctness are required instead".into(),
    ];
    o
}

fn replay(ctx: &Ctx, case: &Value) -> Vec<Violation> {
    if let Some(name) = case["fixture"].as_str() {
        let bytes = std::fs::read(format!("/repo/resources/test/{}", name)).unwrap_or_default();
        return match util::catch(|| BinArchive::from_bytes(&bytes, mila::Endian::Little).and_then(|a| a.serialize()).map_err(|e| e.to_string())) {
            Ok(Ok(again)) if again == bytes => vec![],
            _ => vec![Violation { sig: format!("fixture-not-byte-stable:{}", name), summary: "fixture".into(), case: case.clone() }],
        };
    }
    if let Some(tag) = case["big"].as_str() {
        let mut out = Vec::new();
        for c in binfam::big_cases() {
            if format!("{:?}/{} bytes", c.endian, c.size()) == tag {
                let mut t = Tally::new();
                if let Some((sig, summary)) = judge(&c, &mut t, 2, 2, 1) {
                    out.push(Violation { sig: format!("big:{}", sig), summary, case: case.clone() });
                }
            }
        }
        return out;
    }
    let c = binfam::content_from_json(case);
    let (max_calls, _, _) = params(ctx.tier);
    let mut t = Tally::new();
    if let Some(i) = case["after_single_call"].as_u64() {
        props::poison::single_call(i as usize);
        return judge(&c, &mut t, 3, 2, 1).map(|(sig, summary)| vec![Violation { sig: format!("after-single-call:{}", sig), summary, case: case.clone() }]).unwrap_or_default();
    }
    if case["after_failed_calls"].as_bool().unwrap_or(false) {
        props::poison::failing_calls();
        return judge(&c, &mut t, 3, 2, 1).map(|(sig, summary)| vec![Violation { sig: format!("after-failed-calls:{}", sig), summary, case: case.clone() }]).unwrap_or_default();
    }
    // replay with many fresh instances: a hash-order dependent defect shows with probability ≥ 1 - (1/2)^63
    match judge(&c, &mut t, max_calls.max(3), 64, 4) {
        Some((sig, summary)) => vec![Violation { sig, summary, case: case.clone() }],
        None => vec![],
    }
}

fn main() {
    vcore::run_main(PropDef { id: "C02", level: "model_checking", both_builds: BothBuilds::ThoroughOnly, explore, replay, worker: None })
}
