//! C09 — LZ13 compression emits a valid wrapped LZ11 stream that expands to the input;
//! every input (the empty one included) gives Ok or Err, never a panic or abort.
//! Engine E2 (both builds) + E3 for the inputs that may abort the process.

use mila::{CompressionFormat, LZ13CompressionFormat};
use props::lzfam::{self, LzInput};
use rayon::prelude::*;
use serde_json::{json, Value};
use std::sync::Mutex;
use std::time::Duration;
use vcore::driver::{BothBuilds, Ctx, Outcome, PropDef, Violation};
use vcore::isolate::{self, Status};
use vcore::ref_lz::{self, Kind, Token};
use vcore::{util, Tally};

fn judge(data: &[u8], t: &mut Tally) -> Option<(String, String)> {
    let lz = LZ13CompressionFormat {};
    t.calls += 2;
    let out = match util::catch(|| lz.compress(data)) {
        Err(p) => return Some((format!("panic@{}", p.location), format!("LZ13 compress panicked on a {}-byte input: {}", data.len(), p.message))),
        Ok(Err(e)) => {
            if data.is_empty() {
                t.class("empty:Err");
                return None; // Ok or Err are both acceptable for the empty input
            }
            return Some(("compress-err".into(), format!("LZ13 compress returned Err({}) for a {}-byte input", e, data.len())));
        }
        Ok(Ok(o)) => o,
    };
    if data.is_empty() {
        // rule 2: for the empty input only "Ok or Err, no panic/abort" is demanded; whether
        // the Ok result is a decodable stream is recorded as an observation.
        let valid = out.len() >= 8 && out[0] == 0x13 && matches!(ref_lz::decode(&out[4..], Kind::Lz11, false), Ok(d) if d.data.is_empty());
        t.class(if valid { "empty:Ok-valid-stream" } else { "empty:Ok-undecodable" });
        return None;
    }
    if out.len() < 8 || out[0] != 0x13 {
        return Some(("wrapper".into(), format!("output does not start with a 4-byte 0x13 wrapper (len {}, first byte {:02x?})", out.len(), out.first())));
    }
    let dec = match ref_lz::decode(&out[4..], Kind::Lz11, false) {
        Err(e) => return Some((format!("malformed:{}", e.class()), format!("payload after the wrapper is not a well-formed LZ11 stream: {:?}", e))),
        Ok(d) => d,
    };
    if dec.declared_len != data.len() {
        return Some(("header-length".into(), format!("LZ11 header length {} != input length {}", dec.declared_len, data.len())));
    }
    if dec.data != data {
        return Some(("expansion-differs".into(), "independent decoder's expansion differs from the input".into()));
    }
    let mut nrefs = 0;
    for tok in &dec.tokens {
        if let Token::Ref { len, disp } = *tok {
            nrefs += 1;
            if !(1..=4096).contains(&disp) || len < 3 {
                return Some(("ref-range".into(), format!("reference len={} disp={} outside the legal ranges", len, disp)));
            }
            t.class(&format!("form={}", ref_lz::lz11_form(len)));
            match len {
                3 => t.class("len=3"),
                16 => t.class("len=16"),
                17 => t.class("len=17"),
                272 => t.class("len=272"),
                273 => t.class("len=273"),
                4096 => t.class("len=4096"),
                _ => {}
            }
            t.class(lzfam::disp_class(disp));
            if len > disp {
                t.class("overlapping");
            }
        }
    }
    if !dec.tokens.is_empty() {
        t.class(&format!("last_group={}", dec.last_group_tokens));
    }
    if nrefs > 0 {
        t.nontrivial += 1;
    }
    match util::catch(|| lz.decompress(&out)) {
        Err(p) => return Some((format!("panic@{}", p.location), format!("LZ13 decompress of own output panicked: {}", p.message))),
        Ok(Err(e)) => return Some(("own-decompress-err".into(), format!("library decompress rejects the library's own output: {}", e))),
        Ok(Ok(back)) => {
            if back != data {
                return Some(("own-roundtrip-differs".into(), "library decompress(compress(x)) != x".into()));
            }
        }
    }
    let via_enum = CompressionFormat::LZ13(LZ13CompressionFormat {});
    match util::catch(|| via_enum.compress(data)) {
        Ok(Ok(o2)) if o2 == out => {}
        _ => return Some(("enum-dispatch".into(), "CompressionFormat::LZ13.compress differs from LZ13CompressionFormat.compress".into())),
    }
    None
}

fn case_json(data: &[u8], desc: &str) -> Value {
    if data.len() > (1 << 16) && lzfam::build_recipe_checked(desc).as_deref() == Some(data) {
        return json!({"recipe": desc, "len": data.len()});
    }
    json!({"desc": desc, "len": data.len(), "hex": util::hex(&data[..data.len().min(1 << 16)]), "truncated": data.len() > (1 << 16)})
}

/// Inputs screened in a subprocess first (they may abort): tiny inputs.
fn isolated_inputs() -> Vec<Vec<u8>> {
    let mut v: Vec<Vec<u8>> = vec![vec![]];
    for b in [0u8, 1, 0xFF] {
        v.push(vec![b]);
        v.push(vec![b, b]);
    }
    v
}

/// Run `inputs` through worker subprocesses; returns violations (sig, summary, input).
fn run_isolated(ctx: &Ctx, inputs: &[Vec<u8>], t: &mut Tally) -> Result<Vec<(String, String, Vec<u8>)>, String> {
    let src = isolate::BatchSource::new(inputs.to_vec().into_iter(), 1, 1 << 16);
    let found: Mutex<Vec<(String, String, Vec<u8>)>> = Mutex::new(Vec::new());
    let classes: Mutex<Vec<String>> = Mutex::new(Vec::new());
    let stats = isolate::run_pool(
        &ctx.exe,
        &[],
        4,
        Duration::from_secs(20),
        || src.next(|c: &Vec<u8>| c.len()),
        |c: &Vec<u8>| format!("x{}", util::hex(c)),
        |c: &Vec<u8>, st: Status| match st {
            Status::Ok { payload, .. } => classes.lock().unwrap().push(format!("isolated:{}", payload)),
            Status::Panic { location, message, .. } => found.lock().unwrap().push((
                format!("panic@{}", location),
                format!("LZ13 compress panicked on a {}-byte input: {}", c.len(), message),
                c.clone(),
            )),
            Status::Died { how, refused_alloc, stderr_tail } => found.lock().unwrap().push((
                "abort:compress".into(),
                format!("LZ13 compress of a {}-byte input killed the process ({}; refused allocation {:?}; {})", c.len(), how, refused_alloc, stderr_tail),
                c.clone(),
            )),
            Status::Timeout => found.lock().unwrap().push(("timeout:compress".into(), format!("LZ13 compress of a {}-byte input did not return", c.len()), c.clone())),
        },
    )?;
    t.cases += stats.cases;
    t.calls += stats.cases;
    for c in classes.into_inner().unwrap() {
        t.class(&c);
    }
    Ok(found.into_inner().unwrap())
}

fn explore(ctx: &Ctx) -> Outcome {
    let mut total = Tally::new();
    let mut layers = Vec::new();
    let mut machinery = Vec::new();

    // E3 screening of the inputs that may abort
    let iso = isolated_inputs();
    let mut unsafe_inputs: Vec<Vec<u8>> = Vec::new();
    match run_isolated(ctx, &iso, &mut total) {
        Ok(found) => {
            for (sig, summary, input) in found {
                total.violate(sig, summary, json!({"isolated": true, "desc": "tiny input in a subprocess", "len": input.len(), "hex": util::hex(&input), "truncated": false}));
                unsafe_inputs.push(input);
            }
        }
        Err(e) => machinery.push(format!("isolated pool failed: {}", e)),
    }
    layers.push(json!({"family": "tiny inputs in subprocesses (E3)", "inputs": iso.len(), "completed": true}));

    for (k, n) in lzfam::small_alphabet_bounds(ctx.tier) {
        let count = lzfam::small_alphabet_count(k, n);
        let t = (0..count)
            .into_par_iter()
            .fold(Tally::new, |mut t, i| {
                let data = lzfam::small_alphabet_nth(k, n, i);
                if unsafe_inputs.contains(&data) {
                    return t; // already reported by the isolated pass; would take the process down
                }
                t.cases += 1;
                if let Some((sig, summary)) = judge(&data, &mut t) {
                    t.violate(sig, summary, case_json(&data, &format!("alphabet {} index {}", k, i)));
                }
                t
            })
            .reduce(Tally::new, Tally::merge);
        layers.push(json!({"family": "all strings", "alphabet": k, "max_len": n, "inputs": count, "completed": true}));
        total.absorb(t);
    }
    let mut rest: Vec<LzInput> = lzfam::structure_grid(ctx.tier);
    let grid_n = rest.len();
    rest.extend(lzfam::header_boundaries(ctx.tier).into_iter().filter(|i| !unsafe_inputs.contains(&i.data)));
    // large inputs, each described by a recipe (replayable): repeats longer than the largest LZ11
    // length (65 808), long literal runs, noise followed by long repeats, sizes around 2^20..2^24
    rest.extend(lzfam::big_inputs(ctx.tier, true));
    rest.extend(lzfam::dense_runs(ctx.tier));
    rest.extend(lzfam::twin_blocks());
    rest.extend(lzfam::dense_displacements(ctx.tier));
    rest.extend(lzfam::codec_closure());
    rest.extend(lzfam::near_repeats());
    let t = rest
        .par_iter()
        .fold(Tally::new, |mut t, inp| {
            t.cases += 1;
            if let Some((sig, summary)) = judge(&inp.data, &mut t) {
                t.violate(sig, summary, case_json(&inp.data, &inp.desc));
            }
            t
        })
        .reduce(Tally::new, Tally::merge);
    layers.push(json!({"family": "structure grid prefix|filler|copy(m,d)|tail", "inputs": grid_n, "completed": true}));
    layers.push(json!({"family": "header boundary lengths", "inputs": rest.len() - grid_n, "completed": true}));
    total.absorb(t);
    #[allow(non_snake_case)]
    let SKIP_IN_PROCESS = |x: &[u8]| unsafe_inputs.iter().any(|u| u.as_slice() == x);
    // call histories: compress(x) then compress(y) on the same thread (state carried from one
    // call to the next — a reused buffer, a cache — would corrupt the second result)
    {
        let mut hist_inputs: Vec<Vec<u8>> = vec![vec![], vec![1], vec![0; 8], (0..8).collect(), (0..9).collect(), vec![7; 300], vec![7; 5000], lzfam::norepeat(40, 3), (0..64).map(|i| (i % 3) as u8).collect()];
        hist_inputs.retain(|x| !SKIP_IN_PROCESS(x));
        let mut t = Tally::new();
        for x in &hist_inputs {
            for y in &hist_inputs {
                let _ = util::catch(|| (LZ13CompressionFormat {}).compress(x));
                t.cases += 1;
                t.calls += 1;
                if let Some((sig, summary)) = judge(y, &mut t) {
                    t.violate(format!("after-previous-call:{}", sig), format!("compress of a {}-byte input right after compressing a {}-byte input: {}", y.len(), x.len(), summary), json!({"history": [util::hex(x), util::hex(y)]}));
                }
            }
        }
        layers.push(json!({"family": "call histories: all ordered pairs of 9 inputs on one thread", "pairs": hist_inputs.len() * hist_inputs.len(), "completed": true}));
        // near-identical inputs back to back: the same length, the same first and last bytes, one
        // byte in the middle changed (incompressible content, so the streams have equal length
        // too) — a result remembered under a cheap fingerprint of the previous call would be reused
        for n in [200usize, 600, 5000, 70_000] {
            let base = lzfam::norepeat(n.min(60_000), 5).into_iter().cycle().take(n).collect::<Vec<u8>>();
            let mut twin = base.clone();
            twin[n / 2] ^= 0x5A;
            for (x, y) in [(&base, &twin), (&twin, &base)] {
                t.cases += 1;
                t.calls += 2;
                let _ = util::catch(|| (LZ13CompressionFormat {}).compress(x).ok().and_then(|s| (LZ13CompressionFormat {}).decompress(&s).ok()));
                if let Some((sig, summary)) = judge(y, &mut t) {
                    t.violate(format!("after-previous-call:{}", sig), format!("round trip of a {}-byte input right after the round trip of its one-byte-different twin: {}", n, summary), json!({"twin_history": n, "twin_first": std::ptr::eq(x, &twin)}));
                }
            }
        }
        total.absorb(t);
    }
    total.sample(json!({"input_hex": "", "note": "the empty input (run in a subprocess)"}));
    total.sample(case_json(&rest[0].data[..rest[0].data.len().min(64)], &rest[0].desc));

    let mut missing = Vec::new();
    for c in ["form=0", "form=1", "form=2", "len=3", "len=16", "len=17", "len=272", "len=273", "len=4096", "disp=2", "disp=4096", "disp=4095", "overlapping",
              "last_group=1", "last_group=2", "last_group=3", "last_group=4", "last_group=5", "last_group=6", "last_group=7", "last_group=8"] {
        if !total.classes.contains_key(c) {
            missing.push(c.to_string());
        }
    }
    let had_violation = !total.violations.is_empty();
    let mut o = total.into_outcome(
        "every input of the C08 families is compressed by mila's LZ13 and the payload after the 0x13 wrapper walked token by token by an independent LZ11 decoder; tiny inputs (the empty one included) are additionally run in subprocesses so an abort is attributed; non-trivial = output contains at least one back-reference",
        true,
        vec![("layers", json!(layers)), ("unreached_target_classes", json!(missing))],
    );
    if !missing.is_empty() && !had_violation {
        // not a verdict and not an error: a compressor that never emits these classes can still
        // satisfy the property; the evidence records that the grid did not reach them.
        o.warn(format!("vacuity note: reference classes never emitted: {:?}", missing));
    }
    for m in machinery {
        o.machinery(m);
    }
    o.assumptions = vec![
        "inputs up to 16 MiB-8 KiB (16 MiB-1 at the thorough tier); the three wrapper bytes after 0x13 are not interpreted".into(),
        "for the empty input both Ok (then it must be a valid stream) and Err are accepted".into(),
    ];
    o
}

fn replay(ctx: &Ctx, case: &Value) -> Vec<Violation> {
    if let Some(r) = case["recipe"].as_str() {
        let data = lzfam::build_recipe(r);
        let mut t = Tally::new();
        return judge(&data, &mut t).map(|(sig, summary)| vec![Violation { sig, summary, case: case.clone() }]).unwrap_or_default();
    }
    if case["truncated"].as_bool().unwrap_or(false) {
        return vec![];
    }
    if let Some(n) = case["twin_history"].as_u64() {
        let n = n as usize;
        let base = lzfam::norepeat(n.min(60_000), 5).into_iter().cycle().take(n).collect::<Vec<u8>>();
        let mut twin = base.clone();
        twin[n / 2] ^= 0x5A;
        let (x, y) = if case["twin_first"].as_bool().unwrap_or(false) { (&twin, &base) } else { (&base, &twin) };
        let _ = util::catch(|| (LZ13CompressionFormat {}).compress(x).ok().and_then(|s| (LZ13CompressionFormat {}).decompress(&s).ok()));
        let mut t = Tally::new();
        return judge(y, &mut t).map(|(sig, summary)| vec![Violation { sig: format!("after-previous-call:{}", sig), summary, case: case.clone() }]).unwrap_or_default();
    }
    if let Some(h) = case["history"].as_array() {
        let x = util::unhex(h[0].as_str().unwrap_or(""));
        let y = util::unhex(h[1].as_str().unwrap_or(""));
        let _ = util::catch(|| (LZ13CompressionFormat {}).compress(&x));
        let mut t = Tally::new();
        return match judge(&y, &mut t) {
            Some((sig, summary)) => vec![Violation { sig: format!("after-previous-call:{}", sig), summary, case: case.clone() }],
            None => vec![],
        };
    }
    let data = util::unhex(case["hex"].as_str().unwrap_or(""));
    if case["isolated"].as_bool().unwrap_or(false) {
        let mut t = Tally::new();
        return match run_isolated(ctx, &[data], &mut t) {
            Ok(found) => found.into_iter().map(|(sig, summary, _)| Violation { sig, summary, case: case.clone() }).collect(),
            Err(_) => vec![],
        };
    }
    let mut t = Tally::new();
    match judge(&data, &mut t) {
        Some((sig, summary)) => vec![Violation { sig, summary, case: case.clone() }],
        None => vec![],
    }
}

fn worker(_ctx: &Ctx) {
    isolate::worker_loop(
        |_l| 1 << 30,
        |line| {
            let data = util::unhex(&line[1..]);
            match (LZ13CompressionFormat {}).compress(&data) {
                Ok(_) => "compress-ok".to_string(),
                Err(_) => "compress-err".to_string(),
            }
        },
    );
}

fn main() {
    vcore::run_main(PropDef {
        id: "C09",
        level: "model_checking",
        both_builds: BothBuilds::Always,
        explore,
        replay,
        worker: Some(worker),
    })
}
