//! C08 — LZ10 compression emits a valid stream that expands to the input. Engine E2.

use mila::{CompressionFormat, LZ10CompressionFormat};
use props::lzfam::{self, LzInput};
use rayon::prelude::*;
use serde_json::{json, Value};
use vcore::driver::{BothBuilds, Ctx, Outcome, PropDef, Violation};
use vcore::ref_lz::{self, Kind, Token};
use vcore::{util, Tally};

/// Judge one input. Returns violations as (sig, summary); updates the tally's classes.
fn judge(data: &[u8], t: &mut Tally) -> Option<(String, String)> {
    let lz = LZ10CompressionFormat {};
    t.calls += 2;
    let out = match util::catch(|| lz.compress(data)) {
        Err(p) => return Some((format!("panic@{}", p.location), format!("LZ10 compress panicked: {}", p.message))),
        Ok(Err(e)) => return Some(("compress-err".into(), format!("LZ10 compress returned Err({}) for a {}-byte input", e, data.len()))),
        Ok(Ok(o)) => o,
    };
    let dec = match ref_lz::decode(&out, Kind::Lz10, false) {
        Err(e) => return Some((format!("malformed:{}", e.class()), format!("LZ10 output is not a well-formed stream: {:?}", e))),
        Ok(d) => d,
    };
    if dec.declared_len != data.len() {
        return Some(("header-length".into(), format!("header length {} != input length {}", dec.declared_len, data.len())));
    }
    if dec.data != data {
        return Some(("expansion-differs".into(), "independent decoder's expansion differs from the input".into()));
    }
    let mut nrefs = 0;
    for tok in &dec.tokens {
        if let Token::Ref { len, disp } = *tok {
            nrefs += 1;
            if !(3..=18).contains(&len) || !(1..=4096).contains(&disp) {
                return Some(("ref-range".into(), format!("reference len={} disp={} outside 3..=18 / 1..=4096", len, disp)));
            }
            t.class(&format!("len={}", len));
            t.class(lzfam::disp_class(disp));
            if len > disp {
                t.class("overlapping");
            }
        }
    }
    if !dec.tokens.is_empty() {
        t.class(&format!("last_group={}", dec.last_group_tokens));
    }
    if nrefs > 0 {
        t.nontrivial += 1;
    }
    match util::catch(|| lz.decompress(&out)) {
        Err(p) => return Some((format!("panic@{}", p.location), format!("LZ10 decompress of own output panicked: {}", p.message))),
        Ok(Err(e)) => return Some(("own-decompress-err".into(), format!("library decompress rejects the library's own output: {}", e))),
        Ok(Ok(back)) => {
            if back != data {
                return Some(("own-roundtrip-differs".into(), "library decompress(compress(x)) != x".into()));
            }
        }
    }
    // the enum dispatch must be the same codec
    let via_enum = CompressionFormat::LZ10(LZ10CompressionFormat {});
    match util::catch(|| via_enum.compress(data)) {
        Ok(Ok(o2)) if o2 == out => {}
        _ => return Some(("enum-dispatch".into(), "CompressionFormat::LZ10.compress differs from LZ10CompressionFormat.compress".into())),
    }
    None
}

fn case_json(data: &[u8], desc: &str) -> Value {
    if data.len() > (1 << 16) && lzfam::build_recipe_checked(desc).as_deref() == Some(data) {
        return json!({"recipe": desc, "len": data.len()});
    }
    json!({"desc": desc, "len": data.len(), "hex": util::hex(&data[..data.len().min(1 << 16)]), "truncated": data.len() > (1 << 16)})
}

#[allow(non_snake_case)]
fn SKIP_IN_PROCESS(_x: &[u8]) -> bool {
    false
}

fn explore(ctx: &Ctx) -> Outcome {
    let mut total = Tally::new();
    let mut layers = Vec::new();
    // family 1
    for (k, n) in lzfam::small_alphabet_bounds(ctx.tier) {
        let count = lzfam::small_alphabet_count(k, n);
        let t = (0..count)
            .into_par_iter()
            .fold(Tally::new, |mut t, i| {
                let data = lzfam::small_alphabet_nth(k, n, i);
                t.cases += 1;
                if let Some((sig, summary)) = judge(&data, &mut t) {
                    t.violate(sig, summary, case_json(&data, &format!("alphabet {} index {}", k, i)));
                }
                t
            })
            .reduce(Tally::new, Tally::merge);
        layers.push(json!({"family": "all strings", "alphabet": k, "max_len": n, "inputs": count, "completed": true}));
        total.absorb(t);
    }
    // families 2 and 3
    let mut rest: Vec<LzInput> = lzfam::structure_grid(ctx.tier);
    let grid_n = rest.len();
    rest.extend(lzfam::header_boundaries(ctx.tier));
    // large inputs, each described by a recipe (replayable)
    rest.extend(lzfam::big_inputs(ctx.tier, false));
    rest.extend(lzfam::dense_runs(ctx.tier));
    rest.extend(lzfam::twin_blocks());
    rest.extend(lzfam::dense_displacements(ctx.tier));
    rest.extend(lzfam::codec_closure());
    rest.extend(lzfam::near_repeats());
    let t = rest
        .par_iter()
        .fold(Tally::new, |mut t, inp| {
            t.cases += 1;
            if let Some((sig, summary)) = judge(&inp.data, &mut t) {
                t.violate(sig, summary, case_json(&inp.data, &inp.desc));
            }
            t
        })
        .reduce(Tally::new, Tally::merge);
    layers.push(json!({"family": "structure grid prefix|filler|copy(m,d)|tail", "inputs": grid_n, "completed": true}));
    layers.push(json!({"family": "header boundary lengths", "inputs": rest.len() - grid_n, "completed": true}));
    total.absorb(t);

    // call histories: compress(x) then compress(y) on the same thread (state carried from one
    // call to the next — a reused buffer, a cache — would corrupt the second result)
    {
        let mut hist_inputs: Vec<Vec<u8>> = vec![vec![], vec![1], vec![0; 8], (0..8).collect(), (0..9).collect(), vec![7; 300], vec![7; 5000], lzfam::norepeat(40, 3), (0..64).map(|i| (i % 3) as u8).collect()];
        hist_inputs.retain(|x| !SKIP_IN_PROCESS(x));
        let mut t = Tally::new();
        for x in &hist_inputs {
            for y in &hist_inputs {
                let _ = util::catch(|| (LZ10CompressionFormat {}).compress(x));
                t.cases += 1;
                t.calls += 1;
                if let Some((sig, summary)) = judge(y, &mut t) {
                    t.violate(format!("after-previous-call:{}", sig), format!("compress of a {}-byte input right after compressing a {}-byte input: {}", y.len(), x.len(), summary), json!({"history": [util::hex(x), util::hex(y)]}));
                }
            }
        }
        layers.push(json!({"family": "call histories: all ordered pairs of 9 inputs on one thread", "pairs": hist_inputs.len() * hist_inputs.len(), "completed": true}));
        // near-identical inputs back to back: the same length, the same first and last bytes, one
        // byte in the middle changed (incompressible content, so the streams have equal length
        // too) — a result remembered under a cheap fingerprint of the previous call would be reused
        for n in [200usize, 600, 5000, 70_000] {
            let base = lzfam::norepeat(n.min(60_000), 5).into_iter().cycle().take(n).collect::<Vec<u8>>();
            let mut twin = base.clone();
            twin[n / 2] ^= 0x5A;
            for (x, y) in [(&base, &twin), (&twin, &base)] {
                t.cases += 1;
                t.calls += 2;
                let _ = util::catch(|| (LZ10CompressionFormat {}).compress(x).ok().and_then(|s| (LZ10CompressionFormat {}).decompress(&s).ok()));
                if let Some((sig, summary)) = judge(y, &mut t) {
                    t.violate(format!("after-previous-call:{}", sig), format!("round trip of a {}-byte input right after the round trip of its one-byte-different twin: {}", n, summary), json!({"twin_history": n, "twin_first": std::ptr::eq(x, &twin)}));
                }
            }
        }
        total.absorb(t);
    }
    total.sample(json!({"input_hex": "0000000000000000", "note": "8 zero bytes: one literal + one overlapping reference"}));
    total.sample(case_json(&rest[0].data[..rest[0].data.len().min(64)], &rest[0].desc));

    // vacuity guard: the grid exists to reach these classes
    let mut missing = Vec::new();
    for c in ["len=3", "len=18", "disp=2", "disp=4096", "disp=4095", "overlapping",
              "last_group=1", "last_group=2", "last_group=3", "last_group=4", "last_group=5", "last_group=6", "last_group=7", "last_group=8"] {
        if !total.classes.contains_key(c) {
            missing.push(c.to_string());
        }
    }
    let had_violation = !total.violations.is_empty();
    let mut o = total.into_outcome(
        "every input of three families is compressed by mila and the output walked token by token by an independent LZ10 decoder: (1) ALL strings over alphabets {2,3,4} up to the stated lengths, (2) structure grid prefix|no-repeat filler|copy(m bytes from displacement d)|tail, (3) header boundary lengths; non-trivial = output contains at least one back-reference",
        true,
        vec![("layers", json!(layers)), ("unreached_target_classes", json!(missing))],
    );
    if !missing.is_empty() && !had_violation {
        // not a verdict and not an error: a compressor that never emits these classes can still
        // satisfy the property; the evidence records that the grid did not reach them.
        o.warn(format!("vacuity note: reference classes never emitted: {:?}", missing));
    }
    o.assumptions = vec![
        "inputs up to 16 MiB-8 KiB (16 MiB-1 at the thorough tier) — 'every input shorter than 16 MiB' is covered at the length boundaries and by small-scope exhaustion, not in full".into(),
        "unused flag bits of the last group are not constrained".into(),
    ];
    o
}

fn replay(_ctx: &Ctx, case: &Value) -> Vec<Violation> {
    if let Some(r) = case["recipe"].as_str() {
        let data = lzfam::build_recipe(r);
        let mut t = Tally::new();
        return judge(&data, &mut t).map(|(sig, summary)| vec![Violation { sig, summary, case: case.clone() }]).unwrap_or_default();
    }
    if case["truncated"].as_bool().unwrap_or(false) {
        return vec![];
    }
    if let Some(n) = case["twin_history"].as_u64() {
        let n = n as usize;
        let base = lzfam::norepeat(n.min(60_000), 5).into_iter().cycle().take(n).collect::<Vec<u8>>();
        let mut twin = base.clone();
        twin[n / 2] ^= 0x5A;
        let (x, y) = if case["twin_first"].as_bool().unwrap_or(false) { (&twin, &base) } else { (&base, &twin) };
        let _ = util::catch(|| (LZ10CompressionFormat {}).compress(x).ok().and_then(|s| (LZ10CompressionFormat {}).decompress(&s).ok()));
        let mut t = Tally::new();
        return judge(y, &mut t).map(|(sig, summary)| vec![Violation { sig: format!("after-previous-call:{}", sig), summary, case: case.clone() }]).unwrap_or_default();
    }
    if let Some(h) = case["history"].as_array() {
        let x = util::unhex(h[0].as_str().unwrap_or(""));
        let y = util::unhex(h[1].as_str().unwrap_or(""));
        let _ = util::catch(|| (LZ10CompressionFormat {}).compress(&x));
        let mut t = Tally::new();
        return match judge(&y, &mut t) {
            Some((sig, summary)) => vec![Violation { sig: format!("after-previous-call:{}", sig), summary, case: case.clone() }],
            None => vec![],
        };
    }
    let data = util::unhex(case["hex"].as_str().unwrap_or(""));
    let mut t = Tally::new();
    match judge(&data, &mut t) {
        Some((sig, summary)) => vec![Violation { sig, summary, case: case.clone() }],
        None => vec![],
    }
}

fn main() {
    vcore::run_main(PropDef {
        id: "C08",
        level: "model_checking",
        both_builds: BothBuilds::ThoroughOnly,
        explore,
        replay,
        worker: None,
    })
}
