//! C05 — archive-family parsers are total on arbitrary bytes.
//! Engine E3 (chunked sweep in worker subprocesses under a measuring/capping allocator and
//! a watchdog), both arithmetic builds. Deviation-bounded family: every file within one
//! planted deviation of a conforming seed (+ header grids), see DESIGN §4 C05.

use indexmap::IndexMap;
use mila::{arc, aset::ASetFile, fe9_arc, AssetBinary, AssetSpec, BinArchive, Endian, TextArchive, TextArchiveFormat};
use serde_json::{json, Value};
use std::sync::OnceLock;
use std::time::Duration;
use vcore::driver::{BothBuilds, Ctx, Outcome, PropDef, Tier, Violation};
use vcore::isolate::{self, Family};
use vcore::ref_bin::{self, Content, End};
use vcore::ref_pack::{self, ArcLayout, ArcTweak, PackLayout};
use vcore::{alloc, util, Tally};

#[derive(Clone, Copy, Debug, PartialEq, Eq)]
enum Entry {
    BinLE,
    BinBE,
    TextSjisLE,
    TextSjisBE,
    TextUniLE,
    TextUniBE,
    Arc,
    Pack,
    Aset,
    Asset,
}
const ENTRIES: [Entry; 10] = [Entry::BinLE, Entry::BinBE, Entry::TextSjisLE, Entry::TextSjisBE, Entry::TextUniLE, Entry::TextUniBE, Entry::Arc, Entry::Pack, Entry::Aset, Entry::Asset];

impl Entry {
    fn name(self) -> &'static str {
        match self {
            Entry::BinLE => "BinArchive::from_bytes/LE",
            Entry::BinBE => "BinArchive::from_bytes/BE",
            Entry::TextSjisLE => "TextArchive::from_bytes/ShiftJIS/LE",
            Entry::TextSjisBE => "TextArchive::from_bytes/ShiftJIS/BE",
            Entry::TextUniLE => "TextArchive::from_bytes/Unicode/LE",
            Entry::TextUniBE => "TextArchive::from_bytes/Unicode/BE",
            Entry::Arc => "arc::from_bytes",
            Entry::Pack => "fe9_arc::parse",
            Entry::Aset => "ASetFile::from_archive",
            Entry::Asset => "AssetBinary::from_archive",
        }
    }
    fn short(self) -> &'static str {
        match self {
            Entry::BinLE => "bin-le",
            Entry::BinBE => "bin-be",
            Entry::TextSjisLE => "text-sjis-le",
            Entry::TextSjisBE => "text-sjis-be",
            Entry::TextUniLE => "text-uni-le",
            Entry::TextUniBE => "text-uni-be",
            Entry::Arc => "arc",
            Entry::Pack => "pack",
            Entry::Aset => "aset",
            Entry::Asset => "asset",
        }
    }
    /// endianness of the bin-archive header this entry point reads (None for pack)
    fn bin_endian(self) -> Option<End> {
        match self {
            Entry::BinBE | Entry::TextSjisBE | Entry::TextUniBE => Some(End::Big),
            Entry::Pack => None,
            _ => Some(End::Little),
        }
    }
    /// Parse, and if accepted re-serialize. Returns "err" / "ok" / "ok+reser-err".
    fn run(self, b: &[u8]) -> &'static str {
        fn fin<E>(r: Result<Vec<u8>, E>) -> &'static str {
            if r.is_ok() {
                "ok"
            } else {
                "ok+reser-err"
            }
        }
        match self {
            Entry::BinLE | Entry::BinBE => {
                let e = if self == Entry::BinLE { Endian::Little } else { Endian::Big };
                match BinArchive::from_bytes(b, e) {
                    Err(_) => "err",
                    Ok(a) => fin(a.serialize()),
                }
            }
            Entry::TextSjisLE | Entry::TextSjisBE | Entry::TextUniLE | Entry::TextUniBE => {
                let f = if matches!(self, Entry::TextSjisLE | Entry::TextSjisBE) { TextArchiveFormat::ShiftJIS } else { TextArchiveFormat::Unicode };
                let e = if matches!(self, Entry::TextSjisLE | Entry::TextUniLE) { Endian::Little } else { Endian::Big };
                match TextArchive::from_bytes(b, f, e) {
                    Err(_) => "err",
                    Ok(a) => fin(a.serialize()),
                }
            }
            Entry::Arc => match arc::from_bytes(b) {
                Err(_) => "err",
                Ok(_) => "ok",
            },
            Entry::Pack => match fe9_arc::parse(b) {
                Err(_) => "err",
                Ok(m) => fin(fe9_arc::serialize(&m)),
            },
            Entry::Aset => match BinArchive::from_bytes(b, Endian::Little) {
                Err(_) => "err",
                Ok(a) => match ASetFile::from_archive(&a) {
                    Err(_) => "err",
                    Ok(s) => fin(s.serialize()),
                },
            },
            Entry::Asset => match BinArchive::from_bytes(b, Endian::Little) {
                Err(_) => "err",
                Ok(a) => match AssetBinary::from_archive(&a) {
                    Err(_) => "err",
                    Ok(s) => fin(s.serialize()),
                },
            },
        }
    }
}

// ------------------------------------------------------------------------------------
// seeds

#[derive(Clone)]
struct Seed {
    name: String,
    bytes: Vec<u8>,
    entries: Vec<Entry>,
}

/// text seeds are written by the REFERENCE writer (a seed must not depend on mila's serializer)
fn text_seed(fmt: TextArchiveFormat, e: Endian) -> Vec<u8> {
    let rfmt = match fmt {
        TextArchiveFormat::ShiftJIS => vcore::ref_text::Fmt::ShiftJis,
        TextArchiveFormat::Unicode => vcore::ref_text::Fmt::Unicode,
    };
    let re = match e {
        Endian::Big => End::Big,
        Endian::Little => End::Little,
    };
    let mut entries: Vec<(String, String)> = vec![("MID_A".into(), "hello\nworld".into()), ("MID_B".into(), "".into()), ("MID_キー".into(), "日本".into())];
    if rfmt == vcore::ref_text::Fmt::Unicode {
        // supplementary-plane characters (surrogate pairs with lead units from D83D to DBFF)
        entries.push(("MID_ASTRAL".into(), "\u{20BB7}\u{20BB7}\u{20BB7}\u{1F600}\u{10FFFF}x".into()));
        entries.push(("MID_ASTRAL2".into(), "\u{2A6D6}\u{10000}".into()));
    }
    vcore::ref_text::write_image(rfmt, re, "title", &entries).expect("reference text seed")
}

fn aset_seed() -> Vec<u8> {
    let mut a = ASetFile::new(Some("meta".into()));
    a.anim_clip_table = (0..257).map(|i| if i % 3 == 0 { Some(format!("c{}", i)) } else { None }).collect();
    let mut s1: Vec<Option<String>> = vec![None; 257];
    s1[0] = Some("SetA".into());
    s1[1] = Some("x".into());
    s1[40] = Some("y".into());
    s1[256] = Some("z".into());
    a.sets.push(s1);
    a.sets.push(vec![None; 257]);
    util::catch(|| a.serialize().unwrap_or_default()).unwrap_or_default()
}

/// every clip name present, one set with all 256 slots named, one with none, one sparse —
/// written by the REFERENCE writer (the seed must not depend on mila's own serializer)
fn aset_full_seed() -> Vec<u8> {
    let clip: Vec<Option<String>> = (0..257).map(|i| Some(format!("clip{}", i))).collect();
    let mut full: Vec<Option<String>> = (0..257).map(|i| Some(format!("n{}", i))).collect();
    full[0] = Some("Full".into());
    let mut sparse: Vec<Option<String>> = vec![None; 257];
    sparse[32] = Some("".into());
    sparse[255] = Some("ﾂｱ".into());
    vcore::ref_aset::write_image(None, &clip, &[full, vec![None; 257], sparse])
}

fn asset_seed() -> Vec<u8> {
    let mut b = AssetBinary::new();
    b.flags = 0x0102_0304;
    let mut s = AssetSpec::new();
    s.name = Some("spec".into());
    s.body_model = Some("body".into());
    s.voice = Some("voice".into());
    s.use_hair_color = true;
    s.hair_color = [1, 2, 3, 4];
    s.use_model_size = true;
    s.model_size = 1.5;
    s.use_unk13 = true;
    s.unk13 = 77;
    b.specs.push(s);
    let mut s2 = AssetSpec::new();
    s2.name = Some("short".into());
    s2.conditional1 = Some("c1".into());
    b.specs.push(s2);
    util::catch(|| b.serialize().unwrap_or_default()).unwrap_or_default()
}

fn seeds() -> &'static Vec<Seed> {
    static S: OnceLock<Vec<Seed>> = OnceLock::new();
    S.get_or_init(|| {
        let bin_all: Vec<Entry> = ENTRIES.iter().cloned().filter(|e| *e != Entry::Pack).collect();
        let mut v = Vec::new();
        let fixture = |name: &str| std::fs::read(format!("/repo/resources/test/{}", name)).ok();
        // a seed produced by one of mila's own serializers is skipped when that serializer fails or
        // panics (the seed generators must not take the harness down with the subject)
        let mut add = |name: &str, bytes: Vec<u8>, entries: Vec<Entry>| {
            if !bytes.is_empty() {
                v.push(Seed { name: name.to_string(), bytes, entries })
            }
        };
        for (name, natural) in [
            ("Allocate_NoDestinationShift.bin", bin_all.clone()),
            ("Allocate_NoLabelShift.bin", bin_all.clone()),
            ("ArchiveTest_BadInternalPointer.bin", bin_all.clone()),
            ("ArchiveTest_BadSize.bin", bin_all.clone()),
            ("ArchiveTest_FileSizeMismatch.bin", bin_all.clone()),
            ("ArchiveTest_OnlyText.bin", bin_all.clone()),
            ("ArchiveTest_Deallocate_Mixed2.bin", bin_all.clone()),
            ("ArchiveTest_Mixed1.bin", vec![Entry::BinLE, Entry::BinBE, Entry::TextSjisLE, Entry::Asset]),
            ("ArchiveTest_Mixed2.bin", vec![Entry::BinLE, Entry::BinBE, Entry::TextUniLE, Entry::Aset]),
            ("ArchiveTest_Allocate_Mixed2.bin", vec![Entry::BinLE, Entry::Arc]),
            ("TextArchive_Legacy_Test.bin", bin_all.clone()),
            ("TextArchive_Test.bin", bin_all.clone()),
            ("AssetBinary_Test.bin", vec![Entry::Asset, Entry::BinLE, Entry::Aset]),
            ("ArcTest.arc", vec![Entry::Arc, Entry::BinLE]),
            ("FE14Aset_Test.bin", vec![Entry::Aset, Entry::BinLE]),
            ("FE9Arc.bin", vec![Entry::Pack]),
        ] {
            if let Some(b) = fixture(name) {
                add(name, b, natural);
            }
        }
        // generated conforming files
        let mut c = Content::new(End::Big);
        c.data = vec![0; 16];
        c.strings.insert(0, "日本".into());
        c.pointers.insert(4, 12);
        c.labels.insert(0, vec!["B".into(), "A".into()]);
        c.labels.insert(16, vec!["End".into()]);
        add("gen:be-archive", ref_bin::write_canonical(&c), bin_all.clone());
        let mut c2 = Content::new(End::Little);
        c2.data = vec![0; 12];
        c2.cstrings.insert(0, "pool".into());
        c2.cstrings.insert(4, "ab".into());
        c2.strings.insert(8, "s".into());
        c2.labels.insert(8, vec!["L".into()]);
        add("gen:cstring-archive", ref_bin::write_canonical(&ref_bin::materialise_cstrings(&c2)), bin_all.clone());
        add("gen:empty-archive", ref_bin::write_canonical(&Content::new(End::Little)), bin_all.clone());
        let files2: Vec<(String, Vec<u8>)> = vec![("a.bin".into(), vec![1, 2, 3, 4, 5]), ("日本".into(), vec![]), ("c".into(), (0..33).collect())];
        for (i, padded) in [true, false].iter().enumerate() {
            let l = ArcLayout { padded: *padded, tables_first: i == 1, record_order: vec![2, 0, 1], body_order: vec![0, 1, 2], info_before_count: false };
            add(if *padded { "gen:arc-padded" } else { "gen:arc-unpadded" }, ref_pack::build_arc(&files2, &l, &ArcTweak::default()).bytes, vec![Entry::Arc, Entry::BinLE, Entry::BinBE]);
        }
        let pl = PackLayout { names_after: false, reverse_bodies: false, gaps: false, reverse_names: false };
        add("gen:pack-empty", ref_pack::build_pack(&[], &pl), vec![Entry::Pack]);
        add("gen:pack-3", ref_pack::build_pack(&files2, &pl), vec![Entry::Pack]);
        add("gen:pack-3-rearranged", ref_pack::build_pack(&files2, &PackLayout { names_after: true, reverse_bodies: true, gaps: true, reverse_names: true }), vec![Entry::Pack]);
        add("gen:text-sjis-le", text_seed(TextArchiveFormat::ShiftJIS, Endian::Little), vec![Entry::TextSjisLE, Entry::TextUniLE, Entry::BinLE]);
        add("gen:text-sjis-be", text_seed(TextArchiveFormat::ShiftJIS, Endian::Big), vec![Entry::TextSjisBE, Entry::BinBE]);
        add("gen:text-uni-le", text_seed(TextArchiveFormat::Unicode, Endian::Little), vec![Entry::TextUniLE, Entry::TextSjisLE, Entry::BinLE]);
        add("gen:text-uni-be", text_seed(TextArchiveFormat::Unicode, Endian::Big), vec![Entry::TextUniBE, Entry::BinBE]);
        add("gen:aset", aset_seed(), vec![Entry::Aset, Entry::BinLE]);
        add("gen:aset-full", aset_full_seed(), vec![Entry::Aset]);
        add("gen:aset-empty", util::catch(|| ASetFile::new(Some("".into())).serialize().unwrap_or_default()).unwrap_or_default(), vec![Entry::Aset, Entry::Asset]);
        add("gen:asset-empty", util::catch(|| AssetBinary::new().serialize().unwrap_or_default()).unwrap_or_default(), vec![Entry::Asset, Entry::Aset]);
        let dup: Vec<(String, Vec<u8>)> = vec![("same".into(), vec![1, 2, 3]), ("same".into(), vec![4]), ("other".into(), vec![])];
        add("gen:pack-duplicate-names", ref_pack::build_pack(&dup, &pl), vec![Entry::Pack]);
        add("gen:text-empty-sjis", util::catch(|| TextArchive::new(TextArchiveFormat::ShiftJIS, Endian::Big).serialize().unwrap_or_default()).unwrap_or_default(), vec![Entry::TextSjisBE, Entry::BinBE]);
        add("gen:text-empty-uni", util::catch(|| TextArchive::new(TextArchiveFormat::Unicode, Endian::Little).serialize().unwrap_or_default()).unwrap_or_default(), vec![Entry::TextUniLE, Entry::BinLE]);
        add("gen:asset", asset_seed(), vec![Entry::Asset, Entry::BinLE, Entry::Aset, Entry::TextSjisLE]);
        v
    })
}

// ------------------------------------------------------------------------------------
// deviations

fn b32(len: usize, dsize: usize) -> Vec<u32> {
    let l = len as u32;
    let d = dsize as u32;
    let mut v = vec![
        0, 1, 2, 3, 4, 7, 8, 0x1F, 0x20, 0x21,
        l.wrapping_sub(0x21), l.wrapping_sub(0x20), l.wrapping_sub(0x1F), l.wrapping_sub(4), l.wrapping_sub(1), l, l.wrapping_add(1),
        d.wrapping_sub(1), d, d.wrapping_add(1),
        0x3FFF_FFFF, 0x4000_0000, 0x7FFF_FFFF, 0x8000_0000, 0xFFFF_FFE0, 0xFFFF_FFF0, 0xFFFF_FFFC, 0xFFFF_FFFF,
        // words that are special as TEXT wherever they land: a byte-order mark before a letter (both
        // marks), a lone high / low surrogate, a reversed surrogate pair, a letter before a high surrogate
        0x0000_FEFF, 0x0041_FEFF, 0x0041_FFFE, 0x0041_D800, 0xD800_DC00, 0xD83D_0041,
    ];
    v.sort();
    v.dedup();
    v
}

// (0x81 / 0xFA: Shift-JIS lead bytes that leave a character dangling in front of whatever follows)
const BYTE_VALUES: [u8; 7] = [0x00, 0x01, 0x7F, 0x80, 0xFF, 0x81, 0xFA];
const APPENDS: [(usize, u8); 6] = [(1, 0), (4, 0), (32, 0), (1, 0xFF), (4, 0xFF), (32, 0xFF)];

struct Plan {
    /// offsets at which 4-byte words are overwritten
    word_offsets: Vec<usize>,
    /// offsets at which single bytes are overwritten
    byte_offsets: Vec<usize>,
    values: Vec<u32>,
    truncations: Vec<usize>,
    /// aligned offsets among which every ordered pair (src, dst) is tried: the word at src is
    /// copied over the word at dst (two fields made to agree with each other)
    copy_offsets: Vec<usize>,
}

fn plan(seed: &Seed, tier: Tier) -> Plan {
    let len = seed.bytes.len();
    let dsize = if len >= 8 { u32::from_le_bytes([seed.bytes[4], seed.bytes[5], seed.bytes[6], seed.bytes[7]]) as usize } else { 0 };
    let dsize = if dsize > len { u32::from_be_bytes([seed.bytes[4], seed.bytes[5], seed.bytes[6], seed.bytes[7]]) as usize } else { dsize };
    let big = len > 1500 && tier == Tier::Quick;
    let huge = len > 8000 && tier == Tier::Quick;
    let tables = 0x20 + dsize.min(len);
    let keep = |o: usize| -> bool {
        if huge {
            // header, the first bytes of the pointer table, every 256th offset, the last 128 bytes
            return o < 0x40 || (o >= tables && o < tables + 32) || o % 256 == 0 || o + 128 > len;
        }
        if !big {
            return true;
        }
        // header, then every 16th offset, plus the whole tail after the data region (tables + text)
        o < 0x60 || o % 16 == 0 || (o >= tables && (o % 4 == 0 || o + 256 > len))
    };
    let word_offsets: Vec<usize> = (0..len.saturating_sub(3)).filter(|o| keep(*o)).collect();
    let byte_offsets: Vec<usize> = (0..len).filter(|o| keep(*o)).collect();
    let truncations: Vec<usize> = (0..len).filter(|o| !huge || *o < 0x60 || o % 61 == 0 || o + 64 > len || (*o >= tables && *o < tables + 16)).collect();
    let copy_offsets: Vec<usize> = if len <= 700 || tier == Tier::Thorough && len <= 1500 { (0..len / 4).map(|w| w * 4).collect() } else { (0..len / 4).map(|w| w * 4).filter(|o| *o < 0x30 || (*o >= tables && *o < tables + 64)).collect() };
    Plan { word_offsets, byte_offsets, values: b32(len, dsize), truncations, copy_offsets }
}

fn plan_count(p: &Plan) -> u64 {
    (p.word_offsets.len() * p.values.len() * 2 + p.byte_offsets.len() * BYTE_VALUES.len() + p.truncations.len() + p.copy_offsets.len() * p.copy_offsets.len() + APPENDS.len() + 1) as u64
}

/// deviation index → (bytes, description)
fn deviate(seed: &Seed, p: &Plan, mut i: u64) -> (Vec<u8>, String) {
    let mut b = seed.bytes.clone();
    if i == 0 {
        return (b, "unmodified".into());
    }
    i -= 1;
    let nw = (p.word_offsets.len() * p.values.len() * 2) as u64;
    if i < nw {
        let be = i % 2 == 1;
        let vi = ((i / 2) % p.values.len() as u64) as usize;
        let oi = (i / 2 / p.values.len() as u64) as usize;
        let o = p.word_offsets[oi];
        let v = p.values[vi];
        let w = if be { v.to_be_bytes() } else { v.to_le_bytes() };
        b[o..o + 4].copy_from_slice(&w);
        return (b, format!("word@{:#x}={:#x}{}", o, v, if be { "be" } else { "le" }));
    }
    i -= nw;
    let nb = (p.byte_offsets.len() * BYTE_VALUES.len()) as u64;
    if i < nb {
        let o = p.byte_offsets[(i / BYTE_VALUES.len() as u64) as usize];
        let v = BYTE_VALUES[(i % BYTE_VALUES.len() as u64) as usize];
        b[o] = v;
        return (b, format!("byte@{:#x}={:#x}", o, v));
    }
    i -= nb;
    if i < p.truncations.len() as u64 {
        let at = p.truncations[i as usize];
        b.truncate(at);
        return (b, format!("truncate@{}", at));
    }
    i -= p.truncations.len() as u64;
    let nc = (p.copy_offsets.len() * p.copy_offsets.len()) as u64;
    if i < nc {
        let src = p.copy_offsets[(i / p.copy_offsets.len() as u64) as usize];
        let dst = p.copy_offsets[(i % p.copy_offsets.len() as u64) as usize];
        let w = [b[src], b[src + 1], b[src + 2], b[src + 3]];
        b[dst..dst + 4].copy_from_slice(&w);
        return (b, format!("copy word@{:#x} -> @{:#x}", src, dst));
    }
    i -= nc;
    let (n, v) = APPENDS[i as usize % APPENDS.len()];
    b.extend(std::iter::repeat(v).take(n));
    (b, format!("append {}x{:#x}", n, v))
}

// header grid: all 32-byte files whose four header words range over a boundary set
fn hdr_values(tier: Tier) -> Vec<u32> {
    match tier {
        Tier::Quick => vec![0, 1, 4, 8, 0x20, 0x21, 0x1FFF_FFFF, 0x4000_0000, 0x7FFF_FFFF, 0x8000_0000, 0xFFFF_FFF0, 0xFFFF_FFFF],
        Tier::Thorough => b32(32, 0),
    }
}
fn hdr_count(tier: Tier) -> u64 {
    (hdr_values(tier).len() as u64).pow(4)
}
fn hdr_case(tier: Tier, mut i: u64, e: End) -> Vec<u8> {
    let vals = hdr_values(tier);
    let n = vals.len() as u64;
    let mut b = vec![0u8; 32];
    for w in 0..4 {
        let v = vals[(i % n) as usize];
        i /= n;
        b[w * 4..w * 4 + 4].copy_from_slice(&e.u32(v));
    }
    b
}

/// "consistent lies": the file-size word agrees with the (untrue) data size / pointer count /
/// label count, so a parser that validates the totals against the DECLARED size only is fooled
const HDRC_COUNTS: [u32; 7] = [0, 1, 2, 0x1000, 0x1000_0000, 0x3FFF_FFFF, 0xFFFF_FFFF];
const HDRC_LENS: [usize; 3] = [32, 36, 64];
fn hdrc_count() -> u64 {
    (hdr_values(Tier::Thorough).len() * HDRC_COUNTS.len() * HDRC_COUNTS.len() * HDRC_LENS.len()) as u64
}
fn hdrc_case(mut i: u64, e: End) -> Vec<u8> {
    let vals = hdr_values(Tier::Thorough);
    let len = HDRC_LENS[(i % HDRC_LENS.len() as u64) as usize];
    i /= HDRC_LENS.len() as u64;
    let n = HDRC_COUNTS[(i % 7) as usize];
    i /= 7;
    let p = HDRC_COUNTS[(i % 7) as usize];
    i /= 7;
    let d = vals[(i % vals.len() as u64) as usize];
    let total = d.wrapping_add(p.wrapping_mul(4)).wrapping_add(n.wrapping_mul(8)).wrapping_add(0x20);
    let mut b = vec![0u8; len];
    b[0..4].copy_from_slice(&e.u32(total));
    b[4..8].copy_from_slice(&e.u32(d));
    b[8..12].copy_from_slice(&e.u32(p));
    b[12..16].copy_from_slice(&e.u32(n));
    b
}

// pack header families
fn pack_small_count() -> u64 {
    1 + 256 + 65536
}
fn pack_small(i: u64) -> Vec<u8> {
    if i == 0 {
        vec![]
    } else if i <= 256 {
        vec![(i - 1) as u8]
    } else {
        let k = i - 257;
        vec![(k >> 8) as u8, k as u8]
    }
}
fn pack_hdr(i: u64, tail: usize) -> Vec<u8> {
    let mut b = b"pack".to_vec();
    b.extend((i as u16).to_be_bytes());
    b.extend(std::iter::repeat(0u8).take(tail));
    b
}

// ------------------------------------------------------------------------------------
// judging one (entry, bytes)

fn alloc_cap(len: usize) -> usize {
    (1 << 20) + 64 * len
}
const HARD_CAP: usize = 64 << 20;

/// must the parser reject this buffer on the strength of its header / entry table?
fn must_reject(entry: Entry, b: &[u8]) -> Option<&'static str> {
    match entry.bin_endian() {
        Some(e) => {
            if ref_bin::header_overdeclares(b, e) {
                Some("header declares more data/pointers/labels than the buffer holds")
            } else {
                None
            }
        }
        None => {
            // pack
            if b.len() < 6 || &b[0..4] != b"pack" {
                return None; // wrong magic / too short: must not panic, verdict open here
            }
            let n = u16::from_be_bytes([b[4], b[5]]) as u64;
            if n > 0 && 8 + 16 * n > b.len() as u64 {
                return Some("entry table longer than the buffer");
            }
            for i in 0..n as usize {
                let at = 8 + 16 * i;
                let rd = |o: usize| u32::from_be_bytes([b[at + o], b[at + o + 1], b[at + o + 2], b[at + o + 3]]) as u64;
                if rd(8) + rd(12) > b.len() as u64 {
                    return Some("entry declares file bytes beyond the buffer");
                }
            }
            None
        }
    }
}

fn judge(entry: Entry, b: &[u8], what: &str, case: Value, t: &mut Tally) {
    t.calls += 1;
    alloc::reset_max();
    alloc::set_hard_cap(HARD_CAP);
    let r = util::catch(|| entry.run(b));
    alloc::set_hard_cap(usize::MAX);
    let max = alloc::max_request();
    match r {
        Err(p) => {
            t.violate(format!("panic@{}:{}", p.location, entry.short()), format!("{} panicked on {} ({} bytes): {}", entry.name(), what, b.len(), p.message), case);
            return;
        }
        Ok(class) => {
            t.class(&format!("{}:{}", entry.short(), class));
            if class != "err" {
                if let Some(why) = must_reject(entry, b) {
                    t.violate(format!("accepted-overdeclared:{}", entry.short()), format!("{} accepted {} ({} bytes) although the {}", entry.name(), what, b.len(), why), case.clone());
                }
            }
        }
    }
    if max > alloc_cap(b.len()) {
        t.violate(
            format!("alloc:{}", entry.short()),
            format!("{} requested a single buffer of {} bytes while parsing {} ({} bytes; cap {} = 1 MiB + 64 × input)", entry.name(), max, what, b.len(), alloc_cap(b.len())),
            case,
        );
    }
}

fn parse_tag(tag: &str) -> (String, usize, usize) {
    // "dev:<seed>:<entry>" | "hdr:<entry>" | "packsmall" | "packhdr:<tail>"
    let parts: Vec<&str> = tag.split(':').collect();
    let a = parts.get(1).and_then(|s| s.parse().ok()).unwrap_or(0);
    let b = parts.get(2).and_then(|s| s.parse().ok()).unwrap_or(0);
    (parts[0].to_string(), a, b)
}

fn run_case(tier: Tier, tag: &str, idx: u64, t: &mut Tally) {
    let (kind, a, b) = parse_tag(tag);
    let case = json!({"family": tag, "index": idx, "tier": tier.name()});
    t.cases += 1;
    match kind.as_str() {
        "dev" => {
            let seed = &seeds()[a];
            let entry = ENTRIES[b];
            let p = plan(seed, tier);
            let (bytes, desc) = deviate(seed, &p, idx);
            if idx > 0 {
                t.nontrivial += 1;
            }
            judge(entry, &bytes, &format!("{} with {}", seed.name, desc), case, t);
        }
        "hdr" => {
            let entry = ENTRIES[a];
            let e = entry.bin_endian().unwrap_or(End::Little);
            let bytes = hdr_case(tier, idx, e);
            t.nontrivial += 1;
            judge(entry, &bytes, "a 32-byte file of header words", case, t);
        }
        "hdrc" => {
            let entry = ENTRIES[a];
            let e = entry.bin_endian().unwrap_or(End::Little);
            let bytes = hdrc_case(idx, e);
            t.nontrivial += 1;
            judge(entry, &bytes, "a header whose file-size word agrees with its (untrue) totals", case, t);
        }
        "packsmall" => {
            let bytes = pack_small(idx);
            judge(Entry::Pack, &bytes, "a 0..2 byte buffer", case, t);
        }
        "packhdr" => {
            let bytes = pack_hdr(idx, a);
            t.nontrivial += 1;
            judge(Entry::Pack, &bytes, "'pack' + count header", case, t);
        }
        _ => {}
    }
}

fn families(tier: Tier) -> Vec<Family> {
    let mut f = Vec::new();
    for (si, s) in seeds().iter().enumerate() {
        let p = plan(s, tier);
        for e in &s.entries {
            let ei = ENTRIES.iter().position(|x| x == e).unwrap();
            f.push(Family::new(format!("dev:{}:{}", si, ei), plan_count(&p)));
        }
    }
    for (ei, e) in ENTRIES.iter().enumerate() {
        if *e != Entry::Pack {
            f.push(Family::new(format!("hdr:{}", ei), hdr_count(tier)));
            f.push(Family::new(format!("hdrc:{}", ei), hdrc_count()));
        }
    }
    f.push(Family::new("packsmall", pack_small_count()));
    f.push(Family::new("packhdr:0", 65536));
    f.push(Family::new("packhdr:16", 65536));
    f
}

/// the reference-built aset seed must be a file mila reads as three sets (otherwise the seed
/// would silently exercise the error path only)
fn seed_self_check() -> Option<String> {
    let b = aset_full_seed();
    match util::catch(|| BinArchive::from_bytes(&b, Endian::Little).map_err(|e| e.to_string()).and_then(|a| ASetFile::from_archive(&a).map_err(|e| e.to_string())).map(|s| (s.sets.len(), s.sets.first().map(|x| x.iter().filter(|y| y.is_some()).count())))) {
        Ok(Ok((3, Some(257)))) => {
            let t = text_seed(TextArchiveFormat::Unicode, Endian::Little);
            match util::catch(|| TextArchive::from_bytes(&t, TextArchiveFormat::Unicode, Endian::Little).map(|a| a.get_entries().len()).map_err(|e| e.to_string())) {
                Ok(Ok(5)) => None,
                other => Some(format!("the reference-built Unicode text seed is not read as 5 entries: {:?}", other.map_err(|p| p.message))),
            }
        }
        other => Some(format!("the reference-built full aset seed is not read as 3 sets with a full first set: {:?}", other.map_err(|p| p.message))),
    }
}

fn explore(ctx: &Ctx) -> Outcome {
    let fams = families(ctx.tier);
    let args = vec!["--tier".to_string(), ctx.tier.name().to_string()];
    let res = match isolate::sweep(&ctx.exe, &args, 16, &fams, 2048, Duration::from_secs(60)) {
        Ok(r) => r,
        Err(e) => {
            let mut o = Outcome::default();
            o.machinery(format!("worker pool failed: {}", e));
            return o;
        }
    };
    let capped = res.capped.clone();
    let mut tally = res.tally;
    for f in &res.fatals {
        let (kind, a, b) = parse_tag(&f.family);
        let entry = match kind.as_str() {
            "dev" => ENTRIES[b],
            "hdr" | "hdrc" => ENTRIES[a],
            _ => Entry::Pack,
        };
        let (sig, summary) = isolate::describe_fatal(entry.short(), &f.status);
        tally.cases += 1;
        tally.violate(sig, format!("case {} #{} ({}): {}", f.family, f.index, entry.name(), summary), json!({"family": f.family, "index": f.index, "tier": ctx.tier.name()}));
    }
    let seed_list: Vec<Value> = seeds().iter().map(|s| json!({"seed": s.name, "bytes": s.bytes.len(), "entry_points": s.entries.iter().map(|e| e.short()).collect::<Vec<_>>(), "single_deviations": plan_count(&plan(s, ctx.tier))})).collect();
    tally.sample(json!({"family": "dev:0:0", "index": 57, "what": deviate(&seeds()[0], &plan(&seeds()[0], ctx.tier), 57).1}));
    tally.sample(json!({"family": "hdr:0", "index": 12345, "hex": util::hex(&hdr_case(ctx.tier, 12345, End::Little))}));
    let mut o = tally.into_outcome(
        "deviation-bounded family, deviation bound 1 completed: every conforming seed (16 fixture files + 22 generated files) × its entry points × EVERY single deviation (incl. every ordered pair of aligned words copied one over the other, for small seeds) — the 4 bytes at every offset overwritten with every boundary value of B32 in both byte orders, every byte overwritten with {00,01,7F,80,FF}, every truncation length, appends of 1/4/32 bytes of 00/FF — plus all 32-byte files whose four header words range over a boundary set (9 bin-archive entry points), all buffers of ≤ 2 bytes and all 'pack'+count headers for the pack parser. Per case and build: returns Ok/Err (panic located, abort/timeout attributed by subprocess isolation), no single allocation request above 1 MiB + 64 × input, over-declaring headers/entries rejected, anything accepted re-serialized under the same guards. non-trivial = deviated inputs",
        true,
        vec![("seeds", json!(seed_list)), ("families", json!(fams.len())), ("worker_respawns", json!(res.respawns)), ("chunks", json!(res.chunks)), ("deviation_bound_completed", json!(1)), ("alloc_cap", json!("1 MiB + 64 × input length; hard refusal at 64 MiB"))],
    );
    if let Some(m) = seed_self_check() {
        o.warn(m);
    }
    if let Some(c) = &capped {
        o.coverage.exhaustive = false;
        o.warn(format!("sweep capped: {}", c));
    }
    o.assumptions = vec![
        "'all byte strings' means all buffers within one planted deviation of a conforming file plus the header grids; random inputs named in the quantifier are replaced by these exhaustive grids".into(),
        "quick tier: seeds larger than 1500 bytes get word/byte overwrites at the header, the tables/text tail and every 16th offset; the 14 KiB aset fixture at the header, table start, every 256th offset and the last 128 bytes, truncated at every 61st length; the thorough tier uses every offset and every length".into(),
        "wrong pack magic / shorter-than-header pack buffers: only 'no panic/abort' is required".into(),
    ];
    o
}

fn replay(ctx: &Ctx, case: &Value) -> Vec<Violation> {
    let fam = case["family"].as_str().unwrap_or("").to_string();
    let idx = case["index"].as_u64().unwrap_or(0);
    let args = vec!["--tier".to_string(), case["tier"].as_str().unwrap_or(ctx.tier.name()).to_string()];
    match isolate::sweep(&ctx.exe, &args, 1, &[Family::single(fam.clone(), idx)], 1, Duration::from_secs(60)) {
        Err(_) => vec![],
        Ok(res) => {
            let mut v: Vec<Violation> = res.tally.violations;
            for f in &res.fatals {
                let (sig, summary) = isolate::describe_fatal("replay", &f.status);
                // keep the entry-specific signature used by explore()
                let (kind, a, b) = parse_tag(&f.family);
                let entry = match kind.as_str() {
                    "dev" => ENTRIES[b],
                    "hdr" | "hdrc" => ENTRIES[a],
                    _ => Entry::Pack,
                };
                let sig = sig.replace("replay", entry.short());
                v.push(Violation { sig, summary, case: case.clone() });
            }
            v
        }
    }
}

fn worker(ctx: &Ctx) {
    let tier = ctx.tier;
    let _ = seeds();
    isolate::sweep_worker(move |fam, idx, t| run_case(tier, fam, idx, t));
}

fn main() {
    let _: Option<IndexMap<String, Vec<u8>>> = None;
    vcore::run_main(PropDef { id: "C05", level: "model_checking", both_builds: BothBuilds::Always, explore, replay, worker: Some(worker) })
}
