//! C14 — path localisation inserts the game's language marker and nothing else.
//! Engine E2, exhaustive: all 6 localizers × 8 languages × all relative paths of depth
//! 1..=D over the component alphabet, with/without trailing slash, + degenerate paths.

use props::fsx::{self, Which};
use props::glue;
use rayon::prelude::*;
use serde_json::{json, Value};
use vcore::driver::{BothBuilds, Ctx, Outcome, PropDef, Violation};
use vcore::ref_loc::{self, Lang, Loc, LANGS, LOCS};
use vcore::{util, Tally};

// the last two: characters whose code points END in the byte of an ASCII delimiter (U+662F '/',
// U+4E5C '\\', U+4E2E '.', U+5140 '@', U+4E00 NUL) — a test on a truncated char meets them
const COMPONENTS: [&str; 11] = ["m", "GameData.bin.lz", "a b", "日本", "x.y", "@E", "s_", " ", "b\\c.bin", "是a", "乜丮兀一"];
const DEGENERATE: [&str; 7] = ["", "/", "..", ".", "a/..", "../a/..", "//"];

fn paths(max_depth: usize) -> Vec<String> {
    let mut out = Vec::new();
    for d in 1..=max_depth {
        for idx in util::odometer(COMPONENTS.len(), d) {
            let p: Vec<&str> = idx.iter().map(|i| COMPONENTS[*i]).collect();
            let p = p.join("/");
            out.push(format!("{}/", p));
            out.push(p);
        }
    }
    out
}

fn loc_name(l: Loc) -> String {
    format!("{:?}", l)
}

fn parse_loc(s: &str) -> Loc {
    *LOCS.iter().find(|l| format!("{:?}", l) == s).unwrap_or(&Loc::NoOp)
}
fn parse_lang(s: &str) -> Lang {
    *LANGS.iter().find(|l| format!("{:?}", l) == s).unwrap_or(&Lang::Japanese)
}

/// One case: returns (class, violation?)
fn run_case(loc: Loc, lang: Lang, path: &str) -> (&'static str, Option<(String, String)>) {
    let localizer = glue::localizer(loc);
    let language = glue::language(lang);
    let got = util::catch(|| localizer.localize(path, &language));
    let got = match got {
        Err(p) => {
            return (
                "panic",
                Some((
                    format!("panic@{}", p.location),
                    format!("localize({:?},{:?},{:?}) panicked: {}", loc, lang, path, p.message),
                )),
            )
        }
        Ok(r) => r,
    };
    let degenerate = ref_loc::is_degenerate(path);
    if degenerate && loc == Loc::NoOp {
        return ("degenerate-identity", None);
    }
    match (ref_loc::expected(loc, lang, path), got) {
        (None, Err(_)) => (if degenerate { "err-degenerate" } else { "err-unsupported" }, None),
        (None, Ok(s)) => (
            "bad",
            Some((
                format!("accepted:{}", if degenerate { "no-final-component" } else { "unsupported-language" }),
                format!("localize({:?},{:?},{:?}) = Ok({:?}), an error is required", loc, lang, path, s),
            )),
        ),
        (Some(e), Ok(s)) if e == s => ("ok", None),
        (Some(e), Ok(s)) => (
            "bad",
            Some((
                format!("wrong-result:{:?}", loc),
                format!("localize({:?},{:?},{:?}) = {:?}, expected {:?}", loc, lang, path, s, e),
            )),
        ),
        (Some(e), Err(err)) => (
            "bad",
            Some((
                format!("rejected:{:?}", loc),
                format!("localize({:?},{:?},{:?}) = Err({}), expected {:?}", loc, lang, path, err, e),
            )),
        ),
    }
}

fn explore(ctx: &Ctx) -> Outcome {
    let depth = ctx.tier.pick(4, 5);
    let mut all = paths(depth);
    all.extend(DEGENERATE.iter().map(|s| s.to_string()));
    let tally = all
        .par_iter()
        .fold(Tally::new, |mut t, path| {
            for loc in LOCS {
                for lang in LANGS {
                    let (class, v) = run_case(loc, lang, path);
                    t.cases += 1;
                    t.calls += 1;
                    t.class(class);
                    if ref_loc::marker(loc, lang) != ref_loc::Marker::Identity && !ref_loc::is_degenerate(path) {
                        t.nontrivial += 1;
                    }
                    if let Some((sig, summary)) = v {
                        t.violate(sig, summary, json!({"loc": loc_name(loc), "lang": format!("{:?}", lang), "path": path}));
                    }
                }
            }
            t
        })
        .reduce(Tally::new, Tally::merge);
    let mut tally = tally;
    tally.sample(json!({"loc":"FE14","lang":"Spanish","path":"m/GameData.bin.lz","expected": ref_loc::expected(Loc::FE14, Lang::Spanish, "m/GameData.bin.lz")}));
    tally.sample(json!({"loc":"FE10","lang":"German","path":"日本/","expected": ref_loc::expected(Loc::FE10, Lang::German, "日本/")}));
    let mut o = tally.into_outcome(
        "every (localizer, language, path): 6 × 8 × all relative paths of depth 1..=D over an 11-component alphabet with and without trailing slash, plus 7 degenerate paths; non-trivial = non-identity localizer on a path with a final component",
        true,
        vec![("max_depth", json!(depth)), ("paths", json!(all.len())), ("components", json!(COMPONENTS)), ("degenerate", json!(DEGENERATE))],
    );
    o.assumptions = vec![
        "paths are relative with plain components separated by '/' (no '.', '..' or empty inner components except in the degenerate list)".into(),
        "the filesystem half ('all filesystem operations apply the same mapping') is explored on real directories for all 5 supported games × 8 languages at depth 1 (2 thorough) here, and at full depth for two game/language pairs under C12/C13".into(),
    ];
    // filesystem half: localized writes / reads / existence checks / listings address root/localize(p)
    let fs_part = fsx::explore(ctx, Which::C14);
    o.coverage.states += fs_part.coverage.states;
    o.coverage.transitions += fs_part.coverage.transitions;
    o.coverage.evaluations += fs_part.coverage.evaluations;
    o.coverage.traces_validated_against_impl += fs_part.coverage.transitions;
    o.coverage.extra.insert("filesystem_half".into(), json!({"rule": fs_part.coverage.rule, "states": fs_part.coverage.states, "transitions": fs_part.coverage.transitions, "configurations": fs_part.coverage.extra.get("configurations")}));
    for v in fs_part.violations {
        o.violations.push(Violation { sig: format!("fs:{}", v.sig), summary: v.summary, case: json!({"fs": v.case}) });
    }
    o.machinery_errors.extend(fs_part.machinery_errors);
    o
}

fn replay(ctx: &Ctx, case: &Value) -> Vec<Violation> {
    if let Some(fs_case) = case.get("fs") {
        return fsx::replay(ctx, Which::C14, fs_case).into_iter().map(|v| Violation { sig: format!("fs:{}", v.sig), summary: v.summary, case: case.clone() }).collect();
    }
    let loc = parse_loc(case["loc"].as_str().unwrap_or(""));
    let lang = parse_lang(case["lang"].as_str().unwrap_or(""));
    let path = case["path"].as_str().unwrap_or("");
    match run_case(loc, lang, path).1 {
        Some((sig, summary)) => vec![Violation { sig, summary, case: case.clone() }],
        None => vec![],
    }
}

fn main() {
    vcore::run_main(PropDef {
        id: "C14",
        level: "model_checking",
        both_builds: BothBuilds::ThoroughOnly,
        explore,
        replay,
        worker: None,
    })
}
