//! C07 — text archive is an insertion-ordered map with symmetric newline escaping.
//! Engine E1: BFS over the real TextArchive to the FIXPOINT (the reachable state space over
//! the alphabet is finite), reference model in lock-step, observers in every state.

use mila::{Endian, TextArchive, TextArchiveFormat};
use serde_json::{json, Value};
use std::sync::Arc;
use vcore::bfs::{self, Step, System};
use vcore::driver::{BothBuilds, Coverage, Ctx, Outcome, PropDef, Tier, Violation};
use vcore::ref_text::{self, TextModel};
use vcore::util;

#[derive(Clone, Debug, PartialEq, Eq, Hash, serde::Serialize, serde::Deserialize)]
enum Op {
    Set(String, String),
    Delete(String),
    Title(String),
    /// serialize, parse the image, continue on the parsed archive (clean, same title / entries)
    Reload,
}

const MSGS: [&str; 10] = ["", "x", "\\n", "\n", "x\\ny", "\\\\n", "\\", "n", "\\\nn", "\\n\\n"];

struct Sys {
    keys: Vec<&'static str>,
    fmt: TextArchiveFormat,
    endian: Endian,
    /// init 0 = TextArchive::new, init 1 = parsed from bytes (two entries)
    parsed_image: Vec<u8>,
    /// explore from the new archive only (used by the stateright cross-check)
    only_new: bool,
    /// message alphabet of set_message
    msgs: Vec<String>,
    /// interleaving pass: a call on a SECOND live archive (other format, other keys) before
    /// every call of the history — state kept outside the object is consumed by the wrong one
    decoy: bool,
}

fn decoy_step(d: &mut TextArchive, k: usize) {
    match k % 6 {
        0 => d.set_message("a", "decoy\\nA"),
        1 => d.set_message("zz", "decoy"),
        2 => {
            let _ = d.get_message("a");
            let _ = d.serialize();
        }
        3 => d.delete_message("a"),
        4 => d.set_title("decoy title".to_string()),
        _ => {
            if let Ok(b) = d.serialize() {
                if let Ok(n) = TextArchive::from_bytes(&b, TextArchiveFormat::ShiftJIS, Endian::Big) {
                    *d = n;
                }
            }
        }
    }
}

/// Second message alphabet ("text"): characters outside Shift-JIS that look like members
/// (wave dash, double vertical line, em dash), a leading / trailing U+FEFF, CR and CR LF, tab,
/// astral, Shift-JIS characters whose trail byte is a backslash or is followed by 'n', and
/// characters that are two bytes in UTF-8 and in Shift-JIS with ASCII after them.
const TEXT_MSGS: [&str; 14] = ["", "10\u{301C}20", "\u{2016}", "a\u{2014}b", "\u{FEFF}x", "x\u{FEFF}", "\u{FFFE}", "a\r\nb", "\r", "t\tab", "\u{1F600}", "ソn", "能\\n", "HP×2"];

#[derive(Clone)]
struct St {
    init: usize,
    model: TextModel,
}

fn parsed_seed_model() -> TextModel {
    let mut m = TextModel::new();
    m.set_message("b", "seed\\nB");
    m.set_message("a", "seedA");
    m.dirty = false;
    m
}

impl Sys {
    fn new(keys: Vec<&'static str>, fmt: TextArchiveFormat, endian: Endian) -> Sys {
        let mut t = TextArchive::new(fmt, endian);
        t.set_message("b", "seed\\nB");
        t.set_message("a", "seedA");
        let parsed_image = t.serialize().expect("serialize seed");
        Sys { keys, fmt, endian, parsed_image, only_new: false, msgs: MSGS.iter().map(|m| m.to_string()).collect(), decoy: false }
    }
    fn with_decoy(mut self) -> Sys {
        self.decoy = true;
        self
    }
    fn with_text_msgs(mut self) -> Sys {
        self.msgs = TEXT_MSGS.iter().map(|m| m.to_string()).collect();
        self
    }
    /// can the model's content be written in this system's format at all?
    fn encodable(&self, m: &TextModel) -> bool {
        match self.fmt {
            // keys are label names (Shift-JIS) in both formats
            TextArchiveFormat::Unicode => (vcore::sjis::lossless(&m.title) || m.title.is_empty()) && m.entries.iter().all(|(k, _)| vcore::sjis::lossless(k) || k.is_empty()),
            _ => m.entries.iter().all(|(k, v)| vcore::sjis::lossless(k) || k.is_empty()) && m.entries.iter().all(|(_, v)| v.is_empty() || vcore::sjis::lossless(v)),
        }
    }
    fn fresh(&self, init: usize) -> TextArchive {
        if init == 0 {
            TextArchive::new(self.fmt, self.endian)
        } else {
            TextArchive::from_bytes(&self.parsed_image, self.fmt, self.endian).expect("parse seed")
        }
    }
    fn apply(t: &mut TextArchive, op: &Op) {
        match op {
            Op::Set(k, m) => t.set_message(k, m),
            Op::Delete(k) => t.delete_message(k),
            Op::Title(s) => t.set_title(s.clone()),
            Op::Reload => {}
        }
    }
    /// Reload needs the format: done here, not in `apply`
    fn apply_on(&self, t: &mut TextArchive, op: &Op) {
        if let Op::Reload = op {
            if let Ok(b) = t.serialize() {
                if let Ok(n) = TextArchive::from_bytes(&b, self.fmt, self.endian) {
                    *t = n;
                }
            }
        } else {
            Sys::apply(t, op);
        }
    }
    /// all observers; returns the list of divergences from the model
    /// `pristine` = no mutating call has been made since `new` / `from_bytes`.
    /// Dirty flag, as far as the statement fixes it: clear on a pristine archive, set once any
    /// set_message has been made; after only deletes / set_title calls it is not constrained.
    fn observe(&self, t: &TextArchive, m: &TextModel, pristine: bool) -> Vec<String> {
        let mut d = Vec::new();
        let entries: Vec<(String, String)> = t.get_entries().iter().map(|(k, v)| (k.clone(), v.clone())).collect();
        if entries != m.entries {
            d.push(format!("entries {:?} != model {:?}", entries, m.entries));
        }
        if t.get_title() != m.title {
            d.push(format!("title {:?} != model {:?}", t.get_title(), m.title));
        }
        if m.dirty && !t.is_dirty() {
            d.push("dirty false != model true (a set_message has been made)".to_string());
        }
        if pristine && t.is_dirty() {
            d.push("dirty true != model false (new / parsed archive, nothing called yet)".to_string());
        }
        for k in self.keys.iter().chain(["zz"].iter()) {
            if t.has_message(k) != m.has_message(k) {
                d.push(format!("has_message({:?}) = {} != model", k, t.has_message(k)));
            }
            let g = t.get_message(k);
            if g != m.get_message(k) {
                d.push(format!("get_message({:?}) = {:?} != model {:?}", k, g, m.get_message(k)));
            }
        }
        d
    }
}

impl System for Sys {
    type State = (St, Arc<Vec<Op>>);
    type Key = (TextModel,);
    type Action = Op;
    fn init(&self) -> Vec<Self::State> {
        let mut v = vec![(St { init: 0, model: TextModel::new() }, Arc::new(vec![]))];
        if !self.only_new {
            v.push((St { init: 1, model: parsed_seed_model() }, Arc::new(vec![])));
        }
        v
    }
    fn key(&self, s: &Self::State) -> Self::Key {
        (s.0.model.clone(),)
    }
    fn actions(&self, _s: &Self::State) -> Vec<Op> {
        let mut v = Vec::new();
        for k in &self.keys {
            for m in &self.msgs {
                v.push(Op::Set(k.to_string(), m.clone()));
            }
            v.push(Op::Delete(k.to_string()));
        }
        v.push(Op::Title("".into()));
        v.push(Op::Title("T".into()));
        // (not in the engine cross-check, whose states are rebuilt through set calls only)
        if !self.only_new && self.encodable(&_s.0.model) && !(matches!(self.fmt, TextArchiveFormat::ShiftJIS) && !_s.0.model.title.is_empty()) {
            // (the legacy format does not store the title: a reload would lose it)
            v.push(Op::Reload);
        }
        v
    }
    fn step(&self, s: &Self::State, history: &[Op], op: &Op) -> Step<Self::State> {
        let mut model = s.0.model.clone();
        let mut w = 0u64;
        match op {
            Op::Set(k, m) => {
                if !model.has_message(k) && s.0.model.entries.len() < history.iter().filter(|o| matches!(o, Op::Set(..))).count() {
                    w |= 2; // (re-)add after something was deleted: appends
                }
                model.set_message(k, m)
            }
            Op::Delete(k) => {
                if let Some(i) = model.entries.iter().position(|e| &e.0 == k) {
                    if i > 0 && i + 1 < model.entries.len() {
                        w |= 1; // delete of a middle key
                    }
                }
                model.delete_message(k)
            }
            Op::Title(t) => model.title = t.clone(),
            Op::Reload => model.dirty = false,
        }
        let kind = match op {
            Op::Set(..) => "set_message",
            Op::Delete(..) => "delete_message",
            Op::Title(..) => "set_title",
            Op::Reload => "reload",
        };
        let r = util::catch(|| {
            let mut t = self.fresh(s.0.init);
            // the init state itself must match (clean flag on new / parsed archives)
            let mut decoy = TextArchive::new(TextArchiveFormat::ShiftJIS, Endian::Big);
            for (k, o) in history.iter().enumerate() {
                if self.decoy {
                    decoy_step(&mut decoy, k);
                }
                self.apply_on(&mut t, o);
            }
            if self.decoy {
                decoy_step(&mut decoy, history.len());
            }
            // every query once BEFORE the call on this same instance (a lookup cache filled
            // here must not survive the call)
            for k in self.keys.iter().chain(["zz"].iter()) {
                let _ = t.get_message(k);
                let _ = t.has_message(k);
            }
            let _ = t.get_title().to_string();
            let _ = t.is_dirty();
            let _ = t.get_entries().len();
            self.apply_on(&mut t, op);
            if self.decoy {
                // the second archive is read between the call and the observations
                for k in ["a", "b", "zz"] {
                    let _ = decoy.get_message(k);
                    let _ = decoy.has_message(k);
                }
                let _ = decoy.get_title().to_string();
                let _ = decoy.is_dirty();
                let _ = decoy.get_entries().len();
            }
            let mut d = self.observe(&t, &model, matches!(op, Op::Reload));
            // storing a looked-up message back changes nothing (but the dirty flag)
            for k in &self.keys {
                if let Some(g) = t.get_message(k) {
                    let before: Vec<(String, String)> = t.get_entries().iter().map(|(a, b)| (a.clone(), b.clone())).collect();
                    t.set_message(k, &g);
                    let after: Vec<(String, String)> = t.get_entries().iter().map(|(a, b)| (a.clone(), b.clone())).collect();
                    if before != after {
                        d.push(format!("set_message({:?}, get_message({:?})) changed the entries: {:?} -> {:?}", k, k, before, after));
                    }
                }
            }
            // serialize → parse lists the same keys in the same order, and is clean
            match t.serialize() {
                Err(e) => {
                    if self.encodable(&model) {
                        d.push(format!("serialize failed: {}", e))
                    }
                }
                Ok(bytes) => match TextArchive::from_bytes(&bytes, self.fmt, self.endian) {
                    Err(e) => d.push(format!("from_bytes(serialize()) failed: {}", e)),
                    Ok(back) => {
                        let keys: Vec<&String> = back.get_entries().keys().collect();
                        let want: Vec<&String> = model.entries.iter().map(|e| &e.0).collect();
                        if keys != want {
                            d.push(format!("re-parsed key order {:?} != {:?}", keys, want));
                        }
                        if back.is_dirty() {
                            d.push("a parsed archive is dirty".into());
                        }
                    }
                },
            }
            d
        });
        match r {
            Err(p) => Step::Violation { sig: format!("panic@{}:{}", p.location, kind), summary: format!("{:?} panicked: {}", op, p.message), witnesses: w },
            Ok(d) if !d.is_empty() => {
                let field = d[0].split(|c: char| c == ' ' || c == '(').next().unwrap_or("?").to_string();
                Step::Violation { sig: format!("{}:{}", kind, field), summary: format!("after {:?}: {}", op, d.join("; ")), witnesses: w }
            }
            Ok(_) => {
                let mut h = (*s.1).clone();
                h.push(op.clone());
                Step::Next { state: (St { init: s.0.init, model }, Arc::new(h)), witnesses: w }
            }
        }
    }
    fn witness_names(&self) -> Vec<&'static str> {
        vec!["delete of a middle key", "set of an absent key after earlier sets (appends)"]
    }
}

// ---------------------------------------------------------------------------------------
// Cross-check of the search engine: the same transition system (from the new archive only)
// explored by stateright's BFS. The real object is rebuilt from the model state by
// constructor calls; the unique-state counts of the two engines must agree.

#[derive(Clone, Debug, PartialEq, Eq, Hash)]
struct SrState {
    model: TextModel,
    diverged: bool,
}

struct SrModel {
    sys: Arc<Sys>,
}

impl stateright::Model for SrModel {
    type State = SrState;
    type Action = Op;
    fn init_states(&self) -> Vec<SrState> {
        vec![SrState { model: TextModel::new(), diverged: false }]
    }
    fn actions(&self, state: &SrState, actions: &mut Vec<Op>) {
        if !state.diverged {
            actions.extend(System::actions(&*self.sys, &(St { init: 0, model: state.model.clone() }, Arc::new(vec![]))));
        }
    }
    fn next_state(&self, last: &SrState, op: Op) -> Option<SrState> {
        let mut model = last.model.clone();
        match &op {
            Op::Set(k, m) => model.set_message(k, m),
            Op::Delete(k) => model.delete_message(k),
            Op::Title(t) => model.title = t.clone(),
            Op::Reload => {}
        }
        // rebuild the real archive from the model state alone, apply the call, observe
        let mut t = self.sys.fresh(0);
        t.set_title(last.model.title.clone());
        if last.model.dirty {
            t.set_message("zz_scratch", "x");
            t.delete_message("zz_scratch");
        }
        for (k, v) in &last.model.entries {
            t.set_message(k, &ref_text::escape(v));
        }
        Sys::apply(&mut t, &op);
        let diverged = !self.sys.observe(&t, &model, false).is_empty();
        Some(SrState { model, diverged })
    }
    fn properties(&self) -> Vec<stateright::Property<Self>> {
        vec![stateright::Property::<Self>::always("conforms to the reference map", |_, s: &SrState| !s.diverged)]
    }
}

fn stateright_cross_check(mut sys: Sys) -> (u64, u64, bool) {
    use stateright::{Checker, Model};
    sys.only_new = true;
    let bfs_states = bfs::explore(&sys, None, None).states;
    let checker = SrModel { sys: Arc::new(sys) }.checker().threads(8).spawn_bfs().join();
    let sr_states = checker.unique_state_count() as u64;
    let clean = checker.discoveries().is_empty();
    (bfs_states, sr_states, clean)
}

fn systems(tier: Tier) -> Vec<(String, Sys)> {
    let keys3 = vec!["a", "b", "c"];
    let mut v = vec![
        ("Unicode/Little/3 keys".to_string(), Sys::new(keys3.clone(), TextArchiveFormat::Unicode, Endian::Little)),
        ("ShiftJIS/Big/2 keys".to_string(), Sys::new(vec!["a", "b"], TextArchiveFormat::ShiftJIS, Endian::Big)),
    ];
    v.push(("Unicode/Little/2 keys/text alphabet".to_string(), Sys::new(vec!["a", "ソn"], TextArchiveFormat::Unicode, Endian::Little).with_text_msgs()));
    v.push(("ShiftJIS/Little/2 keys/text alphabet".to_string(), Sys::new(vec!["a", "ソn"], TextArchiveFormat::ShiftJIS, Endian::Little).with_text_msgs()));
    // a key outside the Shift-JIS repertoire: the map must hold it like any other key (only a
    // serialization may refuse it)
    v.push(("Unicode/Little/2 keys, one unencodable".to_string(), Sys::new(vec!["a", "é한"], TextArchiveFormat::Unicode, Endian::Little)));
    v.push(("Unicode/Little/3 keys/second live archive interleaved".to_string(), Sys::new(vec!["a", "b", "c"], TextArchiveFormat::Unicode, Endian::Little).with_decoy()));
    v.push(("ShiftJIS/Big/2 keys/second live archive interleaved".to_string(), Sys::new(vec!["a", "b"], TextArchiveFormat::ShiftJIS, Endian::Big).with_decoy()));
    if tier == Tier::Thorough {
        v.push(("ShiftJIS/Big/3 keys".to_string(), Sys::new(keys3, TextArchiveFormat::ShiftJIS, Endian::Big)));
        v.push(("Unicode/Little/4 keys (depth-bounded)".to_string(), Sys::new(vec!["a", "b", "c", "d"], TextArchiveFormat::Unicode, Endian::Little)));
    }
    v
}

fn explore(ctx: &Ctx) -> Outcome {
    let mut o = Outcome::default();
    let mut cov = Coverage::default();
    let mut per_system = Vec::new();
    let mut all_fix = true;
    // engine cross-check (stateright vs. the harness's own BFS) on the first system
    {
        let (name, sys) = systems(ctx.tier).remove(0);
        let (bfs_states, sr_states, clean) = stateright_cross_check(sys);
        cov.extra.insert("engine_cross_check".into(), json!({"system": name, "from": "new archive only", "bfs_unique_states": bfs_states, "stateright_unique_states": sr_states, "stateright_found_no_counterexample": clean}));
        if bfs_states != sr_states {
            o.machinery(format!("engine cross-check failed: own BFS reached {} states, stateright {}", bfs_states, sr_states));
        }
    }
    for (name, sys) in systems(ctx.tier) {
        // initial states must already agree with the model (clean, empty / parsed content)
        for (i, m) in [(0usize, TextModel::new()), (1usize, parsed_seed_model())] {
            let t = sys.fresh(i);
            let d = sys.observe(&t, &m, true);
            if !d.is_empty() {
                o.violate(format!("init:{}", i), format!("[{}] initial state {} differs from the model: {}", name, i, d.join("; ")), json!({"system": name, "history": []}));
            }
        }
        let max_depth = if sys.keys.len() >= 4 { Some(4) } else { None };
        let rep = bfs::explore(&sys, max_depth, None);
        cov.states += rep.states;
        cov.transitions += rep.transitions;
        all_fix &= rep.fixpoint || max_depth.is_some();
        per_system.push(json!({"system": name, "states": rep.states, "transitions": rep.transitions, "fixpoint": rep.fixpoint, "max_depth_reached": rep.max_depth_reached, "states_per_depth": rep.states_per_depth, "witnesses": rep.witness_counts}));
        for h in rep.sample_histories.iter().take(1) {
            cov.samples.push(json!({"system": name, "history": h}));
        }
        for (wn, n) in &rep.witness_counts {
            if *n == 0 && rep.violations.is_empty() && sys.keys.len() >= 3 {
                o.warn(format!("[{}] witness never reached: {}", name, wn));
            }
        }
        for v in rep.violations {
            o.violate(v.sig, format!("[{}] {}", name, v.summary), json!({"system": name, "history": v.history}));
        }
    }
    // wide single-step pass: a large message alphabet that the fixpoint search cannot afford —
    // a backslash followed by every printable ASCII character, multi-byte text before the first
    // escape, the tricky-string catalogue, colliding and suffix-related pairs — each set on a new
    // key, over an existing value, and next to a second key; all observers after each call
    {
        let mut wide: Vec<String> = Vec::new();
        for c in 0x20u8..0x7F {
            wide.push(format!("\\{}", c as char));
            wide.push(format!("a\\{}b", c as char));
        }
        for m in ["café\\nau lait", "日本\\n語", "é\\", "ｶﾞ\\n", "\u{1F600}\\n\u{1F600}", "x\n\\n\n", "C:\\temp\\new", "\\\\t", "tab\there"] {
            wide.push(m.to_string());
        }
        wide.extend(vcore::sjis::tricky_strings().iter().cloned());
        for (_, a, b) in vcore::collide::pairs() {
            wide.push(a.clone());
            wide.push(b.clone());
        }
        let (name, sys) = systems(ctx.tier).remove(0);
        let mut n = 0u64;
        for m in &wide {
            for prefix in [vec![], vec![Op::Set("a".into(), "old\\nvalue".into())], vec![Op::Set("b".into(), m.clone())]] {
                let mut st = (St { init: 0, model: TextModel::new() }, Arc::new(vec![]));
                let mut hist: Vec<Op> = Vec::new();
                let mut ops = prefix.clone();
                ops.push(Op::Set("a".into(), m.clone()));
                ops.push(Op::Set(m.clone(), "v".into()));
                for op in ops {
                    n += 1;
                    match sys.step(&st, &hist, &op) {
                        Step::Next { state, .. } => {
                            st = state;
                            hist.push(op);
                        }
                        Step::Violation { sig, summary, .. } => {
                            hist.push(op);
                            o.violate(sig, format!("[{} / wide alphabet] {}", name, summary), json!({"system": name, "history": hist}));
                            break;
                        }
                        Step::Skip => {}
                    }
                }
            }
        }
        cov.transitions += n;
        cov.extra.insert("wide_single_step_pass".into(), json!({"messages": wide.len(), "transitions": n}));
    }
    // ONE object through 70 000 set_message calls (a modification counter narrower than the
    // history shows only here): after every call the flag is set and the entry is the last value
    {
        let mut n = 0u64;
        let r = util::catch(|| -> Option<(usize, String)> {
            let mut t = TextArchive::new(TextArchiveFormat::Unicode, Endian::Little);
            let keys = ["k0", "k1", "k2", "k3", "k4"];
            for i in 0..70_000usize {
                let k = keys[i % keys.len()];
                let v = format!("v{}", i);
                t.set_message(k, &v);
                if !t.is_dirty() {
                    return Some((i, format!("after set_message call number {} on one archive is_dirty() is false", i + 1)));
                }
                if t.get_message(k).as_deref() != Some(v.as_str()) || t.get_entries().len() != keys.len().min(i + 1) {
                    return Some((i, format!("after set_message call number {} on one archive get_message({:?}) = {:?}, {} entries", i + 1, k, t.get_message(k), t.get_entries().len())));
                }
            }
            None
        });
        match r {
            Err(p) => o.violate(format!("panic@{}:long-history", p.location), format!("70 000 sets on one archive panicked: {}", p.message), json!({"long_history": true})),
            Ok(Some((_, msg))) => o.violate("long-history:set_message", msg, json!({"long_history": true})),
            Ok(None) => n = 70_000,
        }
        cov.transitions += n;
        cov.extra.insert("long_history_on_one_object".into(), json!({"set_message_calls": n}));
    }
    cov.traces_validated_against_impl = cov.transitions;
    cov.evaluations = cov.transitions;
    cov.distinct_nontrivial = cov.states;
    cov.exhaustive = all_fix;
    cov.rule = "explicit-state BFS to the fixpoint: node = (title, ordered entries with stored values, dirty flag) of the real TextArchive, transitions = set_message(k,m) for k in the key alphabet × 10 messages mixing escape sequences, newlines and backslashes, delete_message(k), set_title(t); from two initial archives (new, parsed from bytes). Every transition replays the shortest history on a fresh archive and evaluates all observers (entries order, has/get for every key, title, dirty, set-back-what-you-got, serialize→parse key order and cleanliness) against the reference map".into();
    if cov.samples.is_empty() {
        cov.samples.push(json!({"history": []}));
    }
    cov.extra.insert("systems".into(), json!(per_system));
    o.coverage = cov;
    o.assumptions = vec!["the parsed initial archive holds plain content (no literal backslash-n in stored text), as the statement quantifies over histories starting from an empty archive".into()];
    o
}

fn replay(ctx: &Ctx, case: &Value) -> Vec<Violation> {
    if case["long_history"] == true {
        let mut t = TextArchive::new(TextArchiveFormat::Unicode, Endian::Little);
        let keys = ["k0", "k1", "k2", "k3", "k4"];
        for i in 0..70_000usize {
            let k = keys[i % keys.len()];
            let v = format!("v{}", i);
            t.set_message(k, &v);
            if !t.is_dirty() || t.get_message(k).as_deref() != Some(v.as_str()) {
                return vec![Violation { sig: "long-history:set_message".into(), summary: format!("after set_message call number {} on one archive: is_dirty() = {}, get_message = {:?}", i + 1, t.is_dirty(), t.get_message(k)), case: case.clone() }];
            }
        }
        return vec![];
    }
    let hist: Vec<Op> = serde_json::from_value(case["history"].clone()).unwrap_or_default();
    let name = case["system"].as_str().unwrap_or("");
    let mut out = Vec::new();
    for (n, sys) in systems(Tier::Thorough) {
        if n != name {
            continue;
        }
        let _ = ctx;
        for init in 0..2 {
            let mut st = (St { init, model: if init == 0 { TextModel::new() } else { parsed_seed_model() } }, Arc::new(vec![]));
            if hist.is_empty() {
                let d = sys.observe(&sys.fresh(init), &st.0.model, true);
                if !d.is_empty() {
                    out.push(Violation { sig: format!("init:{}", init), summary: d.join("; "), case: case.clone() });
                }
                continue;
            }
            for k in 0..hist.len() {
                match sys.step(&st, &hist[..k], &hist[k]) {
                    Step::Next { state, .. } => st = state,
                    Step::Violation { sig, summary, .. } => {
                        out.push(Violation { sig, summary, case: case.clone() });
                        break;
                    }
                    Step::Skip => {}
                }
            }
        }
    }
    out
}

fn main() {
    let _ = ref_text::escape("");
    vcore::run_main(PropDef { id: "C07", level: "model_checking", both_builds: BothBuilds::ThoroughOnly, explore, replay, worker: None })
}
