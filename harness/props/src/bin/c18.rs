//! C18 — asset-binary round trip preserves every field of every spec.
//! Engine E2: every AssetBinary value of the enumerated families is serialized by mila,
//! re-read through BinArchive::from_bytes + AssetBinary::from_archive and compared field by
//! field (presence flags always, values of present fields bit for bit); the image is parsed
//! by the strict reference parser (vcore::ref_bin) and its records are walked by this
//! harness: short form iff no extended field, flag bytes announce exactly the fields the
//! spec has, every record as long as its flags say; the re-read value serializes to the
//! same bytes.

use mila::{AssetBinary, AssetSpec, BinArchive, Endian};
use rayon::prelude::*;
use serde::{Deserialize, Serialize};
use serde_json::{json, Value};
use std::collections::BTreeSet;
use vcore::driver::{BothBuilds, Ctx, Outcome, PropDef, Violation};
use vcore::ref_bin::{self, End};
use vcore::{sjis, util, Tally};

// ------------------------------------------------------------------------------------
// Field table. Presence bit b (1..=51) is bit (b % 8) of flag byte (b / 8), as laid down in
// DESIGN Appendix A; bit 0 of byte 0 is the "extended record" marker, not a field.

macro_rules! string_fields {
    ($($bit:literal $f:ident),* $(,)?) => {
        fn str_mut(s: &mut AssetSpec, bit: usize) -> &mut Option<String> {
            match bit { $($bit => &mut s.$f,)* _ => unreachable!("not a string bit") }
        }
        fn str_ref(s: &AssetSpec, bit: usize) -> &Option<String> {
            match bit { $($bit => &s.$f,)* _ => unreachable!("not a string bit") }
        }
        fn str_field_name(bit: usize) -> &'static str {
            match bit { $($bit => stringify!($f),)* _ => "?" }
        }
    };
}
string_fields!(
    1 conditional1, 2 conditional2, 3 body_model, 4 body_texture, 5 head_model, 6 head_texture, 7 hair_model,
    8 hair_texture, 9 outer_clothing_model, 10 outer_clothing_texture, 11 underwear_model, 12 underwear_texture,
    13 mount_model, 14 mount_texture, 15 mount_outer_clothing_model,
    16 mount_outer_clothing_texture, 17 weapon_model_dual, 18 weapon_model, 19 skeleton, 20 mount_skeleton,
    21 accessory1_model, 22 accessory1_texture, 23 accessory2_model,
    24 accessory2_texture, 25 accessory3_model, 26 accessory3_texture, 27 attack_animation, 28 attack_animation2,
    29 visual_effect, 30 hid, 31 footstep_sound,
    32 clothing_sound, 33 voice,
);

/// A typed value as raw bits: colours as their four bytes, f32 as to_bits(), u32 as is.
#[derive(Clone, Copy, Debug, PartialEq, Eq)]
enum Typed {
    Col([u8; 4]),
    F32(u32),
    U32(u32),
}

macro_rules! typed_fields {
    (col: $($cb:literal $cf:ident $cu:ident),* ; f32: $($fb:literal $ff:ident $fu:ident),* ; u32: $($ub:literal $uf:ident $uu:ident),* $(,)?) => {
        fn typed_set(s: &mut AssetSpec, bit: usize, present: bool, v: Typed) {
            match (bit, v) {
                $(($cb, Typed::Col(c)) => { s.$cf = c; s.$cu = present; })*
                $(($fb, Typed::F32(b)) => { s.$ff = f32::from_bits(b); s.$fu = present; })*
                $(($ub, Typed::U32(u)) => { s.$uf = u; s.$uu = present; })*
                _ => unreachable!("typed field/value mismatch at bit {}", bit),
            }
        }
        fn typed_get(s: &AssetSpec, bit: usize) -> (bool, Typed) {
            match bit {
                $($cb => (s.$cu, Typed::Col(s.$cf)),)*
                $($fb => (s.$fu, Typed::F32(s.$ff.to_bits())),)*
                $($ub => (s.$uu, Typed::U32(s.$uf)),)*
                _ => unreachable!("not a typed bit"),
            }
        }
        fn typed_field_name(bit: usize) -> &'static str {
            match bit { $($cb => stringify!($cf),)* $($fb => stringify!($ff),)* $($ub => stringify!($uf),)* _ => "?" }
        }
        fn typed_kind(bit: usize) -> u8 {
            match bit { $($cb => 0,)* $($fb => 1,)* $($ub => 2,)* _ => unreachable!() }
        }
    };
}
typed_fields!(
    col: 34 hair_color use_hair_color, 35 skin_color use_skin_color, 36 weapon_trail_color use_weapon_trail_color, 44 bitflags use_bitflags;
    f32: 37 model_size use_model_size, 38 head_size use_head_size, 39 pupil_y use_pupil_y;
    u32: 40 unk3 use_unk3, 41 unk4 use_unk4, 42 unk5 use_unk5, 43 unk6 use_unk6, 45 unk7 use_unk7, 46 unk8 use_unk8, 47 unk9 use_unk9,
         48 unk10 use_unk10, 49 unk11 use_unk11, 50 unk12 use_unk12, 51 unk13 use_unk13,
);

const N_BITS: usize = 51; // presence bits 1..=51
const LAST_STR: usize = 33;
const ALL: u64 = ((1u64 << (N_BITS + 1)) - 1) & !1;
const STR_MASK: u64 = ((1u64 << (LAST_STR + 1)) - 1) & !1;
const EXT_MASK: u64 = ALL & !((1u64 << 32) - 1); // bits 32..=51 need the extended form

fn field_name(bit: usize) -> &'static str {
    if bit <= LAST_STR {
        str_field_name(bit)
    } else {
        typed_field_name(bit)
    }
}

// ------------------------------------------------------------------------------------
// Values: a deterministic function of (bit, variant); unique per field inside a variant

const N_VARS: u8 = 6;
/// ±0, ±1, subnormal, ±inf, quiet and signalling NaNs with payloads 1, 0x2AAAAA, 0x3FFFFF, sign set
const F32_BITS: [u32; 15] = [
    0x3F80_0000, 0xBF80_0000, 0x8000_0000, // variant 0: 1, -1, -0 (one row per variant; variant 2 is all +0)
    0x7FC0_0001, 0x7F80_0001, 0xFFC0_0001, // variant 1: qNaN(1), sNaN(1), -qNaN(1)
    0x0000_0001, 0x7F80_0000, 0xFF80_0000, // variant 3: subnormal, +inf, -inf
    0x7FEA_AAAA, 0x7FAA_AAAA, 0xFF80_0001, // variant 4: qNaN(2AAAAA), sNaN(2AAAAA), -sNaN(1)
    0x7FFF_FFFF, 0x7FBF_FFFF, 0x4049_0FDB, // variant 5: qNaN(3FFFFF), sNaN(3FFFFF), pi
];

fn str_value(bit: usize, var: u8) -> String {
    match var {
        0 => format!("f{:02}", bit),
        1 => match bit % 3 {
            0 => String::new(),
            1 => format!("日本{}", bit),
            _ => format!("{}ﾂｱ", bit),
        },
        2 => String::new(),
        3 => format!("名前{}", bit),
        4 => "dup".to_string(),
        _ => {
            // collides with the spec names "n" / "名前ﾏﾙｽ" on some fields, unique elsewhere
            match bit % 4 {
                0 => "n".to_string(),
                1 => "名前ﾏﾙｽ".to_string(),
                _ => format!("v{}", bit),
            }
        }
    }
}

fn typed_value(bit: usize, var: u8) -> Typed {
    let b = bit as u8;
    match typed_kind(bit) {
        0 => Typed::Col(match var {
            2 => [0, 0, 0, 0],
            1 | 4 => [0xFF, 0x00, b, 0x80 | b],
            _ => [b + var, b + var + 0x40, b + var + 0x80, b + var + 0xC0],
        }),
        1 => {
            // the three members of a row rotate with the variant so that every f32 field meets a
            // signalling NaN, a quiet NaN and a signed value in some variant
            let k = (bit - 37 + var as usize) % 3;
            Typed::F32(match var {
                0 => F32_BITS[k],
                1 => F32_BITS[3 + k],
                2 => 0,
                3 => F32_BITS[6 + k],
                4 => F32_BITS[9 + k],
                _ => F32_BITS[12 + k],
            })
        }
        _ => Typed::U32(match var {
            0 => 0x0102_0304 + (bit as u32) * 0x0404_0404,
            1 => 0xFFFF_FFFF - bit as u32,
            2 => 0,
            3 => 1u32 << (bit % 32),
            4 => bit as u32,
            _ => 0x8000_0000 | ((bit as u32) << 8),
        }),
    }
}

/// What an ABSENT typed field carries in the value handed to serialize (odd variants only):
/// it has no place in the file and is therefore never compared.
fn junk_value(bit: usize) -> Typed {
    match typed_kind(bit) {
        0 => Typed::Col([9, 8, 7, bit as u8]),
        1 => Typed::F32((123.0f32 + bit as f32).to_bits()),
        _ => Typed::U32(0xDEAD_0000 | bit as u32),
    }
}

fn zero_value(bit: usize) -> Typed {
    match typed_kind(bit) {
        0 => Typed::Col([0; 4]),
        1 => Typed::F32(0),
        _ => Typed::U32(0),
    }
}

const NAMES: [Option<&str>; 4] = [Some("n"), None, Some(""), Some("名前ﾏﾙｽ")];
const HDRS: [u32; 4] = [0, 1, 0x0102_0304, 0xFFFF_FFFF];

// ------------------------------------------------------------------------------------
// Generator coordinates (stored in replay artefacts)

#[derive(Serialize, Deserialize, Clone, Debug)]
struct SpecDesc {
    /// index into NAMES
    name: u8,
    /// presence mask: bit b set ⇔ field b present (b in 1..=51)
    bits: u64,
    /// value variant
    var: u8,
}

#[derive(Serialize, Deserialize, Clone, Debug)]
struct Case {
    fam: String,
    hdr: u32,
    specs: Vec<SpecDesc>,
}

fn name_of(d: &SpecDesc) -> Option<String> {
    NAMES[d.name as usize % 4].map(|s| s.to_string())
}

fn build_spec(d: &SpecDesc) -> AssetSpec {
    let mut s = AssetSpec::new();
    s.name = name_of(d);
    for bit in 1..=LAST_STR {
        if d.bits >> bit & 1 == 1 {
            *str_mut(&mut s, bit) = Some(str_value(bit, d.var));
        }
    }
    for bit in LAST_STR + 1..=N_BITS {
        if d.bits >> bit & 1 == 1 {
            typed_set(&mut s, bit, true, typed_value(bit, d.var));
        } else if d.var % 2 == 1 {
            typed_set(&mut s, bit, false, junk_value(bit));
        } else {
            typed_set(&mut s, bit, false, zero_value(bit));
        }
    }
    s
}

fn shape(i: usize) -> SpecDesc {
    let m = |bits: &[usize]| bits.iter().fold(0u64, |a, b| a | 1 << b);
    match i {
        0 => SpecDesc { name: 1, bits: 0, var: 0 },                          // all absent, unnamed: 8 zero bytes
        1 => SpecDesc { name: 0, bits: 0, var: 0 },                          // all absent, named
        2 => SpecDesc { name: 0, bits: m(&[1, 7, 8, 31]), var: 0 },          // short form, strings
        3 => SpecDesc { name: 1, bits: m(&[34, 39, 40, 44, 51]), var: 1 },   // extended, typed only, unnamed
        4 => SpecDesc { name: 3, bits: ALL, var: 0 },                        // everything
        _ => SpecDesc { name: 2, bits: m(&[32]), var: 1 },                   // extended because of one string, name ""
    }
}
const SHAPE_NAMES: [&str; 6] = ["all-absent-unnamed", "all-absent-named", "short-strings", "extended-typed-unnamed", "all-present", "extended-by-one-string"];

fn aux_t() -> SpecDesc {
    SpecDesc { name: 0, bits: [2usize, 31, 33, 35, 38, 47, 48].iter().fold(0u64, |a, b| a | 1 << b), var: 3 }
}

/// alone / first / last / in the middle with the all-absent unnamed spec closing the list
fn embed(s: SpecDesc, ctx: u8) -> Vec<SpecDesc> {
    match ctx {
        0 => vec![s],
        1 => vec![s, aux_t()],
        2 => vec![aux_t(), s],
        _ => vec![aux_t(), s, shape(0)],
    }
}

// ------------------------------------------------------------------------------------
// Oracles

fn flag_bytes_needed(bits: u64) -> usize {
    if bits & EXT_MASK != 0 {
        8
    } else {
        4
    }
}

fn record_len(bits: u64) -> usize {
    flag_bytes_needed(bits) + 4 + 4 * bits.count_ones() as usize
}

fn show(x: &Option<String>) -> String {
    match x {
        None => "None".into(),
        Some(s) => format!("Some({:?})", s),
    }
}

fn all_absent_unnamed(d: &SpecDesc) -> bool {
    d.bits == 0 && NAMES[d.name as usize % 4].is_none()
}

fn diff(back: &AssetBinary, c: &Case) -> Option<(String, String)> {
    if back.flags != c.hdr {
        return Some(("roundtrip:header-flags".into(), format!("header flags {:#x} came back as {:#x}", c.hdr, back.flags)));
    }
    if back.specs.len() != c.specs.len() {
        let sig = if back.specs.len() < c.specs.len() && c.specs.last().map(all_absent_unnamed).unwrap_or(false) {
            "roundtrip:last-spec-all-absent"
        } else {
            "roundtrip:spec-count"
        };
        return Some((sig.into(), format!("{} specs written, {} read back", c.specs.len(), back.specs.len())));
    }
    for (k, (b, d)) in back.specs.iter().zip(c.specs.iter()).enumerate() {
        let want_name = name_of(d);
        if b.name != want_name {
            return Some(("roundtrip:name".into(), format!("spec {}: name {} came back as {}", k, show(&want_name), show(&b.name))));
        }
        for bit in 1..=LAST_STR {
            let want = if d.bits >> bit & 1 == 1 { Some(str_value(bit, d.var)) } else { None };
            let got = str_ref(b, bit);
            if *got != want {
                return Some((format!("roundtrip:field:{}", field_name(bit)), format!("spec {}: {} (bit {}) {} came back as {}", k, field_name(bit), bit, show(&want), show(got))));
            }
        }
        for bit in LAST_STR + 1..=N_BITS {
            let present = d.bits >> bit & 1 == 1;
            let (got_present, got) = typed_get(b, bit);
            if got_present != present {
                return Some((format!("roundtrip:field:{}", field_name(bit)), format!("spec {}: presence flag of {} (bit {}) {} came back as {}", k, field_name(bit), bit, present, got_present)));
            }
            if present {
                let want = typed_value(bit, d.var);
                if got != want {
                    return Some((format!("roundtrip:field:{}", field_name(bit)), format!("spec {}: {} (bit {}) {:x?} came back as {:x?}", k, field_name(bit), bit, want, got)));
                }
            }
            // the value of an absent field is not compared
        }
    }
    None
}

/// Walk the records of the parsed image.
fn walk(p: &ref_bin::Parsed, c: &Case) -> Option<(String, String)> {
    let data = &p.content.data;
    let want_size = 4 + c.specs.iter().map(|d| record_len(d.bits)).sum::<usize>() + 4;
    let mut pos = 4usize;
    for (k, d) in c.specs.iter().enumerate() {
        if pos >= data.len() {
            return Some(("record:missing".into(), format!("data region ends at {:#x} before record {}", data.len(), k)));
        }
        let f0 = data[pos];
        let nflag = if f0 & 1 == 1 { 8 } else { 4 };
        if pos + nflag + 4 > data.len() {
            return Some(("record:missing".into(), format!("record {} at {:#x} does not fit the data region ({:#x})", k, pos, data.len())));
        }
        let need = flag_bytes_needed(d.bits);
        if nflag != need {
            let sig = if nflag == 4 { "form:short-with-extended-field" } else { "form:extended-without-extended-field" };
            return Some((sig.into(), format!("record {} at {:#x} uses {} flag bytes; the spec {} an extended field", k, pos, nflag, if need == 8 { "has" } else { "has no" })));
        }
        let mut announced: u64 = 0;
        for i in 0..nflag {
            announced |= (data[pos + i] as u64) << (8 * i);
        }
        announced &= !1;
        if announced != d.bits {
            let wrong = announced ^ d.bits;
            let first = wrong.trailing_zeros() as usize;
            return Some((
                "record:flags".into(),
                format!("record {} at {:#x}: flag bytes announce {:#x}, the spec has {:#x} (first differing bit {} = {})", k, pos, announced, d.bits, first, if first <= N_BITS { field_name(first) } else { "unused bit" }),
            ));
        }
        let len = nflag + 4 + 4 * announced.count_ones() as usize;
        if pos + len > data.len() {
            return Some(("record:extent".into(), format!("record {} at {:#x} announces {} bytes, data region ends at {:#x}", k, pos, len, data.len())));
        }
        // the strings of this record live inside its announced extent
        let cells = p.content.strings.range(pos..pos + len).count();
        let want_cells = NAMES[d.name as usize % 4].is_some() as usize + (d.bits & STR_MASK).count_ones() as usize;
        if cells != want_cells {
            return Some(("record:string-cells".into(), format!("record {} at {:#x}..{:#x} contains {} string cells, its name and flags call for {}", k, pos, pos + len, cells, want_cells)));
        }
        pos += len;
    }
    // The statement fixes the extent of every record; whether a terminator word follows the
    // last record is the writer's business (mila writes one zero word): accept 0 or 4 bytes.
    let trailing = data.len() - pos;
    if !(trailing == 0 || trailing == 4) || p.data_size != want_size - 4 + trailing {
        return Some((
            "size:data".into(),
            format!("data size {} with {} bytes after the last record; 4 + sum(flag bytes + 4 + 4*popcount) + 4 = {} with a 4-byte terminator", p.data_size, data.len() - pos, want_size),
        ));
    }
    let want_ptrs: usize = c.specs.iter().map(|d| NAMES[d.name as usize % 4].is_some() as usize + (d.bits & STR_MASK).count_ones() as usize).sum();
    if p.pointer_count != want_ptrs || p.label_count != 0 || !p.content.pointers.is_empty() {
        return Some(("size:tables".into(), format!("pointer table {} entries ({} internal), {} labels; {} present strings", p.pointer_count, p.content.pointers.len(), p.label_count, want_ptrs)));
    }
    None
}

fn judge(c: &Case, t: &mut Tally) -> Option<(String, String)> {
    let file = AssetBinary { flags: c.hdr, specs: c.specs.iter().map(build_spec).collect() };
    t.calls += 1;
    let img = match util::catch(|| file.serialize().map_err(|e| e.to_string())) {
        Err(p) => return Some((format!("panic@{}", p.location), format!("AssetBinary::serialize panicked: {}", p.message))),
        Ok(Err(e)) => return Some(("serialize-err".into(), format!("AssetBinary::serialize failed on a domain value: {}", e))),
        Ok(Ok(i)) => i,
    };
    t.calls += 2;
    let back = match util::catch(|| -> Result<AssetBinary, (String, String)> {
        let a = BinArchive::from_bytes(&img, Endian::Little).map_err(|e| ("reparse-err:from_bytes".to_string(), e.to_string()))?;
        AssetBinary::from_archive(&a).map_err(|e| ("reparse-err:from_archive".to_string(), e.to_string()))
    }) {
        Err(p) => return Some((format!("panic@{}", p.location), format!("re-reading the serialized file panicked: {}", p.message))),
        Ok(Err((sig, e))) => return Some((sig, format!("the library rejects its own image: {}", e))),
        Ok(Ok(b)) => b,
    };
    if let Some(d) = diff(&back, c) {
        return Some(d);
    }
    match ref_bin::parse(&img, End::Little) {
        Err(e) => return Some(("image-malformed".into(), format!("reference parser rejects the serialized image: {}", e))),
        Ok(p) => {
            if let Some(w) = walk(&p, c) {
                return Some(w);
            }
        }
    }
    t.calls += 1;
    match util::catch(|| back.serialize().map_err(|e| e.to_string())) {
        Err(p) => return Some((format!("panic@{}", p.location), format!("serializing the re-read value panicked: {}", p.message))),
        Ok(Err(e)) => return Some(("reserialize-err".into(), format!("serializing the re-read value failed: {}", e))),
        Ok(Ok(again)) => {
            if again != img {
                let at = again.iter().zip(img.iter()).position(|(a, b)| a != b).unwrap_or(again.len().min(img.len()));
                return Some(("reserialize:differs".into(), format!("re-serialized image differs from the first one (lengths {} / {}, first difference at {:#x})", img.len(), again.len(), at)));
            }
        }
    }
    None
}

fn run_case(c: &Case, t: &mut Tally) {
    t.cases += 1;
    if c.specs.iter().any(|d| d.bits != 0) {
        t.nontrivial += 1;
    }
    t.class(&format!("family:{}", c.fam));
    t.class(&format!("specs={}", c.specs.len()));
    for d in &c.specs {
        t.class(if d.bits & EXT_MASK != 0 { "spec:extended-form" } else { "spec:short-form" });
        if all_absent_unnamed(d) {
            t.class("spec:all-absent-unnamed");
        }
        if d.bits == ALL {
            t.class("spec:all-present");
        }
    }
    if c.specs.last().map(all_absent_unnamed).unwrap_or(false) {
        t.class("list:ends-with-all-absent-unnamed");
    }
    if c.specs.iter().any(|d| d.bits >> 37 & 7 != 0 && [1u8, 4, 5].contains(&d.var)) {
        t.class("has-NaN-payload");
    }
    match judge(c, t) {
        Some((sig, summary)) => {
            t.class("outcome:violation");
            t.violate(sig, summary, serde_json::to_value(c).unwrap());
        }
        None => t.class("outcome:ok"),
    }
}

// ------------------------------------------------------------------------------------
// Families

fn subsets_le(k: usize) -> Vec<u64> {
    // all masks over bits 1..=51 with at most k bits set
    let mut out = vec![0u64];
    fn rec(from: usize, left: usize, cur: u64, out: &mut Vec<u64>) {
        if left == 0 {
            return;
        }
        for b in from..=N_BITS {
            let m = cur | 1 << b;
            out.push(m);
            rec(b + 1, left - 1, m, out);
        }
    }
    rec(1, k, 0, &mut out);
    out
}

/// The presence patterns of the sweep, de-duplicated, with the count per sub-family.
fn patterns(k: usize) -> (Vec<u64>, Vec<(String, usize)>) {
    let mut set: BTreeSet<u64> = BTreeSet::new();
    let mut counts = Vec::new();
    let few = subsets_le(k);
    counts.push((format!("<={} bits set", k), few.len()));
    for m in &few {
        set.insert(*m);
        set.insert(ALL & !*m);
    }
    counts.push((format!("<={} bits clear", k), few.len()));
    let mut per_byte = 0;
    for byte in 0..7usize {
        let field_bits: Vec<usize> = (byte * 8..byte * 8 + 8).filter(|b| *b >= 1 && *b <= N_BITS).collect();
        let byte_mask: u64 = field_bits.iter().fold(0, |a, b| a | 1 << b);
        for combo in 0u64..256 {
            let m = (combo << (byte * 8)) & byte_mask;
            if (combo << (byte * 8)) & !byte_mask != 0 {
                continue; // combination touches a non-field bit of this byte
            }
            set.insert(m); // all-absent background
            set.insert((ALL & !byte_mask) | m); // all-present background
            per_byte += 2;
        }
    }
    counts.push(("each flag byte: all combinations x {absent, present} background".into(), per_byte));
    counts.push(("distinct".into(), set.len()));
    (set.into_iter().collect(), counts)
}

fn self_check() -> Vec<String> {
    let mut bad = Vec::new();
    for var in 0..N_VARS {
        let mut seen_s: Vec<String> = Vec::new();
        for bit in 1..=LAST_STR {
            let s = str_value(bit, var);
            if !sjis::lossless(&s) {
                bad.push(format!("generator string {:?} outside the Shift-JIS-lossless NUL-free domain", s));
            }
            seen_s.push(s);
        }
        if var == 0 || var == 3 {
            let n = seen_s.len();
            seen_s.sort();
            seen_s.dedup();
            if seen_s.len() != n {
                bad.push(format!("string values of variant {} are not unique per field", var));
            }
        }
        if var != 2 {
            let mut seen: Vec<Typed> = Vec::new();
            for bit in LAST_STR + 1..=N_BITS {
                let v = typed_value(bit, var);
                if seen.contains(&v) {
                    bad.push(format!("typed value of bit {} variant {} is not unique", bit, var));
                }
                if let Typed::Col(c) = v {
                    let mut d = c.to_vec();
                    d.sort();
                    d.dedup();
                    if d.len() != 4 {
                        bad.push(format!("colour of bit {} variant {} is not byte-distinct", bit, var));
                    }
                }
                seen.push(v);
            }
        }
    }
    for n in NAMES.iter().flatten() {
        if !sjis::lossless(n) {
            bad.push(format!("name {:?} outside the domain", n));
        }
    }
    if ALL.count_ones() != 51 || STR_MASK.count_ones() != 33 || EXT_MASK.count_ones() != 20 {
        bad.push("bit masks inconsistent".into());
    }
    if record_len(0) != 8 || record_len(1 << 32) != 16 || record_len(ALL) != 8 + 4 + 51 * 4 {
        bad.push("record length oracle self-check failed".into());
    }
    bad
}

/// Scale cases: spec counts beyond 255 and data regions beyond 65 535 bytes.
fn scale_cases() -> Vec<Case> {
    let patterns: [u64; 6] = [0, 0b1110, (1u64 << 34) - 2, ((1u64 << 52) - 2) & !1, 1u64 << 51, (1u64 << 33) | (1u64 << 40) | 0b10];
    util::ladder(9_000)
        .iter()
        .map(|n| Case { fam: "scale".into(), hdr: 0x0102_0304, specs: (0..*n).map(|i| SpecDesc { name: (i % 4) as u8, bits: patterns[i % 6], var: (i % 6) as u8 }).collect() })
        .collect()
}

/// Direct string cases (outside the (bit, variant) value scheme): the shared tricky-string
/// catalogue and DENSE sweeps of string length and spec count. Each case is a list of specs
/// given by five strings (name, conditional1, body_model, clothing_sound = last short-form
/// string, voice = last extended string; None where the option is absent).
type StrSpec = [Option<String>; 5];

fn string_cases(thorough: bool) -> Vec<(String, Vec<StrSpec>)> {
    let mut v: Vec<(String, Vec<StrSpec>)> = Vec::new();
    let tricky = vcore::sjis::tricky_strings();
    for (i, s) in tricky.iter().enumerate() {
        let other = &tricky[(i + 1) % tricky.len()];
        v.push((format!("tricky string #{}", i), vec![[Some(s.clone()), Some(other.clone()), None, Some(s.clone()), None], [Some(other.clone()), None, Some(s.clone()), None, Some(s.clone())], [None, Some(s.clone()), None, None, None]]));
    }
    let mut pairs: Vec<(String, String)> = vcore::collide::pairs().iter().map(|(_, a, b)| (a.clone(), b.clone())).collect();
    pairs.extend(vcore::sjis::suffix_pairs());
    pairs.extend(vcore::sjis::case_pairs());
    for (i, (a, b)) in pairs.iter().enumerate() {
        v.push((format!("string pair #{}", i), vec![[Some(a.clone()), Some(b.clone()), None, None, Some(a.clone())], [Some(b.clone()), None, Some(a.clone()), Some(b.clone()), None]]));
    }
    for (i, chunk) in vcore::sjis::domain().chunks(60).enumerate() {
        v.push((format!("domain characters #{}", i), chunk.chunks(3).map(|c| -> StrSpec { [Some(format!("{}n", c[0])), c.get(1).map(|x| x.to_string()), None, c.get(2).map(|x| format!("a{}", x)), None] }).collect()));
    }
    let (nl, nc) = if thorough { (4400usize, 2500usize) } else { (1700, 600) };
    for l in 0..=nl {
        let a: String = "abcdefghijklmnopqrstuvwxyz".chars().cycle().take(l).collect();
        let b: String = (if l % 2 == 1 { "z" } else { "" }).to_string() + &"漢字".chars().cycle().take(l / 2).collect::<String>(); // lead bytes at odd offsets for odd l, even for even l
        v.push((format!("strings of {} bytes", l), vec![[Some(a.clone()), Some(b.clone()), None, None, Some(a.clone())], [Some(b), None, Some(a), None, None]]));
    }
    for n in 0..=nc {
        v.push((format!("{} specs", n), (0..n).map(|i| -> StrSpec { [if i % 3 == 0 { None } else { Some(format!("n{}", i % 11)) }, None, if i % 2 == 0 { Some("m".into()) } else { None }, None, if i % 5 == 0 { Some("v".into()) } else { None }] }).collect()));
    }
    v
}

fn judge_strings(specs: &[StrSpec], t: &mut Tally) -> Option<(String, String)> {
    let mut b = AssetBinary::new();
    b.flags = 7;
    for s in specs {
        let mut a = AssetSpec::new();
        a.name = s[0].clone();
        a.conditional1 = s[1].clone();
        a.body_model = s[2].clone();
        a.clothing_sound = s[3].clone();
        a.voice = s[4].clone();
        b.specs.push(a);
    }
    t.calls += 3;
    let r = util::catch(|| -> Result<Option<(String, String)>, String> {
        let bytes = b.serialize().map_err(|e| format!("serialize: {}", e))?;
        let arch = mila::BinArchive::from_bytes(&bytes, mila::Endian::Little).map_err(|e| format!("from_bytes: {}", e))?;
        let back = AssetBinary::from_archive(&arch).map_err(|e| format!("from_archive: {}", e))?;
        // a trailing all-absent unnamed spec is indistinguishable from the terminator (C18 main family decides that case)
        let mut want: Vec<&StrSpec> = specs.iter().collect();
        while want.last().map(|s| s.iter().all(|x| x.is_none())).unwrap_or(false) {
            want.pop();
        }
        let mut got: Vec<&AssetSpec> = back.specs.iter().collect();
        while got.len() > want.len() && got.last().map(|g| g.name.is_none() && g.conditional1.is_none() && g.body_model.is_none() && g.clothing_sound.is_none() && g.voice.is_none()).unwrap_or(false) {
            got.pop();
        }
        if back.flags != 7 || got.len() != want.len() {
            return Ok(Some(("strings:count".into(), format!("{} specs (flags {}) came back for {} written", back.specs.len(), back.flags, specs.len()))));
        }
        for (i, (g, w)) in got.iter().zip(want.iter()).enumerate() {
            let gs: StrSpec = [g.name.clone(), g.conditional1.clone(), g.body_model.clone(), g.clothing_sound.clone(), g.voice.clone()];
            if gs != **w {
                return Ok(Some(("strings:value".into(), format!("spec {}: strings {:?} came back as {:?}", i, w, gs))));
            }
        }
        let again = back.serialize().map_err(|e| format!("re-serialize: {}", e))?;
        if again != bytes && want.len() == specs.len() {
            return Ok(Some(("strings:reserialize".into(), "re-serializing the re-read value gives different bytes".into())));
        }
        Ok(None)
    });
    match r {
        Err(p) => Some((format!("panic@{}:strings", p.location), format!("panicked: {}", p.message))),
        Ok(Err(e)) => Some(("strings:error".into(), e)),
        Ok(Ok(x)) => x,
    }
}

fn explore(ctx: &Ctx) -> Outcome {
    let thorough = ctx.tier == vcore::Tier::Thorough;
    let problems = self_check();
    let (pats, pat_counts) = patterns(if thorough { 3 } else { 2 });
    let hdr_modes: usize = 4;

    // family 1: presence sweep
    let per_pat = 4 * N_VARS as usize * 4 * hdr_modes;
    let n1 = pats.len() * per_pat;
    let t1 = (0..n1)
        .into_par_iter()
        .fold(Tally::new, |mut t, i| {
            let pi = i / per_pat;
            let mut r = i % per_pat;
            let name = (r % 4) as u8;
            r /= 4;
            let var = (r % N_VARS as usize) as u8;
            r /= N_VARS as usize;
            let cx = (r % 4) as u8;
            r /= 4;
            let hdr = HDRS[r];
            let c = Case { fam: "presence-sweep".into(), hdr, specs: embed(SpecDesc { name, bits: pats[pi], var }, cx) };
            run_case(&c, &mut t);
            t
        })
        .reduce(Tally::new, Tally::merge);

    // family 4: state carried between calls — failing parses right before each case
    let mut t4 = Tally::new();
    for idx in util::odometer(6, 3) {
        let c = Case { fam: "after-failed-calls".into(), hdr: HDRS[idx[0] % 4], specs: idx.iter().map(|i| shape(*i)).collect() };
        props::poison::failing_calls();
        let before = t4.violations.len();
        run_case(&c, &mut t4);
        for v in t4.violations.iter_mut().skip(before) {
            v.sig = format!("after-failed-calls:{}", v.sig);
        }
    }

    // ... and EACH SINGLE call of that series immediately before a representative case
    for i in 0..props::poison::count() {
        for idx in [[0usize, 1, 2], [3, 4, 5]] {
            let c = Case { fam: format!("after-single-call:{}", i), hdr: HDRS[i % 4], specs: idx.iter().map(|k| shape(*k)).collect() };
            props::poison::single_call(i);
            let before = t4.violations.len();
            run_case(&c, &mut t4);
            for v in t4.violations.iter_mut().skip(before) {
                v.sig = format!("after-single-call:{}", v.sig);
            }
        }
    }

    // family 3: scale
    let t3 = scale_cases()
        .par_iter()
        .fold(Tally::new, |mut t3, c| {
            t3.cases += 1;
            t3.nontrivial += 1;
            if let Some((sig, summary)) = judge(c, &mut t3) {
                t3.violate(format!("scale:{}", sig), format!("[{} specs] {}", c.specs.len(), summary.chars().take(400).collect::<String>()), json!({"scale": c.specs.len()}));
            }
            t3
        })
        .reduce(Tally::new, Tally::merge);

    // family 2: spec lists
    let mut lists: Vec<Vec<usize>> = Vec::new();
    for len in 0..=3 {
        lists.extend(util::odometer(6, len));
    }
    let n2 = lists.len() * 4 * N_VARS as usize;
    let t2 = (0..n2)
        .into_par_iter()
        .fold(Tally::new, |mut t, i| {
            let li = i / (4 * N_VARS as usize);
            let hdr = HDRS[i % 4];
            let shift = ((i / 4) % N_VARS as usize) as u8;
            let specs = lists[li]
                .iter()
                .map(|s| {
                    let mut d = shape(*s);
                    d.var = (d.var + shift) % N_VARS;
                    d
                })
                .collect();
            let c = Case { fam: "spec-lists".into(), hdr, specs };
            run_case(&c, &mut t);
            t
        })
        .reduce(Tally::new, Tally::merge);

    // family 5: tricky strings and dense sweeps
    let sc = string_cases(thorough);
    let t5 = sc
        .par_iter()
        .fold(Tally::new, |mut t, (tag, specs)| {
            t.cases += 1;
            t.nontrivial += 1;
            if let Some((sig, summary)) = judge_strings(specs, &mut t) {
                t.violate(sig, format!("[{}] {}", tag, summary.chars().take(400).collect::<String>()), json!({"string_case": tag, "thorough": thorough}));
            }
            t
        })
        .reduce(Tally::new, Tally::merge);
    let mut total = t1;
    total.absorb(t5);
    total.absorb(t2);
    total.absorb(t3);
    total.absorb(t4);
    total.sample(serde_json::to_value(Case { fam: "presence-sweep".into(), hdr: 0x0102_0304, specs: embed(SpecDesc { name: 3, bits: 1 << 31 | 1 << 32, var: 1 }, 3) }).unwrap());
    total.sample(serde_json::to_value(Case { fam: "spec-lists".into(), hdr: 1, specs: vec![shape(4), shape(0), shape(0)] }).unwrap());
    total.sample(json!({"note": "field bit numbering", "strings": (1..=LAST_STR).map(|b| format!("{}={}", b, field_name(b))).collect::<Vec<_>>(), "typed": (LAST_STR + 1..=N_BITS).map(|b| format!("{}={}", b, field_name(b))).collect::<Vec<_>>()}));

    let mut missing = Vec::new();
    for c in ["spec:short-form", "spec:extended-form", "spec:all-absent-unnamed", "spec:all-present", "list:ends-with-all-absent-unnamed", "has-NaN-payload", "specs=0", "specs=3"] {
        if !total.classes.contains_key(c) {
            missing.push(c.to_string());
        }
    }
    let fam_counts: serde_json::Map<String, Value> = total.classes.iter().filter(|(k, _)| k.starts_with("family:")).map(|(k, v)| (k["family:".len()..].to_string(), json!(v))).collect();
    let mut o = total.into_outcome(
        "every AssetBinary of two families is serialized, re-read (BinArchive::from_bytes + AssetBinary::from_archive), compared field-wise, its image walked record by record, and re-serialized: (1) presence sweep — EVERY pattern over the 51 presence bits with ≤2 bits set, EVERY pattern with ≤2 bits clear (≤3 at the thorough tier) and, for each of the 7 flag bytes, ALL combinations of its field bits against an all-absent and an all-present background, each × name {Some(\"n\"), None, Some(\"\"), Some(\"名前ﾏﾙｽ\")} × 6 value variants (unique ASCII strings and byte-distinct words / empty, multi-byte and half-width strings with quiet and signalling NaN payloads / all-zero values and empty strings / unique non-ASCII strings, subnormal and infinities / one repeated string / strings equal to spec names) × 4 embeddings (alone, first, last, in the middle followed by the all-absent unnamed spec) × header word {0,1,0x01020304,0xFFFFFFFF}; odd variants put junk into the value of every ABSENT typed field; (2) ALL sequences of 0..=3 specs from six shapes (all-absent unnamed, all-absent named, short with strings, extended typed-only unnamed, all-present, extended by one string with empty name) × 4 header words × 6 variant shifts. non-trivial = some spec has a field present",
        true,
        vec![
            ("families", Value::Object(fam_counts)),
            ("presence_patterns", json!(pat_counts.iter().map(|(k, v)| json!({"class": k, "patterns": v})).collect::<Vec<_>>())),
            ("unreached_target_classes", json!(missing)),
            ("spec_list_shapes", json!(SHAPE_NAMES)),
            ("oracles", json!(["field-wise equality: header word, spec count, name, 33 optional strings, 18 presence flags, values of present typed fields by raw bits (f32 via to_bits)", "strict reference parse; record walk: 4 flag bytes iff no extended field else 8, flag bytes == presence pattern (unused bits zero), record length = flag bytes + 4 + 4*popcount, string cells inside each record = name + announced strings, 4 bytes after the last record, data size = 4 + Σ records + 4, pointer table = present strings", "serialize(re-read value) == first image"])),
        ],
    );
    for p in problems {
        o.machinery(p);
    }
    if !missing.is_empty() {
        o.machinery(format!("vacuous enumeration: structural classes never produced: {:?}", missing));
    }
    o.assumptions = vec![
        "domain: strings are NUL-free and Shift-JIS-lossless (checked at start-up); values of ABSENT typed fields have no place in the file and are not compared (their presence flags are)".into(),
        "the list terminator is taken from the anchored mechanism (writer appends one zero word): data size = 4 + Σ records + 4; an all-absent unnamed spec is 8 zero bytes and therefore distinguishable from the 4-byte terminator, so the statement's 'same list of specs' is demanded for it in every position, the last included".into(),
        "the record walk uses the bit assignment of DESIGN Appendix A (bit b of the flag bytes ⇔ field b in declaration order); the statement itself only fixes record length = what the flags announce".into(),
        "field values come from six deterministic variants rather than from all values; each variant gives every field a value no other field has (except the deliberately degenerate all-zero and one-repeated-string variants)".into(),
        "oracle independence: expected values come from the generator's own description of the value, the image is read by vcore::ref_bin::parse and this file's record walker (no mila code)".into(),
    ];
    o
}

fn replay(_ctx: &Ctx, case: &Value) -> Vec<Violation> {
    if let Some(n) = case["scale"].as_u64() {
        let mut out = Vec::new();
        for c in scale_cases() {
            if c.specs.len() as u64 == n {
                let mut t = Tally::new();
                if let Some((sig, summary)) = judge(&c, &mut t) {
                    out.push(Violation { sig: format!("scale:{}", sig), summary: summary.chars().take(400).collect(), case: case.clone() });
                }
            }
        }
        return out;
    }
    if let Some(tag) = case["string_case"].as_str() {
        let mut t = Tally::new();
        return string_cases(case["thorough"].as_bool().unwrap_or(false)).into_iter().filter(|(t2, _)| t2 == tag).filter_map(|(_, specs)| judge_strings(&specs, &mut t)).map(|(sig, summary)| Violation { sig, summary, case: case.clone() }).collect();
    }
    let c: Case = match serde_json::from_value(case.clone()) {
        Ok(c) => c,
        Err(_) => return vec![],
    };
    let mut t = Tally::new();
    let poisoned = c.fam == "after-failed-calls";
    if poisoned {
        props::poison::failing_calls();
    }
    let single = c.fam.strip_prefix("after-single-call:").and_then(|i| i.parse::<usize>().ok());
    if let Some(i) = single {
        props::poison::single_call(i);
    }
    match judge(&c, &mut t) {
        Some((sig, summary)) => vec![Violation { sig: if poisoned { format!("after-failed-calls:{}", sig) } else if single.is_some() { format!("after-single-call:{}", sig) } else { sig }, summary, case: case.clone() }],
        None => vec![],
    }
}

fn main() {
    vcore::run_main(PropDef { id: "C18", level: "model_checking", both_builds: BothBuilds::ThoroughOnly, explore, replay, worker: None })
}
