//! C06 — text archive round trip preserves title, key order and every message.
//! Engine E2: (1) titles × ordered key lists × message assignments, (2) ALL message strings
//! up to n units over a 10-symbol alphabet (BOM-like units, astral, newline, backslash),
//! (3) single-character sweep over the whole encoding domain.  Two oracles: mila's own
//! parser, and an independent reader of the file image.

use mila::{Endian, TextArchive, TextArchiveFormat};
use rayon::prelude::*;
use serde_json::{json, Value};
use vcore::driver::{BothBuilds, Ctx, Outcome, PropDef, Tier, Violation};
use vcore::ref_bin::End;
use vcore::ref_text::{self, Fmt};
use vcore::{sjis, util, Tally};

#[derive(Clone, Copy, Debug, PartialEq, Eq)]
struct Cfg {
    fmt: Fmt,
    e: End,
}
const CFGS: [Cfg; 4] = [
    Cfg { fmt: Fmt::Unicode, e: End::Little },
    Cfg { fmt: Fmt::Unicode, e: End::Big },
    Cfg { fmt: Fmt::ShiftJis, e: End::Little },
    Cfg { fmt: Fmt::ShiftJis, e: End::Big },
];

fn mfmt(f: Fmt) -> TextArchiveFormat {
    match f {
        Fmt::ShiftJis => TextArchiveFormat::ShiftJIS,
        Fmt::Unicode => TextArchiveFormat::Unicode,
    }
}
fn mend(e: End) -> Endian {
    match e {
        End::Little => Endian::Little,
        End::Big => Endian::Big,
    }
}

#[derive(Clone, Debug)]
struct Case {
    cfg: Cfg,
    title: String,
    entries: Vec<(String, String)>,
    /// load-edit-save: the archive is first built from BASE, serialized and parsed; then these
    /// keys are deleted, the title is set if it differs from the base title, and `entries` are
    /// applied as set_message calls (C06 also covers archives that were parsed and then edited)
    loaded: Option<Vec<String>>,
}

const BASE_TITLE: &str = "T0";
fn base_entries() -> Vec<(String, String)> {
    vec![("first".into(), "x".into()), ("K".into(), "m0".into()), ("last".into(), "yz".into())]
}

fn case_json(c: &Case) -> Value {
    json!({"fmt": format!("{:?}", c.cfg.fmt), "endian": format!("{:?}", c.cfg.e), "title": c.title, "entries": c.entries, "loaded_then_deleted": c.loaded,
           "message_units": c.entries.iter().map(|e| e.1.encode_utf16().map(|u| format!("{:04x}", u)).collect::<Vec<_>>().join(" ")).collect::<Vec<_>>()})
}
fn case_from_json(v: &Value) -> Case {
    let fmt = if v["fmt"] == "ShiftJis" { Fmt::ShiftJis } else { Fmt::Unicode };
    let e = if v["endian"] == "Big" { End::Big } else { End::Little };
    let entries = v["entries"].as_array().map(|a| a.iter().map(|p| (p[0].as_str().unwrap_or("").to_string(), p[1].as_str().unwrap_or("").to_string())).collect()).unwrap_or_default();
    let loaded = v["loaded_then_deleted"].as_array().map(|a| a.iter().map(|x| x.as_str().unwrap_or("").to_string()).collect());
    Case { cfg: Cfg { fmt, e }, title: v["title"].as_str().unwrap_or("").to_string(), entries, loaded }
}

/// Build through the public API: new + set_title + set_message. set_message unescapes
/// backslash-n, so messages containing that pair are built by escaping first (C07 decides
/// that escaping is symmetric; here the stored value is what matters).
fn judge(c: &Case, t: &mut Tally) -> Option<(String, String)> {
    let fmtname = format!("{:?}", c.cfg.fmt);
    // expected content
    let (want_title, want_entries): (String, Vec<(String, String)>) = match &c.loaded {
        None => (c.title.clone(), c.entries.clone()),
        Some(deleted) => {
            let mut m = ref_text::TextModel::new();
            for (k, v) in base_entries() {
                m.set_message(&k, &ref_text::escape(&v));
            }
            for k in deleted {
                m.delete_message(k);
            }
            for (k, v) in &c.entries {
                m.set_message(k, &ref_text::escape(v));
            }
            (c.title.clone(), m.entries)
        }
    };
    let built = util::catch(|| {
        let mut a = TextArchive::new(mfmt(c.cfg.fmt), mend(c.cfg.e));
        if let Some(deleted) = &c.loaded {
            a.set_title(BASE_TITLE.to_string());
            for (k, m) in base_entries() {
                a.set_message(&k, &ref_text::escape(&m));
            }
            let bytes = a.serialize().map_err(|e| e.to_string());
            a = match bytes.and_then(|b| TextArchive::from_bytes(&b, mfmt(c.cfg.fmt), mend(c.cfg.e)).map_err(|e| e.to_string())) {
                Ok(x) => x,
                Err(e) => return (vec![], Err(format!("loading the base archive failed: {}", e))),
            };
            for k in deleted {
                a.delete_message(k);
            }
            if c.title != BASE_TITLE || c.cfg.fmt == Fmt::ShiftJis {
                a.set_title(c.title.clone());
            }
        } else {
            a.set_title(c.title.clone());
        }
        for (k, m) in &c.entries {
            // a stored value that contains a literal backslash followed by 'n' cannot be set
            // through set_message; the families avoid it (see explore()).
            a.set_message(k, &ref_text::escape(m));
        }
        let stored: Vec<(String, String)> = a.get_entries().iter().map(|(k, v)| (k.clone(), v.clone())).collect();
        (stored, a.serialize().map_err(|e| e.to_string()))
    });
    t.calls += 2;
    let (stored, img) = match built {
        Err(p) => return Some((format!("panic@{}", p.location), format!("building/serializing panicked: {}", p.message))),
        Ok(x) => x,
    };
    if stored != want_entries {
        return Some(("in-memory-content".into(), format!("the archive holds {:?} instead of {:?} before serialization", stored, want_entries)));
    }
    // from here on `c` stands for the expected content
    let c = &Case { cfg: c.cfg, title: want_title, entries: want_entries, loaded: None };
    let img = match img {
        Err(e) => return Some((format!("serialize-err:{}", fmtname), format!("serialize failed: {}", e))),
        Ok(i) => i,
    };
    // (a) mila's parser
    let back = util::catch(|| TextArchive::from_bytes(&img, mfmt(c.cfg.fmt), mend(c.cfg.e)).map(|a| (a.get_title().to_string(), a.get_entries().iter().map(|(k, v)| (k.clone(), v.clone())).collect::<Vec<_>>())).map_err(|e| e.to_string()));
    match back {
        Err(p) => return Some((format!("panic@{}", p.location), format!("from_bytes(serialize()) panicked: {}", p.message))),
        Ok(Err(e)) => return Some((format!("reparse-err:{}", fmtname), format!("from_bytes rejects the library's own image: {}", e))),
        Ok(Ok((title, entries))) => {
            if c.cfg.fmt == Fmt::Unicode && title != c.title {
                return Some(("title".into(), format!("title {:?} came back as {:?}", c.title, title)));
            }
            let keys: Vec<&String> = entries.iter().map(|e| &e.0).collect();
            let want: Vec<&String> = c.entries.iter().map(|e| &e.0).collect();
            if keys != want {
                return Some((format!("keys:{}", fmtname), format!("keys {:?} came back as {:?}", want, keys)));
            }
            for (i, (k, m)) in c.entries.iter().enumerate() {
                if &entries[i].1 != m {
                    let first = m.chars().next().map(|ch| format!("U+{:04X}", ch as u32)).unwrap_or_default();
                    return Some((
                        format!("message:{}", fmtname),
                        format!("message of key {:?} = {:?} (first char {}) came back as {:?}", k, m, first, entries[i].1),
                    ));
                }
            }
        }
    }
    // (b) independent reader of the image
    match ref_text::read_image(&img, c.cfg.fmt, c.cfg.e) {
        Err(e) => return Some((format!("image:{}", fmtname), format!("the image is not a well-formed text archive: {}", e))),
        Ok(rb) => {
            if c.cfg.fmt == Fmt::Unicode && rb.title.as_deref() != Some(c.title.as_str()) {
                return Some(("image-title".into(), format!("title in the image is {:?}", rb.title)));
            }
            if rb.records.len() != c.entries.len() {
                return Some((format!("image-records:{}", fmtname), format!("{} records in the image for {} entries", rb.records.len(), c.entries.len())));
            }
            for (i, (k, m)) in c.entries.iter().enumerate() {
                let (addr, key, msg) = &rb.records[i];
                if key.as_ref() != Some(k) {
                    return Some((format!("image-key:{}", fmtname), format!("record {} at address {} carries label {:?}, expected {:?}", i, addr, key, k)));
                }
                if msg != m {
                    return Some((format!("image-message:{}", fmtname), format!("record {} holds {:?}, expected {:?}", i, msg, m)));
                }
            }
        }
    }
    None
}

const TITLES: [&str; 6] = ["", "t", "ti", "tit", "ﾄｱtl", "題"];
const KEYS: [&str; 4] = ["", "K", "MID_キーﾂｱ", "a.b"];
const MSG3: [&str; 3] = ["", "m", "日本"];

fn family1() -> Vec<Case> {
    let mut out = Vec::new();
    // all ordered lists of 0..=3 distinct keys
    let mut lists: Vec<Vec<usize>> = vec![vec![]];
    for a in 0..4 {
        lists.push(vec![a]);
        for b in 0..4 {
            if b != a {
                lists.push(vec![a, b]);
                for c in 0..4 {
                    if c != a && c != b {
                        lists.push(vec![a, b, c]);
                    }
                }
            }
        }
    }
    for cfg in CFGS {
        let titles: Vec<&str> = if cfg.fmt == Fmt::Unicode { TITLES.to_vec() } else { vec![""] };
        for title in titles {
            for l in &lists {
                for ms in util::odometer(3, l.len()) {
                    out.push(Case { cfg, title: title.to_string(), entries: l.iter().zip(ms.iter()).map(|(k, m)| (KEYS[*k].to_string(), MSG3[*m].to_string())).collect(), loaded: None });
                }
            }
        }
    }
    out
}

fn alphabet(fmt: Fmt) -> Vec<String> {
    let all = ["a", "\n", "\\", "é", "日", "😀", "\u{FEFF}", "\u{FFFE}", "\u{BBEF}", "\u{00BF}"];
    all.iter().filter(|s| fmt == Fmt::Unicode || sjis::lossless(s)).map(|s| s.to_string()).chain(if fmt == Fmt::ShiftJis { vec!["ｿ".to_string(), "ﾂｱ".to_string(), "¥".to_string()].into_iter().filter(|s| sjis::lossless(s)).collect::<Vec<_>>() } else { vec![] }).collect()
}

/// index → message (all strings of 0..=n symbols)
fn msg_count(k: usize, n: usize) -> u64 {
    (0..=n).map(|l| (k as u64).pow(l as u32)).sum()
}
fn msg_nth(alpha: &[String], mut idx: u64) -> String {
    let k = alpha.len() as u64;
    let mut len = 0;
    loop {
        let c = k.pow(len);
        if idx < c {
            break;
        }
        idx -= c;
        len += 1;
    }
    let mut parts = vec![0usize; len as usize];
    for i in (0..len as usize).rev() {
        parts[i] = (idx % k) as usize;
        idx /= k;
    }
    parts.iter().map(|i| alpha[*i].as_str()).collect()
}

fn has_backslash_n(s: &str) -> bool {
    s.contains("\\n")
}

fn explore(ctx: &Ctx) -> Outcome {
    let mut total = Tally::new();
    let mut layers = Vec::new();
    // family 1
    let f1 = family1();
    let t = f1
        .par_iter()
        .fold(Tally::new, |mut t, c| {
            t.cases += 1;
            if !c.entries.is_empty() {
                t.nontrivial += 1;
            }
            if let Some((sig, summary)) = judge(c, &mut t) {
                t.violate(sig, summary, case_json(c));
            }
            t
        })
        .reduce(Tally::new, Tally::merge);
    layers.push(json!({"family": "titles × ordered key lists × message assignments", "cases": f1.len(), "completed": true}));
    total.absorb(t);
    // family 2
    let n = ctx.tier.pick(5, 6);
    for cfg in CFGS {
        let alpha = alphabet(cfg.fmt);
        let count = msg_count(alpha.len(), n);
        let t = (0..count)
            .into_par_iter()
            .fold(Tally::new, |mut t, i| {
                let m = msg_nth(&alpha, i);
                if has_backslash_n(&m) {
                    t.class("skipped:literal-backslash-n-cannot-be-set");
                    return t;
                }
                let c = Case { cfg, title: "T".into(), entries: vec![("first".into(), "x".into()), ("K".into(), m), ("last".into(), "yz".into())], loaded: None };
                t.cases += 1;
                t.nontrivial += 1;
                if let Some((sig, summary)) = judge(&c, &mut t) {
                    t.violate(sig, summary, case_json(&c));
                }
                t
            })
            .reduce(Tally::new, Tally::merge);
        layers.push(json!({"family": "all message strings", "fmt": format!("{:?}", cfg.fmt), "endian": format!("{:?}", cfg.e), "alphabet": alpha, "max_units": n, "strings": count, "completed": true}));
        total.absorb(t);
    }
    // family 3: single-character sweep
    for cfg in CFGS {
        if ctx.tier == Tier::Quick && cfg.e == End::Big && cfg.fmt == Fmt::Unicode {
            // the encoding of message text does not depend on the archive endianness; quick sweeps LE only
            continue;
        }
        let chars: Vec<char> = match cfg.fmt {
            Fmt::Unicode => (1u32..=0x10FFFF).filter_map(char::from_u32).collect(),
            Fmt::ShiftJis => sjis::domain().clone(),
        };
        let t = chars
            .par_iter()
            .fold(Tally::new, |mut t, ch| {
                let shapes = if cfg.fmt == Fmt::ShiftJis { 7 } else { 3 };
                for shape in 0..shapes {
                    let m = match shape {
                        0 => ch.to_string(),
                        1 => format!("x{}", ch),
                        2 => format!("{}x", ch),
                        3 => format!("{}n", ch),
                        4 => format!("{}{}", ch, ch),
                        5 => format!("{}ソ", ch),
                        _ => format!("ﾂ{}", ch),
                    };
                    if has_backslash_n(&m) {
                        continue;
                    }
                    let c = Case { cfg, title: "".into(), entries: vec![("K".into(), m)], loaded: None };
                    t.cases += 1;
                    t.nontrivial += 1;
                    if let Some((sig, summary)) = judge(&c, &mut t) {
                        t.violate(sig, summary, case_json(&c));
                    }
                }
                t
            })
            .reduce(Tally::new, Tally::merge);
        layers.push(json!({"family": "single-character sweep c / xc / cx (Shift-JIS also cn / cc / cソ / ﾂc)", "fmt": format!("{:?}", cfg.fmt), "endian": format!("{:?}", cfg.e), "characters": chars.len(), "completed": true}));
        total.absorb(t);
    }
    // family 4: load → edit → save
    let mut f4: Vec<Case> = Vec::new();
    for cfg in CFGS {
        for mask in 0..8u32 {
            let deleted: Vec<String> = ["first", "K", "last"].iter().enumerate().filter(|(i, _)| mask & (1 << i) != 0).map(|(_, k)| k.to_string()).collect();
            for title in [BASE_TITLE, "new title"] {
                let sets: Vec<Vec<(String, String)>> = vec![vec![], vec![("K".into(), "changed".into())], vec![("new".into(), "v".into())], vec![("first".into(), "".into())], vec![("last".into(), "日本".into()), ("K".into(), "again".into())]];
                for set in sets {
                    f4.push(Case { cfg, title: title.to_string(), entries: set, loaded: Some(deleted.clone()) });
                }
            }
        }
    }
    let t = f4
        .par_iter()
        .fold(Tally::new, |mut t, c| {
            t.cases += 1;
            t.nontrivial += 1;
            if let Some((sig, summary)) = judge(c, &mut t) {
                t.violate(format!("loaded-then-edited:{}", sig), summary, case_json(c));
            }
            t
        })
        .reduce(Tally::new, Tally::merge);
    layers.push(json!({"family": "load → edit (delete subsets × title × sets) → save", "cases": f4.len(), "completed": true}));
    total.absorb(t);
    // family 6: state carried between calls — a series of failing parses right before each case
    {
        let mut t = Tally::new();
        for c in f4.iter().chain(f1.iter().step_by(37)) {
            props::poison::failing_calls();
            t.cases += 1;
            t.nontrivial += 1;
            if let Some((sig, summary)) = judge(c, &mut t) {
                let mut cj = case_json(c);
                cj["after_failed_calls"] = json!(true);
                t.violate(format!("after-failed-calls:{}", sig), summary, cj);
            }
        }
        layers.push(json!({"family": "a fixed series of failing parses/decompressions on the same thread right before the case", "cases": t.cases, "completed": true}));
        // each SINGLE call of the series immediately before a representative case
        let reps: Vec<&Case> = f1.iter().filter(|c| c.entries.len() == 2 && !c.entries[0].0.is_empty()).step_by(41).take(8).collect();
        for i in 0..props::poison::count() {
            for c in &reps {
                props::poison::single_call(i);
                t.cases += 1;
                t.nontrivial += 1;
                if let Some((sig, summary)) = judge(c, &mut t) {
                    let mut cj = case_json(c);
                    cj["after_single_call"] = json!(i);
                    t.violate(format!("after-single-call:{}", sig), format!("right after call #{} of the odd-call series: {}", i, summary), cj);
                }
            }
        }
        total.absorb(t);
    }
    // family 7: the shared tricky-string catalogue in every role, collation-inverted key pairs,
    // dense sweeps of message length and entry count
    let mut f7: Vec<Case> = Vec::new();
    {
        let tricky = sjis::tricky_strings();
        let (dl, dn) = ctx.tier.pick((1700usize, 300usize), (4400, 1100));
        for cfg in CFGS {
            for (i, s) in tricky.iter().enumerate() {
                let other = &tricky[(i + 1) % tricky.len()];
                if has_backslash_n(s) || has_backslash_n(other) {
                    // as a key or title it is fine, as a message it cannot be set
                    f7.push(Case { cfg, title: s.clone(), entries: vec![(s.clone(), "m".into()), (format!("MID_{}", other), "".into())], loaded: None });
                    continue;
                }
                f7.push(Case { cfg, title: s.clone(), entries: vec![(s.clone(), other.clone()), (format!("MID_{}", other), s.clone())], loaded: None });
            }
            for (a, b) in sjis::collation_inversions() {
                for swap in [false, true] {
                    let (x, y) = if swap { (b.clone(), a.clone()) } else { (a.clone(), b.clone()) };
                    f7.push(Case { cfg, title: "t".into(), entries: vec![(format!("MPID_{}", x), "1".into()), (format!("MPID_{}", y), "2".into()), (x.clone(), y.clone())], loaded: None });
                }
            }
            // key pairs that collide under common 32-bit hashes / stand in a suffix relation
            let mut pairs: Vec<(String, String)> = vcore::collide::pairs().iter().map(|(_, a, b)| (a.clone(), b.clone())).collect();
            pairs.extend(sjis::suffix_pairs());
            for (a, b) in pairs {
                if a.is_empty() || b.is_empty() {
                    continue;
                }
                f7.push(Case { cfg, title: a.clone(), entries: vec![(a.clone(), "first".into()), (b.clone(), "second".into()), ("K".into(), b.clone())], loaded: None });
                f7.push(Case { cfg, title: b.clone(), entries: vec![(b.clone(), a.clone()), (a.clone(), b.clone())], loaded: None });
            }
            for k in 0..=dl {
                let unit = if cfg.fmt == Fmt::Unicode { "aé日😀" } else { "a日ｿソn" };
                let m: String = unit.chars().cycle().take(k).collect();
                if has_backslash_n(&m) {
                    continue;
                }
                let key: String = "K".to_string() + &"kｷ".chars().cycle().take(k).collect::<String>();
                f7.push(Case { cfg, title: "abcd".chars().cycle().take(k % 9).collect(), entries: vec![("before".into(), "b".into()), (key, m), ("after".into(), "a".into())], loaded: None });
            }
            for n in 0..=dn {
                f7.push(Case { cfg, title: "n".into(), entries: (0..n).map(|i| (format!("M{}", i), if i % 2 == 0 { "xy".to_string() } else { "".to_string() })).collect(), loaded: None });
            }
        }
    }
    // archives whose total FILE size is 0x00010100 (= 65 792: the same four bytes in either byte
    // order) and twice that, and the sizes next to them — a reader that guesses the byte order
    // from the size word cannot tell them apart
    for cfg in CFGS {
        for target in [0x10100usize, 0x20200] {
            // the key name's length shifts the size by single bytes, the message length by words
            for r in 0..4usize {
                let build = |l: usize| -> Case { Case { cfg, title: "t".into(), entries: vec![("MID_A".into(), "first".into()), (format!("MID_LONG{}", "x".repeat(r)), "abcdefgh".chars().cycle().take(l).collect()), ("MID_Z".into(), "z".into())], loaded: None } };
                let size_of = |c: &Case| -> Option<usize> {
                    let mut a = TextArchive::new(mfmt(c.cfg.fmt), mend(c.cfg.e));
                    a.set_title(c.title.clone());
                    for (k, m) in &c.entries {
                        a.set_message(k, m);
                    }
                    a.serialize().ok().map(|b| b.len())
                };
                let per_char = if cfg.fmt == Fmt::Unicode { 2 } else { 1 };
                if let Some(s0) = size_of(&build(8)) {
                    if target > s0 && (target - s0) % 4 == 0 {
                        let l = 8 + (target - s0) / per_char;
                        for dl in 0..5usize {
                            f7.push(build(l.saturating_sub(2) + dl));
                        }
                    }
                }
            }
        }
    }
    let t = f7
        .par_iter()
        .fold(Tally::new, |mut t, c| {
            t.cases += 1;
            t.nontrivial += 1;
            if let Some((sig, summary)) = judge(c, &mut t) {
                let mut cj = case_json(c);
                if c.entries.len() > 6 {
                    cj = json!({"dense_entries": c.entries.len(), "fmt": format!("{:?}", c.cfg.fmt), "endian": format!("{:?}", c.cfg.e)});
                } else if c.entries.iter().any(|e| e.1.len() > 40_000) {
                    cj = json!({"sized_message_chars": c.entries[1].1.chars().count(), "sized_key": c.entries[1].0, "fmt": format!("{:?}", c.cfg.fmt), "endian": format!("{:?}", c.cfg.e)});
                }
                t.violate(sig, summary.chars().take(500).collect::<String>(), cj);
            }
            t
        })
        .reduce(Tally::new, Tally::merge);
    layers.push(json!({"family": "tricky-string catalogue as key/title/message; collation-inverted key pairs; DENSE sweeps: every message/key length and every entry count from 0", "cases": f7.len(), "completed": true}));
    total.absorb(t);
    // family 5: scale — long messages and many entries (widths beyond 8 and 16 bits)
    let f5 = scale_cases();
    let t = f5
        .par_iter()
        .fold(Tally::new, |mut t, c| {
            t.cases += 1;
            t.nontrivial += 1;
            if let Some((sig, summary)) = judge(c, &mut t) {
                let short = Case { cfg: c.cfg, title: c.title.clone(), entries: vec![("scale".into(), format!("{} entries, longest message {} chars", c.entries.len(), c.entries.iter().map(|e| e.1.chars().count()).max().unwrap_or(0)))], loaded: None };
                t.violate(format!("scale:{}", sig), summary.chars().take(400).collect::<String>(), json!({"scale": case_json(&short)}));
            }
            t
        })
        .reduce(Tally::new, Tally::merge);
    layers.push(json!({"family": "scale: messages of 255..70 001 characters, 255..66 000 entries", "cases": f5.len(), "completed": true}));
    total.absorb(t);
    total.sample(case_json(&f1[f1.len() / 2]));
    total.sample(case_json(&Case { cfg: CFGS[0], title: "T".into(), entries: vec![("K".into(), "\u{FEFF}a".into())], loaded: None }));
    let mut o = total.into_outcome(
        "three families through new/set_title/set_message → serialize → (a) from_bytes with the same format/endianness and (b) an independent reader of the image (record alignment, key = label of the record address, terminators/padding): (1) 4 configs × 6 titles × all ordered lists of 0..=3 distinct keys from 4 × all message assignments from 3; (2) per config ALL strings of 0..=n symbols over {a, newline, backslash, é, 日, 😀, U+FEFF, U+FFFE, U+BBEF, U+00BF} (restricted to the encoding's domain) as the middle message of three; (4) load → edit → save: a parsed 3-entry archive edited by every subset of deletes × title change × 5 set_message lists; (3) every character of the encoding's domain (all 1 112 063 Unicode scalars but NUL / all 7 517 Shift-JIS-lossless code points) as c, xc, cx. non-trivial = archive with ≥ 1 entry",
        true,
        vec![("layers", json!(layers))],
    );
    o.assumptions = vec![
        "messages are stored through set_message(escape(m)); strings containing a literal backslash followed by 'n' cannot be stored that way and are skipped (counted in outcome_classes)".into(),
        "UTF-16 code units are little-endian in the file whatever the archive endianness (DESIGN Appendix A)".into(),
        "quick tier sweeps single characters for Unicode/Little and both Shift-JIS configs; thorough adds Unicode/Big".into(),
    ];
    o
}

fn scale_cases() -> Vec<Case> {
    let mut f5: Vec<Case> = Vec::new();
    for cfg in CFGS {
        for n in util::ladder(70_001).into_iter().chain([70_001]) {
            let unit = if cfg.fmt == Fmt::Unicode { "aé日😀" } else { "a日ｿ" };
            let m: String = unit.chars().cycle().take(n).collect();
            f5.push(Case { cfg, title: "T".into(), entries: vec![("before".into(), "b".into()), ("LONG".into(), m), ("after".into(), "a".into())], loaded: None });
        }
        // Shift-JIS carried strings (messages of the legacy format; titles and keys of both)
        // longer than 256 bytes with two-byte characters at every byte alignment
        for shift in 0..4usize {
            let long: String = "a".repeat(shift) + &"日本語".repeat(100);
            let msg = if cfg.fmt == Fmt::ShiftJis { long.clone() } else { "m".to_string() };
            f5.push(Case { cfg, title: long.clone(), entries: vec![(format!("K{}", long), msg), ("after".into(), "a".into())], loaded: None });
        }
        for n in util::ladder(66_000).into_iter().chain([66_000]) {
            f5.push(Case { cfg, title: "many".into(), entries: (0..n).map(|i| (format!("MID_{:05}", i), format!("m{}", i % 97))).collect(), loaded: None });
        }
    }
    f5
}

fn explore_scale_only(_ctx: &Ctx) -> Vec<Violation> {
    let mut out = Vec::new();
    for c in scale_cases() {
        let mut t = Tally::new();
        if let Some((sig, summary)) = judge(&c, &mut t) {
            out.push(Violation { sig: format!("scale:{}", sig), summary: summary.chars().take(400).collect(), case: json!({"scale": true}) });
        }
    }
    out
}

fn replay(ctx: &Ctx, case: &Value) -> Vec<Violation> {
    if case.get("scale").is_some() {
        // scale cases are regenerated: re-run the whole (small) scale family
        let o = explore_scale_only(ctx);
        return o;
    }
    if let Some(l) = case["sized_message_chars"].as_u64() {
        let fmt = if case["fmt"] == "ShiftJis" { Fmt::ShiftJis } else { Fmt::Unicode };
        let e = if case["endian"] == "Big" { End::Big } else { End::Little };
        let c = Case { cfg: Cfg { fmt, e }, title: "t".into(), entries: vec![("MID_A".into(), "first".into()), (case["sized_key"].as_str().unwrap_or("MID_LONG").to_string(), "abcdefgh".chars().cycle().take(l as usize).collect()), ("MID_Z".into(), "z".into())], loaded: None };
        let mut t = Tally::new();
        return judge(&c, &mut t).map(|(sig, summary)| vec![Violation { sig, summary: summary.chars().take(500).collect(), case: case.clone() }]).unwrap_or_default();
    }
    if let Some(n) = case["dense_entries"].as_u64() {
        let fmt = if case["fmt"] == "ShiftJis" { Fmt::ShiftJis } else { Fmt::Unicode };
        let e = if case["endian"] == "Big" { End::Big } else { End::Little };
        let c = Case { cfg: Cfg { fmt, e }, title: "n".into(), entries: (0..n).map(|i| (format!("M{}", i), if i % 2 == 0 { "xy".to_string() } else { "".to_string() })).collect(), loaded: None };
        let mut t = Tally::new();
        return judge(&c, &mut t).map(|(sig, summary)| vec![Violation { sig, summary, case: case.clone() }]).unwrap_or_default();
    }
    let c = case_from_json(case);
    let mut t = Tally::new();
    if let Some(i) = case["after_single_call"].as_u64() {
        props::poison::single_call(i as usize);
        return judge(&c, &mut t).map(|(sig, summary)| vec![Violation { sig: format!("after-single-call:{}", sig), summary, case: case.clone() }]).unwrap_or_default();
    }
    if case["after_failed_calls"].as_bool().unwrap_or(false) {
        props::poison::failing_calls();
        return match judge(&c, &mut t) {
            Some((sig, summary)) => vec![Violation { sig: format!("after-failed-calls:{}", sig), summary, case: case.clone() }],
            None => vec![],
        };
    }
    match judge(&c, &mut t) {
        Some((sig, summary)) => vec![Violation { sig: if c.loaded.is_some() { format!("loaded-then-edited:{}", sig) } else { sig }, summary, case: case.clone() }],
        None => vec![],
    }
}

fn main() {
    vcore::run_main(PropDef { id: "C06", level: "model_checking", both_builds: BothBuilds::ThoroughOnly, explore, replay, worker: None })
}
