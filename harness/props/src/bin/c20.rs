//! C20 — texture containers yield the packed textures and fail cleanly when truncated.
//! Engine E2 (in-process, rayon) for conforming files and wrong magic numbers; engine E3
//! (chunked sweep in worker subprocesses) for every strict prefix of the generated files.
//! Both builds.
//!
//! Files are produced by `vcore::ref_tex` (mila has no writer), expected pixels by
//! `vcore::ref_pix` from each texture's own payload.

use mila::Texture;
use rayon::prelude::*;
use serde_json::{json, Value};
use std::sync::OnceLock;
use std::time::Duration;
use vcore::driver::{BothBuilds, Ctx, Outcome, PropDef, Tier, Violation};
use vcore::isolate::{self, Family};
use vcore::ref_pix::{self as rp, Fmt, Px};
use vcore::ref_tex::{self as rt, Container, Layout, TexSpec};
use vcore::{util, Tally};

// ---------------------------------------------------------------------------------------
// the enumerated world: texture pool, texture lists, layouts, prefix schedule

const SIZES: [(usize, usize); 4] = [(8, 8), (8, 16), (16, 8), (32, 32)];
const NAMES: [&str; 3] = ["t", "テクスチャ", "a/b.png"];
/// TPL images additionally come in sizes that are not whole 8x4 blocks
const TPL_SIZES: [(usize, usize); 9] = [(8, 8), (8, 16), (16, 8), (32, 32), (5, 3), (13, 9), (8, 2), (16, 6), (5, 4)];
const TPL_PALETTES: [usize; 3] = [256, 16, 1];

struct PoolTex {
    spec: TexSpec,
    exp: Vec<Px>,
}

struct World {
    pool3: Vec<PoolTex>,
    poolt: Vec<PoolTex>,
    /// ETC textures whose differential blocks use negative deltas (kept apart: see `etcneg`)
    pool_neg: Vec<PoolTex>,
    lists3: Vec<Vec<usize>>,
    listst: Vec<Vec<usize>>,
    ctpk: Vec<Layout>,
    bch: Vec<Layout>,
    cgfx: Vec<Layout>,
    cgfx_backward: Vec<Layout>,
    tpl: Vec<Layout>,
}

fn make_3ds(k: usize, fmt: Fmt, size: (usize, usize), name: &str, neg: bool) -> PoolTex {
    let payload = rp::random_payload(fmt, size.0, size.1, 0xC20 + k as u64, neg);
    let exp = rp::decode_3ds(fmt, size.0, size.1, &payload).expect("exact size");
    assert_eq!(exp.undefined_blocks, 0);
    PoolTex { spec: TexSpec { name: name.to_string(), width: size.0, height: size.1, format: fmt.code(), payload, palette: vec![] }, exp: exp.px }
}

fn lists_over(pool: usize, max_len: usize) -> Vec<Vec<usize>> {
    // multipliers coprime to 108 and 18; every pool member appears in every position
    const MUL: [(usize, usize); 6] = [(1, 0), (7, 13), (11, 2), (13, 7), (17, 11), (19, 5)];
    let mut v = vec![vec![]];
    for len in 1..=max_len {
        for k in 0..pool {
            v.push((0..len).map(|j| (k * MUL[j].0 + MUL[j].1) % pool).collect());
        }
    }
    v
}

fn world(tier: Tier) -> &'static World {
    static W: OnceLock<World> = OnceLock::new();
    W.get_or_init(|| {
        let mut pool3 = Vec::new();
        for k in 0..108usize {
            pool3.push(make_3ds(k, Fmt::ALL[k % 9], SIZES[(k / 9) % 4], NAMES[k / 36], false));
        }
        let mut pool_neg = Vec::new();
        for (k, fmt) in [Fmt::Etc1, Fmt::Etc1A4].into_iter().enumerate() {
            pool_neg.push(make_3ds(1000 + k, fmt, (8, 8), "neg", true));
        }
        let mut poolt = Vec::new();
        for (k, (&size, &pal_n)) in TPL_SIZES.iter().flat_map(|s| TPL_PALETTES.iter().map(move |p| (s, p))).enumerate() {
            let mut rng = rp::Rng(0x7E1 + k as u64);
            let palette: Vec<u16> = (0..pal_n).map(|_| rng.next() as u16).collect();
            let mut payload: Vec<u8> = (0..rp::ci8_len(size.0, size.1)).map(|_| rng.below(pal_n as u64) as u8).collect();
            if pal_n < 256 {
                // texels of partially filled blocks that lie outside the image are not part of it:
                // they hold a value outside the palette
                let mut visible = vec![false; payload.len()];
                for y in 0..size.1 {
                    for x in 0..size.0 {
                        visible[rp::ci8_source_index(size.0, x, y)] = true;
                    }
                }
                for (i, v) in visible.iter().enumerate() {
                    if !v {
                        payload[i] = 0xFF;
                    }
                }
            }
            let exp = rp::decode_ci8(size.0, size.1, &payload, &palette).expect("indices inside the palette");
            poolt.push(PoolTex { spec: TexSpec { name: String::new(), width: size.0, height: size.1, format: rt::TPL_CI8, payload, palette }, exp });
        }
        let max_len = tier.pick(3, 6);
        let tpl_orders: Vec<usize> = match tier {
            Tier::Quick => (0..120).step_by(5).collect(),
            Tier::Thorough => (0..120).collect(),
        };
        let cgfx_backward: Vec<Layout> = rt::cgfx_layouts(false).into_iter().filter(|l| tier == Tier::Thorough || l.flags == 0 || l.flags == 63).collect();
        World {
            lists3: lists_over(pool3.len(), max_len),
            listst: lists_over(poolt.len(), max_len),
            pool3,
            poolt,
            pool_neg,
            ctpk: rt::ctpk_layouts(),
            bch: rt::bch_layouts(tier == Tier::Thorough),
            cgfx: rt::cgfx_layouts(true),
            cgfx_backward,
            tpl: rt::tpl_layouts(&tpl_orders),
        }
    })
}

impl World {
    fn lists(&self, c: Container) -> &Vec<Vec<usize>> {
        if c == Container::Tpl {
            &self.listst
        } else {
            &self.lists3
        }
    }
    fn pool(&self, c: Container) -> &Vec<PoolTex> {
        if c == Container::Tpl {
            &self.poolt
        } else {
            &self.pool3
        }
    }
    fn layouts(&self, c: Container) -> &Vec<Layout> {
        match c {
            Container::Ctpk => &self.ctpk,
            Container::Bch => &self.bch,
            Container::Cgfx => &self.cgfx,
            Container::Tpl => &self.tpl,
        }
    }
    fn textures(&self, c: Container, list: usize) -> Vec<&PoolTex> {
        self.lists(c)[list].iter().map(|&k| &self.pool(c)[k]).collect()
    }
    /// Files whose every strict prefix is parsed: each list once (layout rotating with the
    /// list), and each layout once (list rotating with the layout).
    fn prefix_file(&self, c: Container, idx: u64) -> (usize, usize) {
        let nl = self.lists(c).len();
        let ny = self.layouts(c).len();
        let i = idx as usize;
        if i < nl {
            (i, (i * 37 + 5) % ny)
        } else {
            let y = i - nl;
            ((y * 3 + 1) % nl, y)
        }
    }
    fn prefix_files(&self, c: Container) -> u64 {
        (self.lists(c).len() + self.layouts(c).len()) as u64
    }
}

fn specs_of(texs: &[&PoolTex]) -> Vec<TexSpec> {
    texs.iter().map(|t| t.spec.clone()).collect()
}

// ---------------------------------------------------------------------------------------
// observation and judgement

fn read(c: Container, bytes: &[u8]) -> Result<Result<Vec<Texture>, String>, util::PanicInfo> {
    util::catch(|| match c {
        Container::Ctpk => mila::ctpk::read(bytes).map_err(|e| e.to_string()),
        Container::Bch => mila::bch::read(bytes).map_err(|e| e.to_string()),
        Container::Cgfx => mila::cgfx::read(bytes).map_err(|e| e.to_string()),
        Container::Tpl => mila::tpl::Tpl::extract_textures(bytes).map_err(|e| e.to_string()),
    })
}

/// Compare what mila returned for a conforming file with the packed textures.
fn compare(c: Container, texs: &[&PoolTex], got: &[Texture]) -> Option<(String, String)> {
    let cn = c.name();
    if got.len() != texs.len() {
        return Some((format!("count:{}", cn), format!("{} textures returned for a container holding {}", got.len(), texs.len())));
    }
    for (i, (g, t)) in got.iter().zip(texs).enumerate() {
        if c.stores_names() && g.filename != t.spec.name {
            return Some((format!("name:{}", cn), format!("texture {} is named {:?}, packed as {:?}", i, g.filename, t.spec.name)));
        }
        if g.width != t.spec.width || g.height != t.spec.height {
            return Some((format!("dims:{}", cn), format!("texture {} reported as {}x{} (width x height), packed as {}x{}", i, g.width, g.height, t.spec.width, t.spec.height)));
        }
        if g.pixel_data.len() != t.exp.len() * 4 {
            return Some((format!("pixels:{}", cn), format!("texture {} has {} bytes of pixel data, expected {} pixels x 4", i, g.pixel_data.len(), t.exp.len())));
        }
        if let Some((p, ch)) = rp::first_mismatch(&t.exp, &g.pixel_data) {
            return Some((
                format!("pixels:{}", cn),
                format!(
                    "texture {} ({} {}x{}) pixel ({}, {}) channel {} is {:?}; decoding its own payload gives {}",
                    i,
                    Fmt::from_code(t.spec.format).map(|f| f.name()).unwrap_or("CI8"),
                    t.spec.width,
                    t.spec.height,
                    p % t.spec.width,
                    p / t.spec.width,
                    ch,
                    &g.pixel_data[p * 4..p * 4 + 4],
                    rp::describe_px(&t.exp[p])
                ),
            ));
        }
    }
    None
}

fn case_of(fam: &str, idx: u64) -> Value {
    json!({"family": fam, "index": idx})
}

/// One conforming file: parse and compare.
fn judge_conforming(c: Container, texs: &[&PoolTex], l: &Layout, fam: &str, idx: u64, t: &mut Tally) {
    let built = rt::build(c, &specs_of(texs), l);
    t.cases += 1;
    t.calls += 1;
    t.nontrivial += !texs.is_empty() as u64;
    t.class(&format!("{}:{}-textures", c.name(), texs.len()));
    let what = || format!("{} with {} textures, layout {}", c.name(), texs.len(), l.describe());
    match read(c, &built.bytes) {
        Err(p) => t.violate(format!("panic@{}", p.location), format!("{}: read panicked: {}", what(), p.message), case_of(fam, idx)),
        Ok(Err(e)) => t.violate(format!("rejected:{}", c.name()), format!("{}: conforming file rejected: {}", what(), e), case_of(fam, idx)),
        Ok(Ok(got)) => match compare(c, texs, &got) {
            Some((sig, summary)) => t.violate(sig, format!("{}: {}", what(), summary), case_of(fam, idx)),
            None => t.class("conforming:ok"),
        },
    }
}

/// CGFX with backward self-relative offsets (unchecked build only): observation, never a verdict.
fn observe_backward(w: &World, idx: u64, t: &mut Tally) {
    let ny = w.cgfx_backward.len();
    let list = idx as usize / ny;
    let l = &w.cgfx_backward[idx as usize % ny];
    let texs = w.textures(Container::Cgfx, list);
    let built = rt::build_cgfx(&specs_of(&texs), l);
    debug_assert!(built.backward_offsets);
    t.cases += 1;
    t.calls += 1;
    match read(Container::Cgfx, &built.bytes) {
        Err(_) => t.class("cgfx-backward-offsets:panic(observation)"),
        Ok(Err(_)) => t.class("cgfx-backward-offsets:err(observation)"),
        Ok(Ok(got)) => match compare(Container::Cgfx, &texs, &got) {
            Some(_) => t.class("cgfx-backward-offsets:differs(observation)"),
            None => t.class("cgfx-backward-offsets:read-correctly(observation)"),
        },
    }
}

/// Wrong magic number ⇒ Err (BCH, CGFX, TPL).
fn judge_magic(c: Container, w: &World, idx: u64, fam: &str, t: &mut Tally) {
    let nl = w.lists(c).len();
    let list = idx as usize % nl;
    let texs = w.textures(c, list);
    let ny = w.layouts(c).len();
    let l = &w.layouts(c)[(list * 37 + 5) % ny];
    let good = rt::build(c, &specs_of(&texs), l).bytes;
    let mut variants: Vec<[u8; 4]> = Vec::new();
    let magic: [u8; 4] = good[0..4].try_into().unwrap();
    for i in 0..4 {
        for v in [magic[i] ^ 0x01, magic[i] ^ 0x80, magic[i] ^ 0xFF, 0x00, 0x20] {
            if v != magic[i] {
                let mut m = magic;
                m[i] = v;
                variants.push(m);
            }
        }
    }
    for other in [*b"CTPK", *b"BCH\0", *b"CGFX", [0x00, 0x20, 0xAF, 0x30], *b"DICT", [0x30, 0xAF, 0x20, 0x00], *b"\0HCB", *b"XFGC"] {
        if other != magic {
            variants.push(other);
        }
    }
    variants.sort();
    variants.dedup();
    t.cases += 1;
    t.nontrivial += 1;
    for m in variants {
        let mut bad = good.clone();
        bad[0..4].copy_from_slice(&m);
        t.calls += 1;
        let what = || format!("{} ({} textures) with its magic replaced by {:02x?}", c.name(), texs.len(), m);
        match read(c, &bad) {
            Err(p) => t.violate(format!("panic@{}", p.location), format!("{}: read panicked: {}", what(), p.message), case_of(fam, idx)),
            Ok(Ok(v)) => t.violate(format!("bad-magic-accepted:{}", c.name()), format!("{}: read returned Ok with {} textures", what(), v.len()), case_of(fam, idx)),
            Ok(Err(_)) => t.class("wrong-magic:err"),
        }
    }
}

/// Every strict prefix of one generated file.
fn judge_prefixes(c: Container, w: &World, idx: u64, fam: &str, t: &mut Tally) {
    let (list, layout) = w.prefix_file(c, idx);
    let texs = w.textures(c, list);
    let l = &w.layouts(c)[layout];
    let built = rt::build(c, &specs_of(&texs), l);
    let must_fail_below = built.payload_end();
    t.cases += 1;
    t.nontrivial += !texs.is_empty() as u64;
    t.class_n("prefix:bytes", built.bytes.len() as u64);
    let what = |cut: usize| format!("first {} of {} bytes of a {} with {} textures (layout {}; payloads end at {})", cut, built.bytes.len(), c.name(), texs.len(), l.describe(), must_fail_below);
    // the whole file must still be read correctly (guards the schedule against drifting from the parse family)
    t.calls += 1;
    match read(c, &built.bytes) {
        Ok(Ok(got)) if compare(c, &texs, &got).is_none() => {}
        _ => t.violate(format!("rejected:{}", c.name()), format!("{}: the complete file is not read back correctly", what(built.bytes.len())), case_of(fam, idx)),
    }
    vcore::alloc::reset_max();
    for cut in 0..built.bytes.len() {
        t.calls += 1;
        match read(c, &built.bytes[..cut]) {
            Err(p) => {
                t.class("prefix:panic");
                t.violate(format!("prefix-panic:{}", c.name()), format!("{}: read panicked at {}: {}", what(cut), p.location, p.message), json!({"family": fam, "index": idx, "cut": cut}));
            }
            Ok(Ok(v)) => {
                if cut < must_fail_below {
                    t.class("prefix:accepted-with-payload-cut");
                    t.violate(format!("prefix-accepted:{}", c.name()), format!("{}: read returned Ok with {} textures although a texture payload is cut", what(cut), v.len()), json!({"family": fam, "index": idx, "cut": cut}));
                } else {
                    t.class("prefix:ok(payloads-whole)");
                }
            }
            Ok(Err(_)) => t.class(if cut < must_fail_below { "prefix:err(payload-cut)" } else { "prefix:err(payloads-whole)" }),
        }
    }
    note_allocation(built.bytes.len(), t);
}

/// Observation only (C20 has no allocation clause): did any prefix make the parser request a
/// single buffer far larger than the file?
fn note_allocation(file_len: usize, t: &mut Tally) {
    let max = vcore::alloc::max_request();
    if max > (1 << 20) + 64 * file_len {
        t.class("prefix:allocation-above-1MiB+64x-file(observation)");
    } else {
        t.class("prefix:allocations-proportionate(observation)");
    }
}

/// Negative differential deltas inside containers: a handful of files, kept apart from the
/// main family because the decoder defect they hit (decided under C19) would otherwise mask
/// every ETC file of the overflow-checked build.
fn judge_etcneg(w: &World, idx: u64, fam: &str, t: &mut Tally) {
    let c = [Container::Ctpk, Container::Bch, Container::Cgfx][(idx / 2) as usize % 3];
    let tex = &w.pool_neg[(idx % 2) as usize];
    let l = &w.layouts(c)[0];
    judge_conforming(c, &[tex], l, fam, idx, t);
}

/// Extra conforming files: (a) names from the shared tricky-string catalogue (CTPK names are
/// Shift-JIS, BCH/CGFX names UTF-8 — there also astral / BOM-like names), (b) textures of
/// DIFFERENT formats whose payload bytes are equal, stored once and shared.
struct ExtraCase {
    c: Container,
    texs: Vec<PoolTex>,
    l: Layout,
}

fn extra_cases() -> &'static Vec<ExtraCase> {
    static E: OnceLock<Vec<ExtraCase>> = OnceLock::new();
    E.get_or_init(|| {
        let mut v = Vec::new();
        let tricky = vcore::sjis::tricky_strings();
        let mut names: Vec<String> = tricky.clone();
        let utf8_only = ["😀.png", "é", "\u{FEFF}bom", "tex\u{301C}", "ÿ", "\u{80}", "名前/テクスチャ.bch"];
        for (i, s) in names.drain(..).chain(utf8_only.iter().map(|s| s.to_string())).enumerate() {
            for c in [Container::Ctpk, Container::Bch, Container::Cgfx] {
                if c == Container::Ctpk && !vcore::sjis::lossless(&s) {
                    continue;
                }
                let other = &tricky[(i + 1) % tricky.len()];
                let texs = vec![make_3ds(i, Fmt::ALL[i % 9], SIZES[0], &s, false), make_3ds(i + 1, Fmt::ALL[(i + 4) % 9], SIZES[1], other, false), make_3ds(i + 2, Fmt::ALL[(i + 7) % 9], SIZES[0], &s, false)];
                let layouts = match c {
                    Container::Ctpk => rt::ctpk_layouts(),
                    Container::Bch => rt::bch_layouts(false),
                    _ => rt::cgfx_layouts(true),
                };
                v.push(ExtraCase { c, texs, l: layouts[(i * 7) % layouts.len()].clone() });
            }
        }
        // texture names that collide under common 32-bit hashes / FxHash, or stand in a suffix relation
        let mut pairs: Vec<(String, String)> = vcore::collide::pairs().iter().map(|(_, a, b)| (a.clone(), b.clone())).collect();
        pairs.extend(vcore::sjis::suffix_pairs());
    pairs.extend(vcore::sjis::case_pairs());
        for (i, (a, b)) in pairs.iter().enumerate() {
            if a.is_empty() || b.is_empty() {
                continue;
            }
            for c in [Container::Ctpk, Container::Bch, Container::Cgfx] {
                let texs = vec![make_3ds(i, Fmt::ALL[i % 9], SIZES[0], a, false), make_3ds(i + 1, Fmt::ALL[(i + 3) % 9], SIZES[0], b, false)];
                let layouts = match c {
                    Container::Ctpk => rt::ctpk_layouts(),
                    Container::Bch => rt::bch_layouts(false),
                    _ => rt::cgfx_layouts(true),
                };
                v.push(ExtraCase { c, texs, l: layouts[(i * 5) % layouts.len()].clone() });
            }
        }
        // dimensions at and beyond every field width a reader might assume (11-bit hardware
        // register, 12 bits, 16 bits minus one): a small texture first, the large one behind it
        for (k, (w, h)) in [(2048usize, 8usize), (8, 2048), (4096, 8), (8, 4096), (1024, 1024), (32768, 8)].into_iter().enumerate() {
            for (fi, fmt) in [Fmt::L8, Fmt::Rgba4].into_iter().enumerate() {
                if w * h > 1 << 20 && fi == 1 {
                    continue;
                }
                for c in [Container::Ctpk, Container::Bch, Container::Cgfx] {
                    let texs = vec![make_3ds(k, Fmt::Rgba8, SIZES[0], "small", false), make_3ds(k + 9, fmt, (w, h), "large", false)];
                    let layouts = match c {
                        Container::Ctpk => rt::ctpk_layouts(),
                        Container::Bch => rt::bch_layouts(false),
                        _ => rt::cgfx_layouts(true),
                    };
                    v.push(ExtraCase { c, texs, l: layouts[(k * 3 + fi) % layouts.len()].clone() });
                }
            }
        }
        // same bytes, different formats (formats of equal bits per pixel), same and different sizes
        let groups: [&[Fmt]; 2] = [&[Fmt::L8, Fmt::A8], &[Fmt::Rgba5551, Fmt::Rgb565, Fmt::Rgba4, Fmt::La8]];
        for g in groups {
            for (ai, &fa) in g.iter().enumerate() {
                for (bi, &fb) in g.iter().enumerate() {
                    if ai == bi {
                        continue;
                    }
                    for (sa, sb) in [(SIZES[0], SIZES[0]), (SIZES[1], SIZES[2]), (SIZES[3], SIZES[3])] {
                        let a = make_3ds(77, fa, sa, "first", false);
                        let pb = a.spec.payload.clone();
                        let eb = rp::decode_3ds(fb, sb.0, sb.1, &pb).expect("same byte size").px;
                        let b = PoolTex { spec: TexSpec { name: "second".into(), width: sb.0, height: sb.1, format: fb.code(), payload: pb, palette: vec![] }, exp: eb };
                        let a2 = make_3ds(77, fa, sa, "third", false);
                        for c in [Container::Ctpk, Container::Bch, Container::Cgfx] {
                            for flags in [rt::FLAG_SHARE_PAYLOADS, rt::FLAG_SHARE_PAYLOADS | rt::FLAG_REV_PAYLOADS | rt::FLAG_REV_RECORDS, rt::FLAG_SHARE_PAYLOADS | rt::FLAG_INNER_GAPS] {
                                let base = match c {
                                    Container::Ctpk => rt::ctpk_layouts()[0].clone(),
                                    Container::Bch => rt::bch_layouts(false)[0].clone(),
                                    _ => rt::cgfx_layouts(true)[0].clone(),
                                };
                                let l = Layout { flags, ..base };
                                let texs = vec![PoolTex { spec: a.spec.clone(), exp: a.exp.clone() }, PoolTex { spec: b.spec.clone(), exp: b.exp.clone() }, PoolTex { spec: a2.spec.clone(), exp: a2.exp.clone() }];
                                v.push(ExtraCase { c, texs, l });
                            }
                        }
                    }
                }
            }
        }
        v
    })
}

fn in_process_families(tier: Tier, checked: bool) -> Vec<(String, u64)> {
    let w = world(tier);
    let mut v = Vec::new();
    for c in Container::ALL {
        v.push((format!("parse-{}", c.name()), (w.lists(c).len() * w.layouts(c).len()) as u64));
        if c.checks_magic() {
            v.push((format!("magic-{}", c.name()), w.lists(c).len() as u64));
        }
    }
    if !checked {
        v.push(("cgfx-backward".to_string(), (w.lists3.len() * w.cgfx_backward.len()) as u64));
    }
    v.push(("etcneg".to_string(), 6));
    v.push(("extra".to_string(), extra_cases().len() as u64));
    // state carried between calls: every 97th conforming file read right after a fixed series of failing calls
    for c in Container::ALL {
        v.push((format!("poisoned-{}", c.name()), ((w.lists(c).len() * w.layouts(c).len()) / 97) as u64));
        v.push((format!("singlecall-{}", c.name()), 2 * props::poison::count() as u64));
    }
    v
}

fn run_case(tier: Tier, fam: &str, idx: u64, t: &mut Tally) {
    let w = world(tier);
    if let Some(cn) = fam.strip_prefix("parse-") {
        if let Some(c) = Container::from_name(cn) {
            let ny = w.layouts(c).len();
            let list = idx as usize / ny;
            if list < w.lists(c).len() {
                judge_conforming(c, &w.textures(c, list), &w.layouts(c)[idx as usize % ny], fam, idx, t);
            }
        }
    } else if let Some(cn) = fam.strip_prefix("poisoned-") {
        if let Some(c) = Container::from_name(cn) {
            let ny = w.layouts(c).len();
            let real = idx as usize * 97;
            let list = real / ny;
            if list < w.lists(c).len() {
                props::poison::failing_calls();
                let before = t.violations.len();
                judge_conforming(c, &w.textures(c, list), &w.layouts(c)[real % ny], fam, idx, t);
                for v in t.violations.iter_mut().skip(before) {
                    v.sig = format!("after-failed-calls:{}", v.sig);
                }
            }
        }
    } else if let Some(cn) = fam.strip_prefix("singlecall-") {
        // EACH SINGLE call of the odd-call series immediately before one conforming file
        if let Some(c) = Container::from_name(cn) {
            let ny = w.layouts(c).len();
            let nl = w.lists(c).len();
            let call = idx as usize / 2;
            let list = (call * 7 + (idx as usize % 2) * 3) % nl.max(1);
            if list < nl {
                props::poison::single_call(call);
                let before = t.violations.len();
                judge_conforming(c, &w.textures(c, list), &w.layouts(c)[(call * 5 + idx as usize % 2) % ny], fam, idx, t);
                for v in t.violations.iter_mut().skip(before) {
                    v.sig = format!("after-single-call:{}", v.sig);
                }
            }
        }
    } else if let Some(cn) = fam.strip_prefix("magic-") {
        if let Some(c) = Container::from_name(cn) {
            judge_magic(c, w, idx, fam, t);
        }
    } else if let Some(cn) = fam.strip_prefix("pfx-") {
        if let Some(c) = Container::from_name(cn) {
            if idx < w.prefix_files(c) {
                judge_prefixes(c, w, idx, fam, t);
            }
        }
    } else if fam == "cgfx-backward" {
        observe_backward(w, idx, t);
    } else if fam == "etcneg" {
        judge_etcneg(w, idx, fam, t);
    } else if fam == "extra" {
        if let Some(e) = extra_cases().get(idx as usize) {
            let refs: Vec<&PoolTex> = e.texs.iter().collect();
            judge_conforming(e.c, &refs, &e.l, fam, idx, t);
        }
    }
}

// ---------------------------------------------------------------------------------------

/// Keep at most 8 recorded violations per signature, so that one noisy family cannot use up
/// the overall cap and hide the signatures of the families after it.
fn trim(t: &mut Tally) {
    let mut kept: Vec<Violation> = Vec::new();
    for v in std::mem::take(&mut t.violations) {
        if kept.iter().filter(|k| k.sig == v.sig).count() < 8 {
            kept.push(v);
        }
    }
    t.violations = kept;
}

fn explore(ctx: &Ctx) -> Outcome {
    let tier = ctx.tier;
    let w = world(tier);
    let mut total = Tally::new();
    let mut fam_json: Vec<Value> = Vec::new();

    // E2: conforming files in every layout, wrong magic numbers
    for (fam, count) in in_process_families(tier, ctx.is_checked()) {
        let t = (0..count)
            .into_par_iter()
            .fold(Tally::new, |mut t, i| {
                run_case(tier, &fam, i, &mut t);
                t
            })
            .reduce(Tally::new, Tally::merge);
        fam_json.push(json!({"family": fam, "engine": "E2", "members": count, "completed": true}));
        let mut t = t;
        trim(&mut t);
        total.absorb(t);
    }

    // standing determinism check of the harness: the first cases of every family run twice
    let mut machinery = Vec::new();
    for (fam, count) in in_process_families(tier, ctx.is_checked()) {
        let (mut a, mut b) = (Tally::new(), Tally::new());
        for i in 0..count.min(1000) {
            run_case(tier, &fam, i, &mut a);
            run_case(tier, &fam, i, &mut b);
        }
        if a.classes != b.classes || a.violations.len() != b.violations.len() {
            machinery.push(format!("family {} is not deterministic", fam));
        }
    }

    // E3: every strict prefix of the scheduled files
    let fams: Vec<Family> = Container::ALL.iter().map(|c| Family::new(format!("pfx-{}", c.name()), w.prefix_files(*c))).collect();
    let args = vec!["--tier".to_string(), tier.name().to_string()];
    let mut extras = vec![];
    match isolate::sweep(&ctx.exe, &args, 16, &fams, 4, Duration::from_secs(60)) {
        Err(e) => machinery.push(format!("worker pool failed: {}", e)),
        Ok(res) => {
            let prefixes = res.tally.classes.get("prefix:bytes").copied().unwrap_or(0);
            let mut rt = res.tally;
            trim(&mut rt);
            total.absorb(rt);
            for f in &res.fatals {
                let (sig, summary) = isolate::describe_fatal(&format!("prefix-{}", f.family.trim_start_matches("pfx-")), &f.status);
                total.cases += 1;
                total.violate(sig, format!("file {} #{}: {}", f.family, f.index, summary), json!({"family": f.family, "index": f.index, "fatal": true}));
            }
            for f in &fams {
                fam_json.push(json!({"family": f.tag, "engine": "E3", "members": f.count, "completed": true}));
            }
            extras.push(("prefixes_parsed", json!(prefixes)));
            extras.push(("worker_respawns", json!(res.respawns)));
            extras.push(("chunks", json!(res.chunks)));
        }
    }
    total.classes.remove("prefix:bytes");

    let s = w.textures(Container::Bch, 120);
    let b = rt::build_bch(&specs_of(&s), &w.bch[77]);
    total.sample(json!({"family": "parse-bch", "textures": s.iter().map(|t| json!({"name": t.spec.name, "size": [t.spec.width, t.spec.height], "format": t.spec.format})).collect::<Vec<_>>(), "layout": w.bch[77].describe(), "file_len": b.bytes.len(), "payload_ranges": b.payload_ranges, "head_hex": util::hex(&b.bytes[..64])}));
    let s = w.textures(Container::Tpl, 30);
    let b = rt::build_tpl(&specs_of(&s), &w.tpl[9]);
    total.sample(json!({"family": "parse-tpl", "textures": s.iter().map(|t| json!({"size": [t.spec.width, t.spec.height], "palette_entries": t.spec.palette.len()})).collect::<Vec<_>>(), "layout": w.tpl[9].describe(), "file_len": b.bytes.len(), "payload_ranges": b.payload_ranges}));

    extras.push(("families", json!(fam_json)));
    extras.push(("texture_lists", json!({"3ds": w.lists3.len(), "tpl": w.listst.len(), "max_textures": tier.pick(3, 6)})));
    extras.push(("layouts", json!({"ctpk": w.ctpk.len(), "bch": w.bch.len(), "cgfx_forward": w.cgfx.len(), "cgfx_backward(unchecked only, observation)": w.cgfx_backward.len(), "tpl": w.tpl.len()})));
    let mut o = total.into_outcome(
        "texture pool: every one of the 9 supported 3DS formats x sizes {8x8, 8x16, 16x8, 32x32} x names {t, テクスチャ, a/b.png} (108 textures, pseudo-random payloads) and 27 CI8+RGB5A3 TPL images (incl. sizes that are not whole blocks, palettes of 256/16/1 entries); texture lists: the empty list, every pool texture alone, and for each length up to the bound one list per pool texture with the other positions running through the pool under coprime strides; EVERY list is packed in EVERY layout of the container's family (movable sections in every order, 0/16-byte gaps, entries forward/reversed, shared/duplicated names, BCH with and without the extended header) and read back: count, order, names, dimensions, pixels = reference decoding of the texture's own payload; every list with 4 magic bytes x 5 corruptions + 8 foreign magics must give Err (BCH, CGFX, TPL); EVERY strict prefix of a schedule of files (each list once, each layout once) must not panic and must give Err while a payload is cut. A case is one file; non-trivial = it holds at least one texture",
        true,
        extras,
    );
    for m in machinery {
        o.machinery(m);
    }
    o.assumptions = vec![
        "texture sizes are powers of two >= 8 for the 3DS containers; TPL images any size; payloads have exactly the required size".into(),
        "pixels are judged with C19's tolerance (vcore::ref_pix)".into(),
        "ETC payloads of the main family use individual-mode blocks and differential blocks with deltas 0..=3 whose sums stay in 0..=31; negative deltas are exercised by the 6-file family 'etcneg' (the decoder defect they hit is decided under C19)".into(),
        "CGFX self-relative offsets: forward placements in both builds; backward placements (two's complement) only in the unchecked build and only as an observation — the statement does not settle whether they are conforming".into(),
        "a cut that removes only names, tables after the last payload, or a TPL palette leaves the outcome open (Ok or Err), it must not panic".into(),
        "BCH extended header for backward-compatibility bytes 0x21 and 0x23, short header for 0 and 7 (values between 21 and 32, where mila's `> 20` and the documented `> 0x20` disagree, are not used)".into(),
        "builders follow the field offsets of DESIGN Appendix A; a misreading shared by builder and parser would go unnoticed (DESIGN §2.6)".into(),
    ];
    o
}

fn replay(ctx: &Ctx, case: &Value) -> Vec<Violation> {
    util::install_quiet_panic_hook();
    let fam = case["family"].as_str().unwrap_or("").to_string();
    let idx = case["index"].as_u64().unwrap_or(0);
    if fam.starts_with("pfx-") {
        let args = vec!["--tier".to_string(), ctx.tier.name().to_string()];
        return match isolate::sweep(&ctx.exe, &args, 1, &[Family::single(fam.clone(), idx)], 1, Duration::from_secs(60)) {
            Err(_) => vec![],
            Ok(res) => {
                let mut v: Vec<Violation> = res.tally.violations;
                for f in res.fatals.iter().filter(|f| f.index == idx) {
                    let (sig, summary) = isolate::describe_fatal(&format!("prefix-{}", f.family.trim_start_matches("pfx-")), &f.status);
                    v.push(Violation { sig, summary, case: case.clone() });
                }
                v
            }
        };
    }
    let mut t = Tally::new();
    run_case(ctx.tier, &fam, idx, &mut t);
    t.violations
}

fn worker(ctx: &Ctx) {
    let tier = ctx.tier;
    isolate::sweep_worker(move |fam, idx, t| run_case(tier, fam, idx, t));
}

fn main() {
    vcore::run_main(PropDef {
        id: "C20",
        level: "model_checking",
        both_builds: BothBuilds::Always,
        explore,
        replay,
        worker: Some(worker),
    })
}
