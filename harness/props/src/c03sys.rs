//! C03 — allocate / deallocate / truncate relocate every annotation consistently.
//! Engine E1: explicit-state BFS over the real BinArchive (rebuilt by replaying the
//! history on a fresh object for every transition) with the content model in lock-step.

use mila::{BinArchive, BinArchiveWriter};
use crate::arch;
use serde_json::{json, Value};
use std::sync::Arc;
use vcore::bfs::{self, Step, System};
use vcore::driver::{Coverage, Ctx, Outcome, Tier, Violation};
use vcore::ref_bin::{Content, End};
use vcore::util;

/// Hooked twin only: `mila::verif_hooks::set_hash_overrides`, registered by the binary that is
/// linked against mila built with the verif-hooks feature; FORCE switches the forcing on.
pub static SET_OVERRIDES: std::sync::OnceLock<fn(Vec<(Vec<u8>, u64)>)> = std::sync::OnceLock::new();
pub static FORCE: std::sync::atomic::AtomicBool = std::sync::atomic::AtomicBool::new(false);
pub static FORCED_RUNS: std::sync::atomic::AtomicU64 = std::sync::atomic::AtomicU64::new(0);
/// Interleaving pass: every call of a history on the archive under test is preceded by a call on
/// a SECOND, unrelated live archive (state kept outside the object — a memo of the last
/// relocation, a scratch table at module scope — is consumed by the wrong object only then).
pub static DECOY: std::sync::atomic::AtomicBool = std::sync::atomic::AtomicBool::new(false);
pub static DECOY_STEPS: std::sync::atomic::AtomicU64 = std::sync::atomic::AtomicU64::new(0);

/// every second history runs next to a decoy that also holds a pointer whose target lies just
/// below usize::MAX (its first relocation fails or overflows)
fn decoy_new_for(hist_len: usize) -> Option<BinArchive> {
    let mut d = decoy_new();
    if hist_len % 2 == 1 {
        if let Some(a) = d.as_mut() {
            let _ = a.write_pointer(16, Some(usize::MAX - 1));
        }
    }
    d
}

fn decoy_new() -> Option<BinArchive> {
    let mut c = Content::new(End::Little);
    c.data = (0..24u8).map(|i| 0xA0 | i).collect();
    for a in [0usize, 12] {
        c.data[a..a + 4].copy_from_slice(&[0; 4]);
    }
    c.strings.insert(0, "decoy".into());
    c.pointers.insert(12, 20);
    c.labels.insert(8, vec!["DecoyA".into(), "DecoyB".into()]);
    c.labels.insert(24, vec!["DecoyEnd".into()]);
    arch::build(&c, None).ok()
}

/// the k-th call of a fixed cycle on the decoy archive (results ignored: only the archive under
/// test is judged)
fn decoy_step(d: &mut Option<BinArchive>, k: usize) {
    if d.is_none() {
        return;
    }
    DECOY_STEPS.fetch_add(1, std::sync::atomic::Ordering::Relaxed);
    // the decoy may be in a degenerate state (a pointer whose target lies near usize::MAX makes
    // the next relocation fail or overflow): whatever happens to IT is ignored, panics included
    let mut taken = d.take();
    let r = util::catch(move || {
        decoy_step_inner(&mut taken, k);
        taken
    });
    *d = match r {
        Ok(t) => t,
        Err(_) => decoy_new(),
    };
}

fn decoy_step_inner(d: &mut Option<BinArchive>, k: usize) {
    let Some(a) = d.as_mut() else { return };
    match k % 8 {
        0 => {
            let _ = a.allocate(4, 8, false);
        }
        1 => {
            let _ = a.write_c_string(4, "decoy-pool".into());
            let _ = a.write_label(4, "DecoyC");
        }
        2 => {
            let _ = a.serialize();
        }
        3 => {
            let _ = a.deallocate(4, 4, true);
        }
        4 => a.allocate_at_end(8),
        5 => {
            let n = a.size();
            let _ = a.truncate(n.saturating_sub(4));
        }
        6 => {
            let _ = a.deallocate(0, 4, false);
            let _ = a.write_string(0, Some("decoy2"));
        }
        _ => {
            if let Ok(b) = a.serialize() {
                let _ = BinArchive::from_bytes(&b, mila::Endian::Little);
            }
            *d = decoy_new();
        }
    }
}

fn set_overrides(v: Vec<(Vec<u8>, u64)>) {
    if let Some(f) = SET_OVERRIDES.get() {
        f(v);
    }
}

fn forced(r: usize) -> u64 {
    (r as u64) | (((r as u64) + 1) << 57)
}

/// Hash assignments that force, for each annotation map of the state BEFORE the call, every
/// iteration order of its keys (all t! for t ≤ 3; ascending, descending and the t rotations
/// for larger maps). Keys are the bytes the hasher is fed: native-endian usize / string + 0xFF.
pub fn assignments(m: &Content) -> Vec<Vec<(Vec<u8>, u64)>> {
    let ukey = |a: &usize| a.to_ne_bytes().to_vec();
    let skey = |s: &String| {
        let mut b = s.as_bytes().to_vec();
        b.push(0xFF);
        b
    };
    let mut pending: std::collections::BTreeSet<String> = std::collections::BTreeSet::new();
    for s in m.cstrings.values() {
        pending.insert(s.clone());
    }
    let maps: Vec<Vec<Vec<u8>>> = vec![m.strings.keys().map(ukey).collect(), m.pointers.keys().map(ukey).collect(), m.labels.keys().map(ukey).collect(), pending.iter().map(skey).collect()];
    let mut out: Vec<Vec<(Vec<u8>, u64)>> = Vec::new();
    for keys in &maps {
        let t = keys.len();
        if t < 2 {
            continue;
        }
        let perms: Vec<Vec<usize>> = if t <= 3 {
            util::permutations(t)
        } else {
            let mut v: Vec<Vec<usize>> = (0..t).map(|r| (0..t).map(|i| (i + r) % t).collect()).collect();
            v.push((0..t).rev().collect());
            v
        };
        for p in perms {
            out.push(keys.iter().enumerate().map(|(i, k)| (k.clone(), forced(p[i]))).collect());
        }
    }
    if out.is_empty() {
        out.push(vec![]);
    }
    out
}

#[derive(Clone, Debug, PartialEq, Eq, Hash, serde::Serialize, serde::Deserialize)]
pub enum Op {
    Allocate(usize, usize, bool),
    AllocateAtEnd(usize),
    Deallocate(usize, usize, bool),
    Truncate(usize),
    WriterAllocate(usize, usize, bool),
    /// `BinArchiveWriter::allocate_at_end` with the cursor at the given position
    WriterAllocateAtEnd(usize, usize),
    WriteString(usize, String),
    WritePointer(usize, usize),
    WriteCString(usize, String),
    WriteLabel(usize, String),
    DeleteString(usize),
    DeletePointer(usize),
    DeleteLabels(usize),
    DeleteLabel(usize, usize),
    /// serialize, then parse the image again and continue on the PARSED archive (pending c-strings
    /// become pool bytes + pointers; everything else must be the same archive)
    Reload,
}

impl Op {
    pub fn kind(&self) -> &'static str {
        match self {
            Op::Allocate(..) => "allocate",
            Op::AllocateAtEnd(..) => "allocate_at_end",
            Op::Deallocate(..) => "deallocate",
            Op::Truncate(..) => "truncate",
            Op::WriterAllocate(..) => "writer.allocate",
            Op::WriterAllocateAtEnd(..) => "writer.allocate_at_end",
            Op::WriteString(..) => "write_string",
            Op::WritePointer(..) => "write_pointer",
            Op::WriteCString(..) => "write_c_string",
            Op::WriteLabel(..) => "write_label",
            Op::DeleteString(..) => "delete_string",
            Op::DeletePointer(..) => "delete_pointer",
            Op::DeleteLabels(..) => "delete_labels",
            Op::DeleteLabel(..) => "delete_label",
            Op::Reload => "reload",
        }
    }
    pub fn is_relocation(&self) -> bool {
        matches!(self, Op::Allocate(..) | Op::AllocateAtEnd(..) | Op::Deallocate(..) | Op::Truncate(..) | Op::WriterAllocate(..) | Op::WriterAllocateAtEnd(..))
    }
}

thread_local! {
    static RELOAD_ENDIAN: std::cell::Cell<bool> = std::cell::Cell::new(false);
}
fn reload_endian(_a: &BinArchive) -> mila::Endian {
    if RELOAD_ENDIAN.with(|c| c.get()) {
        mila::Endian::Big
    } else {
        mila::Endian::Little
    }
}

pub fn apply_real(a: &mut BinArchive, op: &Op) -> Result<(), String> {
    let r = match op {
        Op::Allocate(x, n, ge) => a.allocate(*x, *n, *ge),
        Op::AllocateAtEnd(n) => {
            a.allocate_at_end(*n);
            Ok(())
        }
        Op::Deallocate(x, n, ge) => a.deallocate(*x, *n, *ge),
        Op::Truncate(x) => a.truncate(*x),
        Op::WriterAllocate(pos, n, ge) => BinArchiveWriter::new(a, *pos).allocate(*n, *ge),
        Op::WriterAllocateAtEnd(pos, n) => {
            let before = a.size();
            let mut w = BinArchiveWriter::new(a, *pos);
            if w.size() != before || w.length() != before {
                return Err(format!("writer.size() = {} / length() = {} on an archive of {} bytes", w.size(), w.length(), before));
            }
            w.allocate_at_end(*n);
            if w.tell() != *pos || w.size() != before + n {
                return Err(format!("writer.allocate_at_end({}) left the cursor at {} (was {}) and size() = {} (archive was {})", n, w.tell(), pos, w.size(), before));
            }
            Ok(())
        }
        Op::WriteString(x, s) => a.write_string(*x, Some(s)),
        Op::WritePointer(x, t) => a.write_pointer(*x, Some(*t)),
        Op::WriteCString(x, s) => a.write_c_string(*x, s.clone()),
        Op::WriteLabel(x, s) => a.write_label(*x, s),
        Op::DeleteString(x) => a.delete_string(*x),
        Op::DeletePointer(x) => a.delete_pointer(*x),
        Op::DeleteLabels(x) => a.delete_labels(*x),
        Op::DeleteLabel(x, i) => a.delete_label(*x, *i),
        Op::Reload => {
            let e = match a.serialize().and_then(|b| BinArchive::from_bytes(&b, reload_endian(a))) {
                Ok(n) => {
                    *a = n;
                    return Ok(());
                }
                Err(e) => e,
            };
            Err(e)
        }
    };
    r.map_err(|e| e.to_string())
}

pub enum Expect {
    Accept,
    Reject,
    /// the statement leaves the outcome open; if accepted the model (already updated) applies
    Either,
}

/// Apply `op` to the model; on Reject the model is left unchanged.
pub fn apply_model(m: &mut Content, op: &Op) -> Expect {
    let size = m.size();
    let ok = |r: Result<(), ()>| if r.is_ok() { Expect::Accept } else { Expect::Reject };
    match op {
        Op::Allocate(a, n, ge) => ok(m.allocate(*a, *n, *ge)),
        Op::AllocateAtEnd(n) => {
            m.allocate_at_end(*n);
            Expect::Accept
        }
        Op::Deallocate(a, n, ge) => {
            if *a == size && *n == 0 {
                return Expect::Either; // a no-op either way
            }
            ok(m.deallocate(*a, *n, *ge))
        }
        Op::Truncate(a) => {
            m.truncate(*a);
            Expect::Accept
        }
        Op::Reload => {
            *m = vcore::ref_bin::materialise_cstrings(m);
            Expect::Accept
        }
        Op::WriterAllocateAtEnd(_, n) => {
            m.allocate_at_end(*n);
            Expect::Accept
        }
        Op::WriterAllocate(pos, n, ge) => {
            if *pos == size {
                m.allocate_at_end(*n); // appending at the end is always accepted
                Expect::Accept
            } else {
                ok(m.allocate(*pos, *n, *ge))
            }
        }
        Op::WriteString(a, s) => ok(m.write_string(*a, Some(s))),
        Op::WritePointer(a, t) => ok(m.write_pointer(*a, Some(*t))),
        Op::WriteCString(a, s) => ok(m.write_c_string(*a, s)),
        Op::WriteLabel(a, s) => ok(m.write_label(*a, s)),
        Op::DeleteString(a) => ok(m.write_string(*a, None)),
        Op::DeletePointer(a) => ok(m.write_pointer(*a, None)),
        Op::DeleteLabels(a) => {
            // label accessors on the last three addresses / the end address: outcome open
            if *a <= size && *a + 4 > size {
                let _ = m.labels.remove(a);
                return Expect::Either;
            }
            ok(m.delete_labels(*a))
        }
        Op::DeleteLabel(a, i) => {
            if *a <= size && *a + 4 > size {
                if let Some(b) = m.labels.get_mut(a) {
                    if *i < b.len() {
                        b.remove(*i);
                    }
                }
                return Expect::Either;
            }
            ok(m.delete_label(*a, *i))
        }
    }
}

#[derive(Clone)]
pub struct St {
    pub init: usize,
    pub model: Content,
}

pub struct Sys {
    pub inits: Vec<Content>,
    pub s_max: usize,
    pub full_depth: usize,
    /// hooked twin: run every transition under every forced iteration order of each annotation map
    pub force_orders: bool,
}

pub fn normalised(c: &Content) -> Content {
    let mut c = c.clone();
    c.labels.retain(|_, v| !v.is_empty());
    c
}

impl Sys {
    pub fn rebuild(&self, init: usize, hist: &[Op]) -> Result<BinArchive, String> {
        self.rebuild_with_decoy(init, hist).map(|x| x.0)
    }

    pub fn rebuild_with_decoy(&self, init: usize, hist: &[Op]) -> Result<(BinArchive, Option<BinArchive>), String> {
        let mut a = arch::build(&self.inits[init], None)?;
        let mut decoy = if DECOY.load(std::sync::atomic::Ordering::Relaxed) { decoy_new_for(hist.len()) } else { None };
        for (k, op) in hist.iter().enumerate() {
            decoy_step(&mut decoy, k);
            let _ = apply_real(&mut a, op);
        }
        // the call the caller is about to make is preceded by a decoy call as well
        decoy_step(&mut decoy, hist.len());
        Ok((a, decoy))
    }

    /// One transition on the real object + model; returns Err((sig, summary)) on divergence.
    pub fn transition(&self, s: &St, hist: &[Op], op: &Op) -> Result<(St, u64), (String, String, u64)> {
        self.transition_forced(s, hist, op, &[])
    }

    /// The same under a forced hash assignment (hooked twin): the overrides are active from the
    /// rebuild to the last observation, so every key hashes consistently for the life of its map.
    pub fn transition_forced(&self, s: &St, hist: &[Op], op: &Op, asg: &[(Vec<u8>, u64)]) -> Result<(St, u64), (String, String, u64)> {
        let mut w = 0u64;
        let mut model = s.model.clone();
        let before_model = s.model.clone();
        let expect = apply_model(&mut model, op);
        // witnesses (computed on the model before/after)
        match op {
            Op::Deallocate(a, n, _) if matches!(expect, Expect::Accept) => {
                if before_model.pointers.iter().any(|(k, t)| !(*k >= *a && *k < a + n) && *t >= *a && *t < a + n) {
                    w |= 1; // pointer dropped because its target was removed
                }
            }
            Op::Allocate(a, n, ge) if matches!(expect, Expect::Accept) && *n > 0 => {
                if before_model.labels.contains_key(a) {
                    w |= if *ge { 2 } else { 4 };
                }
                if before_model.cstrings.keys().any(|k| k >= a) {
                    w |= 8;
                }
            }
            Op::Truncate(a) => {
                if before_model.labels.contains_key(a) && *a < before_model.size() {
                    w |= 16;
                }
            }
            _ => {}
        }
        let kind = op.kind();
        if !asg.is_empty() {
            set_overrides(asg.to_vec());
            FORCED_RUNS.fetch_add(1, std::sync::atomic::Ordering::Relaxed);
        }
        let real = util::catch(|| -> Result<(Result<(), String>, arch::Obs, Result<Vec<u8>, String>), String> {
            RELOAD_ENDIAN.with(|c| c.set(s.model.endian == End::Big));
            let (mut a, decoy) = self.rebuild_with_decoy(s.init, hist)?;
            let r = apply_real(&mut a, op);
            if let Some(d) = &decoy {
                // the second archive is read between the call and the observations
                let _ = arch::observe(d);
                let _ = d.serialize();
            }
            let o = arch::observe(&a);
            let img = a.serialize().map_err(|e| e.to_string());
            Ok((r, o, img))
        });
        if !asg.is_empty() {
            set_overrides(vec![]);
        }
        let (r, obs, img) = match real {
            Err(p) => return Err((format!("panic@{}:{}", p.location, kind), format!("{:?} panicked: {}", op, p.message), w)),
            Ok(Err(e)) => return Err((format!("machinery:rebuild:{}", kind), e, w)),
            Ok(Ok(x)) => x,
        };
        let accepted = r.is_ok();
        let mut model_after = match (&expect, accepted) {
            (Expect::Accept, true) | (Expect::Either, true) => model,
            (Expect::Reject, false) => {
                w |= 32;
                before_model.clone()
            }
            (Expect::Either, false) => before_model.clone(),
            (Expect::Accept, false) => {
                return Err((format!("{}:rejected", kind), format!("{:?} was rejected ({}) but the request is valid", op, r.unwrap_err()), w));
            }
            (Expect::Reject, true) => {
                return Err((format!("{}:accepted-invalid", kind), format!("{:?} was accepted but must be rejected (misaligned or out of range)", op), w));
            }
        };
        if matches!(op, Op::Reload) && accepted {
            // the parsed archive must be the content before the call with its pending c-strings
            // materialised — in WHICH order the pool holds them is the library's business
            let dm = vcore::ref_bin::diff_materialised(&obs.bytes, &obs.strings, &obs.pointers, &normalised(&before_model));
            if !dm.is_empty() {
                return Err((format!("{}:{}", kind, dm[0].split_whitespace().next().unwrap_or("?")), format!("after {:?}: {}", op, dm.join("; ")), w));
            }
            // the pool layout, and the raw bytes under annotated cells (pointer values, text
            // offsets: whatever the file holds there), are taken over from the observation; from
            // here on they belong to the content and must move with their cell
            model_after.data = obs.bytes.clone();
            model_after.pointers = obs.pointers.clone();
        }
        let d = arch::diff_obs(&obs, &normalised(&model_after));
        if !d.is_empty() {
            let field = d[0].split_whitespace().next().unwrap_or("?").to_string();
            let what = if accepted { "after" } else { "although rejected, archive changed by" };
            return Err((format!("{}:{}{}", kind, if accepted { "" } else { "changed-on-reject:" }, field), format!("{} {:?}: {}", what, op, d.join("; ")), w));
        }
        // serialized image: pending c-strings and everything else must survive a re-parse
        let nm = normalised(&model_after);
        if nm.in_roundtrip_domain() {
            match img {
                Err(e) => return Err((format!("{}:serialize-err", kind), format!("after {:?} the archive no longer serializes: {}", op, e), w)),
                Ok(bytes) => {
                    let back = util::catch(|| BinArchive::from_bytes(&bytes, arch::endian(nm.endian)).map(|a| arch::observe(&a)).map_err(|e| e.to_string()));
                    match back {
                        Err(p) => return Err((format!("panic@{}:{}", p.location, kind), format!("re-parse after {:?} panicked: {}", op, p.message), w)),
                        Ok(Err(e)) => return Err((format!("{}:reparse-err", kind), format!("after {:?} the serialized image no longer parses: {}", op, e), w)),
                        Ok(Ok(o2)) => {
                            let d = arch::diff_reparsed(&o2, &nm);
                            if !d.is_empty() {
                                let field = if d[0].contains("c-string") || !nm.cstrings.is_empty() && d[0].contains("pointers") { "cstrings" } else { d[0].split_whitespace().next().unwrap_or("?") };
                                return Err((format!("{}:image:{}", kind, field), format!("after {:?} the serialized image re-parses differently: {}", op, d.join("; ")), w));
                            }
                            // differential oracle: the same content built from scratch serializes identically
                            let fresh = util::catch(|| arch::build(&nm, None).and_then(|a| a.serialize().map_err(|e| e.to_string())));
                            if let Ok(Ok(fb)) = fresh {
                                if fb != bytes && vcore::ref_bin::be_order_is_determined(&nm) {
                                    return Err((format!("{}:rebuild-differs", kind), format!("after {:?} the image differs from the image of the same content built from scratch", op), w));
                                }
                            }
                        }
                    }
                }
            }
        }
        Ok((St { init: s.init, model: model_after }, w))
    }
}

impl System for Sys {
    type State = (St, Arc<Vec<Op>>);
    type Key = (usize, Content);
    type Action = Op;

    fn init(&self) -> Vec<Self::State> {
        (0..self.inits.len()).map(|i| (St { init: i, model: self.inits[i].clone() }, Arc::new(vec![]))).collect()
    }
    fn key(&self, s: &Self::State) -> Self::Key {
        // the endianness is part of Content; init index only matters through it
        (0, normalised(&s.0.model))
    }
    fn within(&self, s: &Self::State) -> bool {
        s.0.model.size() <= self.s_max
    }
    fn actions(&self, s: &Self::State) -> Vec<Op> {
        let m = &s.0.model;
        let size = m.size();
        let depth = s.1.len();
        let mut v = Vec::new();
        let cells: Vec<usize> = (0..size / 4).map(|c| c * 4).collect();
        // relocation ops
        let mut alloc_addrs: Vec<usize> = (0..=size / 4).map(|c| c * 4).collect();
        alloc_addrs.push(2);
        alloc_addrs.push(size + 4);
        if size % 4 != 0 {
            alloc_addrs.push(size);
        }
        for &a in &alloc_addrs {
            for n in [4usize, 8, 0, 2] {
                for ge in [false, true] {
                    v.push(Op::Allocate(a, n, ge));
                }
            }
        }
        v.push(Op::AllocateAtEnd(1));
        v.push(Op::AllocateAtEnd(4));
        let mut dealloc_addrs = cells.clone();
        dealloc_addrs.push(2);
        dealloc_addrs.push(size);
        for &a in &dealloc_addrs {
            let mut ns = vec![0usize, 4, 8, 2, (size + 4).saturating_sub(a), usize::MAX - 3];
            ns.dedup();
            for n in ns {
                for ge in [false, true] {
                    v.push(Op::Deallocate(a, n, ge));
                }
            }
        }
        for a in (0..=size / 4 + 1).map(|c| c * 4) {
            v.push(Op::Truncate(a));
        }
        for pos in [0usize, 4, size, size + 4, size + 1] {
            for ge in [false, true] {
                v.push(Op::WriterAllocate(pos, 4, ge));
            }
        }
        if m.in_roundtrip_domain() {
            v.push(Op::Reload);
        }
        v.push(Op::WriterAllocate(size, 2, false));
        v.push(Op::WriterAllocateAtEnd(0, 4));
        v.push(Op::WriterAllocateAtEnd(size, 3));
        v.push(Op::WriterAllocate(size + 4, 2, true));
        if depth >= self.full_depth {
            return v;
        }
        // annotation writes / deletes (kept inside the one-annotation-per-cell domain)
        for &a in &cells {
            let has_s = m.strings.contains_key(&a);
            let has_p = m.pointers.contains_key(&a);
            let has_c = m.cstrings.contains_key(&a);
            if !has_p && !has_c {
                v.push(Op::WriteString(a, "x".into()));
            }
            if !has_s && !has_c {
                // aligned and UNALIGNED targets (a target 1..3 bytes behind an insertion address moves too)
                for t in [0usize, a, size, a + 1, (a + 6).min(size)] {
                    v.push(Op::WritePointer(a, t));
                }
            }
            if !has_s && !has_p && !has_c {
                v.push(Op::WriteCString(a, "c".into()));
            }
            v.push(Op::WriteLabel(a, "L".into()));
            v.push(Op::DeleteString(a));
            v.push(Op::DeletePointer(a));
            v.push(Op::DeleteLabels(a));
            v.push(Op::DeleteLabel(a, 0));
        }
        v.push(Op::WriteLabel(size, "E".into()));
        v.push(Op::WriteLabel(size + 1, "out".into()));
        v.push(Op::WriteString(size, "out".into()));
        v.push(Op::DeleteLabels(size));
        v.dedup();
        v
    }
    fn step(&self, s: &Self::State, history: &[Op], a: &Op) -> Step<Self::State> {
        if self.force_orders && a.is_relocation() {
            // every forced iteration order must give the model's result
            let mut last = None;
            for asg in assignments(&s.0.model) {
                match self.transition_forced(&s.0, history, a, &asg) {
                    Ok(x) => last = Some(x),
                    Err((sig, summary, w)) => {
                        let keys: Vec<String> = asg.iter().map(|(k, v)| format!("{}→{}", util::hex(k), v & 0xFF)).collect();
                        return Step::Violation { sig: format!("forced-order:{}", sig), summary: format!("under the forced hash order [{}]: {}", keys.join(", "), summary), witnesses: w };
                    }
                }
            }
            return match last {
                Some((st, w)) => {
                    let mut h = (*s.1).clone();
                    h.push(a.clone());
                    Step::Next { state: (st, Arc::new(h)), witnesses: w }
                }
                None => Step::Skip,
            };
        }
        match self.transition(&s.0, history, a) {
            Ok((st, w)) => {
                let mut h = (*s.1).clone();
                h.push(a.clone());
                Step::Next { state: (st, Arc::new(h)), witnesses: w }
            }
            Err((sig, summary, w)) => Step::Violation { sig, summary, witnesses: w },
        }
    }
    fn witness_names(&self) -> Vec<&'static str> {
        vec![
            "deallocate drops a pointer whose target was removed",
            "allocate(ge=true) on a labelled address (label moves)",
            "allocate(ge=false) on a labelled address (label stays)",
            "allocate shifts a pending c-string cell",
            "truncate removes a label on the cut",
            "invalid request rejected, archive unchanged",
        ]
    }
}

pub fn init_states(tier: Tier) -> Vec<Content> {
    let mut v = Vec::new();
    let mk = |e: End| -> Vec<Content> {
        let mut i1 = Content::new(e);
        i1.data = vec![0xA1, 0xA2, 0xA3, 0xA4, 0xB1, 0xB2, 0xB3, 0xB4];
        i1.strings.insert(0, "s".into());
        i1.pointers.insert(4, 0);
        i1.labels.insert(0, vec!["A".into()]);
        i1.labels.insert(4, vec!["B".into()]);
        i1.labels.insert(8, vec!["E".into()]);
        let mut i2 = Content::new(e);
        i2.data = vec![0, 0, 0, 0, 0, 0, 0, 0, 0x11, 0x22, 0x33, 0x44];
        i2.pointers.insert(0, 12);
        i2.cstrings.insert(4, "c".into());
        i2.labels.insert(4, vec!["X".into(), "Y".into()]);
        i2.labels.insert(8, vec!["Z".into()]);
        vec![i1, i2]
    };
    v.push(Content::new(End::Little));
    v.extend(mk(End::Little));
    let mut i3 = Content::new(End::Little);
    i3.data = vec![1, 2, 3, 4, 5, 6];
    i3.strings.insert(0, "t".into());
    i3.labels.insert(5, vec!["U".into()]);
    i3.labels.insert(6, vec!["V".into()]);
    v.push(i3);
    let _ = tier;
    v.extend(mk(End::Big));
    v
}

pub fn bounds(tier: Tier) -> (usize, usize, usize) {
    // (max depth, depth below which the full alphabet is used, S_max)
    match tier {
        Tier::Quick => (4, 3, 16),
        Tier::Thorough => (5, 3, 20),
    }
}

pub fn op_json(h: &[Op]) -> Value {
    serde_json::to_value(h).unwrap()
}

/// One scripted history on a 70 000-byte archive whose annotations sit beyond address 65 535
/// (relocation arithmetic in a narrower integer would show here and nowhere else).
pub fn large_script(o: &mut Outcome) -> (u64, Value) {
    let mut c = Content::new(End::Little);
    c.data = (0..70_000usize).map(|i| (i as u8).wrapping_mul(13).wrapping_add(1)).collect();
    c.strings.insert(65_536, "far".into());
    c.pointers.insert(65_540, 65_548);
    c.cstrings.insert(65_544, "pool".into());
    c.pointers.insert(4, 69_996);
    c.labels.insert(65_536, vec!["A".into(), "B".into()]);
    c.labels.insert(65_552, vec!["C".into()]);
    c.labels.insert(70_000, vec!["End".into()]);
    let script = vec![
        Op::Allocate(0, 4, false),
        Op::Allocate(65_540, 8, true),
        Op::Deallocate(256, 256, false),
        Op::Allocate(65_292, 4, false),
        Op::Deallocate(65_296, 4, true),
        Op::WriterAllocate(69_760, 4, true),
        Op::AllocateAtEnd(4),
        Op::Deallocate(69_700, 64, false),
        Op::Truncate(65_800),
        Op::Truncate(65_288),
    ];
    let sys = Sys { force_orders: FORCE.load(std::sync::atomic::Ordering::Relaxed), inits: vec![c.clone()], s_max: usize::MAX, full_depth: 0 };
    let mut st = St { init: 0, model: c };
    let mut done = 0u64;
    for k in 0..script.len() {
        match sys.transition(&st, &script[..k], &script[k]) {
            Ok((n, _)) => {
                st = n;
                done += 1;
            }
            Err((sig, summary, _)) => {
                o.violate(format!("large:{}", sig), format!("[70 000-byte archive, step {}] {}", k, summary.chars().take(600).collect::<String>()), json!({"large_script_step": k}));
                break;
            }
        }
    }
    (done, serde_json::to_value(&script).unwrap())
}

/// Medium archives: a table of `n` pointer cells at the front pointing at records behind it,
/// records carrying strings, a pending c-string, labels (two on one address) and a pointer
/// back into the table. Thresholds that depend on the NUMBER of annotations (a fast path for
/// "fewer than len/8 moved", a sort that changes algorithm above 20 elements, ...) show here.
pub fn medium_init(n: usize, e: End) -> Content {
    let recs = 6usize;
    let cells = n + recs * 2;
    let mut c = Content::new(e);
    c.data = (0..cells * 4).map(|i| (i as u8).wrapping_mul(7).wrapping_add(3)).collect();
    let rec_base = n * 4;
    for i in 0..n {
        c.data[4 * i..4 * i + 4].copy_from_slice(&[0; 4]);
        // targets spread over the records, the end address included
        // every fourth target is unaligned (1..3 bytes into a cell)
        let t = rec_base + ((i * 8) % (recs * 8 + 4));
        c.pointers.insert(4 * i, if i % 4 == 3 { (t + 1 + i % 3).min(cells * 4) } else { t });
    }
    for r in 0..recs {
        let a = rec_base + r * 8;
        c.data[a..a + 4].copy_from_slice(&[0; 4]);
        match r % 3 {
            0 => {
                c.strings.insert(a, format!("rec{}", r % 2));
            }
            1 => {
                c.cstrings.insert(a, format!("pool{}", r));
            }
            _ => {
                c.pointers.insert(a, 4 * (r % n.max(1)));
            }
        }
        c.labels.insert(a, if r == 2 { vec!["R2".into(), "R2b".into()] } else { vec![format!("R{}", r)] });
    }
    c.labels.insert(cells * 4, vec!["End".into()]);
    c
}

/// depth-bounded search over the relocation operations at EVERY cell of the medium archives
pub fn medium_search(tier: Tier, o: &mut Outcome, cov: &mut Coverage) {
    let mut per = Vec::new();
    let plan: Vec<(usize, End, usize)> = match tier {
        Tier::Quick => vec![(7, End::Little, 1), (8, End::Little, 2), (9, End::Big, 1), (21, End::Little, 1), (33, End::Big, 1), (65, End::Little, 1), (130, End::Little, 1)],
        Tier::Thorough => vec![(7, End::Little, 2), (8, End::Little, 2), (9, End::Big, 2), (16, End::Big, 2), (21, End::Little, 2), (33, End::Big, 2), (65, End::Little, 1), (130, End::Little, 1), (257, End::Big, 1)],
    };
    for (n, e, depth) in plan {
        let init = medium_init(n, e);
        let size = init.size();
        let sys = Sys { force_orders: FORCE.load(std::sync::atomic::Ordering::Relaxed), inits: vec![init], s_max: size + 16, full_depth: 0 };
        let rep = bfs::explore(&sys, Some(depth), Some(3_000_000));
        cov.states += rep.states;
        cov.transitions += rep.transitions;
        cov.traces_validated_against_impl += rep.transitions;
        cov.evaluations += rep.transitions;
        per.push(json!({"pointer_table_cells": n, "endian": format!("{:?}", e), "bytes": size, "depth": depth, "states": rep.states, "transitions": rep.transitions}));
        for v in rep.violations {
            o.violate(format!("medium:{}", v.sig), format!("[{} pointer cells + 6 records, {:?}] {}", n, e, v.summary.chars().take(700).collect::<String>()), json!({"medium": n, "endian": format!("{:?}", e), "history": op_json(&v.history)}));
        }
    }
    cov.extra.insert("medium_archives".into(), json!(per));
}

/// Scripted histories on archives with THOUSANDS of annotations (a relocation that switches to
/// another algorithm above some table size shows only here): n string cells over three distinct
/// strings, a pointer and a label on every 7th / 5th cell, then removals and insertions at the
/// start, in the middle, right behind another annotation and at the end.
pub fn many_annotations_script(o: &mut Outcome) -> u64 {
    let mut done = 0u64;
    for (n, e) in [(1_499usize, End::Little), (1_500, End::Big), (1_501, End::Little), (2_048, End::Little), (5_000, End::Big)] {
        let mut c = Content::new(e);
        c.data = vec![0u8; 4 * n];
        for i in 0..n {
            let a = 4 * i;
            if i % 7 == 3 {
                c.pointers.insert(a, (a * 3 + 1) % (4 * n + 1));
            } else {
                c.strings.insert(a, ["alpha", "beta", "日本"][i % 3].to_string());
            }
            if i % 5 == 0 {
                c.labels.insert(a, vec![format!("L{}", i)]);
            }
        }
        c.labels.insert(4 * n, vec!["End".into()]);
        let mid = 4 * (n / 2);
        let script = vec![Op::Deallocate(mid, 8, false), Op::Deallocate(mid, 0, false), Op::Deallocate(0, 4, true), Op::Allocate(mid - 4, 8, false), Op::Allocate(4, 4, true), Op::Deallocate(4 * n - 8, 4, false), Op::Truncate(mid + 40), Op::AllocateAtEnd(4), Op::Deallocate(mid, 4, true)];
        let sys = Sys { force_orders: false, inits: vec![c.clone()], s_max: usize::MAX, full_depth: 0 };
        let mut st = St { init: 0, model: c };
        for k in 0..script.len() {
            match sys.transition(&st, &script[..k], &script[k]) {
                Ok((nx, _)) => {
                    st = nx;
                    done += 1;
                }
                Err((sig, summary, _)) => {
                    o.violate(format!("many:{}", sig), format!("[{} annotated cells, {:?}, step {}] {}", n, e, k, summary.chars().take(600).collect::<String>()), json!({"many_annotations": n, "endian": format!("{:?}", e), "step": k}));
                    break;
                }
            }
        }
    }
    done
}

pub fn explore(ctx: &Ctx) -> Outcome {
    let hooked = FORCE.load(std::sync::atomic::Ordering::Relaxed);
    let (max_depth, full_depth, s_max) = bounds(ctx.tier);
    // the hooked twin multiplies every relocation transition by the number of forced orders:
    // one level less
    let (max_depth, full_depth) = if hooked { (max_depth - 1, full_depth - 1) } else { (max_depth, full_depth) };
    let sys = Sys { force_orders: FORCE.load(std::sync::atomic::Ordering::Relaxed), inits: init_states(ctx.tier), s_max, full_depth };
    // engine-internal memory cap: stop expanding once this many distinct states are stored
    let rep = bfs::explore(&sys, Some(max_depth), Some(ctx.tier.pick(2_000_000, 6_000_000)));
    // determinism self-check at a small bound: same counts twice
    let a = bfs::explore(&sys, Some(2), None);
    let b = bfs::explore(&sys, Some(2), None);
    let mut o = Outcome::default();
    if a.states != b.states || a.transitions != b.transitions {
        o.machinery(format!("determinism self-check failed: {} / {} states, {} / {} transitions", a.states, b.states, a.transitions, b.transitions));
    }
    let mut cov = Coverage::default();
    cov.states = rep.states;
    cov.transitions = rep.transitions;
    cov.traces_validated_against_impl = rep.transitions;
    cov.evaluations = rep.transitions;
    cov.distinct_nontrivial = rep.states;
    cov.exhaustive = (rep.depth_completed >= max_depth || rep.fixpoint) && rep.unexpanded_due_to_cap == 0;
    cov.rule = "explicit-state BFS: node = content of the archive (bytes, strings, pointers, pending c-strings, labels), transition = one real API call on a BinArchive rebuilt by replaying the shortest history; oracle = content model in lock-step (acceptance, every observable, re-parse of the serialized image, image equal to the image of the same content built from scratch); distinct_nontrivial = distinct states reached".into();
    cov.samples = rep.sample_histories.iter().map(|h| json!({"history": op_json(h)})).collect();
    if cov.samples.is_empty() {
        cov.samples.push(json!({"history": []}));
    }
    cov.extra.insert("depth_completed".into(), json!(rep.depth_completed));
    cov.extra.insert("frontier_states_unexpanded_due_to_state_cap".into(), json!(rep.unexpanded_due_to_cap));
    cov.extra.insert("full_alphabet_below_depth".into(), json!(full_depth));
    cov.extra.insert("s_max".into(), json!(s_max));
    cov.extra.insert("init_states".into(), json!(sys.inits.len()));
    cov.extra.insert("states_per_depth".into(), json!(rep.states_per_depth));
    cov.extra.insert("boundary_states_not_expanded".into(), json!(rep.boundary_states));
    cov.extra.insert("fixpoint".into(), json!(rep.fixpoint));
    cov.extra.insert("witnesses".into(), json!(rep.witness_counts));
    for (name, n) in &rep.witness_counts {
        if *n == 0 && rep.violations.is_empty() {
            o.warn(format!("witness never reached: {}", name));
        }
    }
    if !hooked {
        medium_search(ctx.tier, &mut o, &mut cov);
    }
    if !hooked {
        // interleaving pass: the same search, one level less, with a call on a second live
        // archive before every call of every history
        DECOY.store(true, std::sync::atomic::Ordering::Relaxed);
        // (quick tier: the slower checked build takes this pass one level less again)
        let decoy_depth = if ctx.is_checked() && ctx.tier == Tier::Quick { max_depth - 2 } else { max_depth - 1 };
        let d = bfs::explore(&sys, Some(decoy_depth), Some(2_000_000));
        DECOY.store(false, std::sync::atomic::Ordering::Relaxed);
        cov.states += d.states;
        cov.transitions += d.transitions;
        cov.traces_validated_against_impl += d.transitions;
        cov.evaluations += d.transitions;
        cov.extra.insert("interleaved_second_archive".into(), json!({"depth": decoy_depth, "states": d.states, "transitions": d.transitions, "decoy_calls": DECOY_STEPS.load(std::sync::atomic::Ordering::Relaxed)}));
        for v in d.violations {
            o.violate(format!("interleaved:{}", v.sig), format!("[a call on a second archive before every call] {}", v.summary), json!({"interleaved": true, "history": op_json(&v.history)}));
        }
    }
    let (steps, script) = if hooked { (0, json!([])) } else { large_script(&mut o) };
    if !hooked {
        let n = many_annotations_script(&mut o);
        cov.transitions += n;
        cov.traces_validated_against_impl += n;
        cov.extra.insert("many_annotations_script".into(), json!({"archives": [1499, 1500, 1501, 2048, 5000], "steps_conforming": n}));
    }
    if hooked {
        cov.extra.insert("forced_hash_order_runs".into(), json!(FORCED_RUNS.load(std::sync::atomic::Ordering::Relaxed)));
        cov.extra.insert("hash_iteration_order".into(), json!("owned: every relocation transition is executed under every forced iteration order of each annotation map of the pre-state (all t! for t ≤ 3; ascending, descending and all rotations above), overrides active from the rebuild to the last observation"));
    }
    cov.transitions += steps;
    cov.traces_validated_against_impl += steps;
    cov.extra.insert("large_archive_script".into(), json!({"bytes": 70000, "steps_conforming": steps, "script": script}));
    o.coverage = cov;
    for v in rep.violations {
        let init = 0; // histories start from the init state recorded in the case
        let _ = init;
        o.violate(v.sig, v.summary, json!({"history": op_json(&v.history)}));
    }
    o.assumptions = vec![
        "histories start from 6 initial archives (empty; string+pointer+labels incl. the end address; pointer to end + c-string + two labels on one address; unaligned tail with labels on 5 and 6; two of them also big-endian)".into(),
        "annotation writes stay inside the one-annotation-per-cell domain; truncate only at cell boundaries; deallocate(size, 0) and label deletes on the last three addresses may be accepted or rejected".into(),
        "archives larger than S_max are counted but not expanded".into(),
    ];
    o
}

pub fn replay(ctx: &Ctx, case: &Value) -> Vec<Violation> {
    if case.get("many_annotations").is_some() {
        let mut o = Outcome::default();
        many_annotations_script(&mut o);
        return o.violations.into_iter().filter(|v| v.case == *case).collect();
    }
    if case.get("large_script_step").is_some() {
        let mut o = Outcome::default();
        large_script(&mut o);
        return o.violations;
    }
    let hist: Vec<Op> = serde_json::from_value(case["history"].clone()).unwrap_or_default();
    if hist.is_empty() {
        return vec![];
    }
    if case["interleaved"] == true {
        DECOY.store(true, std::sync::atomic::Ordering::Relaxed);
        let mut c = case.clone();
        c.as_object_mut().unwrap().remove("interleaved");
        let mut out = replay(ctx, &c);
        DECOY.store(false, std::sync::atomic::Ordering::Relaxed);
        for v in out.iter_mut() {
            v.sig = format!("interleaved:{}", v.sig);
            v.case = case.clone();
        }
        return out;
    }
    if let Some(n) = case["medium"].as_u64() {
        let e = if case["endian"] == "Big" { End::Big } else { End::Little };
        let init = medium_init(n as usize, e);
        let sys = Sys { force_orders: FORCE.load(std::sync::atomic::Ordering::Relaxed), s_max: init.size() + 16, inits: vec![init.clone()], full_depth: 0 };
        let mut st = St { init: 0, model: init };
        for k in 0..hist.len() {
            match sys.transition(&st, &hist[..k], &hist[k]) {
                Ok((nx, _)) => st = nx,
                Err((sig, summary, _)) => return vec![Violation { sig: format!("medium:{}", sig), summary, case: case.clone() }],
            }
        }
        return vec![];
    }
    let (_, full_depth, s_max) = bounds(ctx.tier);
    let sys = Sys { force_orders: FORCE.load(std::sync::atomic::Ordering::Relaxed), inits: init_states(ctx.tier), s_max, full_depth };
    // the history does not record its init state: try each
    let mut out = Vec::new();
    'init: for i in 0..sys.inits.len() {
        let mut st = St { init: i, model: sys.inits[i].clone() };
        for k in 0..hist.len() {
            match sys.transition(&st, &hist[..k], &hist[k]) {
                Ok((n, _)) => st = n,
                Err((sig, summary, _)) => {
                    if k == hist.len() - 1 {
                        out.push(Violation { sig, summary: format!("[init {}] {}", i, summary), case: case.clone() });
                    }
                    continue 'init;
                }
            }
        }
    }
    out
}

