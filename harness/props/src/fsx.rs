//! Shared exploration for C12 (top layer wins, writes stay on top, read-after-write) and
//! C13 (listings are the sorted, de-duplicated union of layers). Engine E1: explicit-state
//! BFS over REAL directories: a state is the logical content of the top layer, every
//! transition materialises all layers into a fresh scratch directory, builds a real
//! LayeredFilesystem, applies one call and snapshots the result; observers run once per
//! distinct state.

use crate::{arch, glue};
use mila::{BinArchive, Game, Language, LayeredFilesystem, TextArchive};
use rayon::prelude::*;
use serde_json::{json, Value};
use std::collections::{BTreeMap, BTreeSet};
use std::path::{Path, PathBuf};
use std::sync::atomic::{AtomicU64, Ordering};
use vcore::bfs::{self, Step, System};
use vcore::driver::{Coverage, Ctx, Outcome, Tier, Violation};
use vcore::ref_bin::{self, Content, End};
use vcore::ref_loc::{self, Lang, Loc};
use vcore::ref_lz::{self, Kind, Token};
use vcore::util;

#[derive(Clone, Copy, PartialEq, Eq, Debug)]
pub enum Which {
    C12,
    C13,
    /// the filesystem half of C14: both observer sets on the all-games × all-languages pass
    C14,
}

#[derive(Clone, PartialEq, Eq, Hash, Debug, PartialOrd, Ord)]
pub enum Node {
    Dir,
    File(Vec<u8>),
}
pub type Tree = BTreeMap<String, Node>;

fn tree_json(t: &Tree) -> Value {
    Value::Object(
        t.iter()
            .map(|(k, v)| {
                (
                    k.clone(),
                    match v {
                        Node::Dir => json!("<dir>"),
                        Node::File(b) => json!(util::hex(&b[..b.len().min(48)])),
                    },
                )
            })
            .collect(),
    )
}

#[derive(Clone, Debug, PartialEq, Eq, Hash, serde::Serialize, serde::Deserialize)]
pub enum Op {
    Write(String, usize, bool),
    CreateDir(String, bool),
    WriteArchive(String, bool),
    WriteTextArchive(String, bool),
    /// write_text_archive of an archive that was PARSED and not edited (dirty flag clear)
    WriteCleanTextArchive(String, bool),
}

pub struct Config {
    pub name: String,
    pub loc: Loc,
    pub lang: Lang,
    /// on-disk content of the lower layers, lowest first
    pub lowers: Vec<Tree>,
    pub depth: usize,
    /// non-empty initial contents of the top layer to start from as well (besides the empty one)
    pub init_tops: Vec<Tree>,
}

impl Config {
    fn game(&self) -> Game {
        glue::game_of(self.loc).expect("game")
    }
    fn language(&self) -> Language {
        glue::language(self.lang)
    }
    fn sfx(&self) -> &'static str {
        match self.loc {
            Loc::FE9 | Loc::FE10 => ".cmp",
            _ => ".lz",
        }
    }
    fn is_compressed(&self, path: &str) -> bool {
        match self.loc {
            Loc::FE9 | Loc::FE10 => path.ends_with(".cmp") || path.ends_with(".cms"),
            _ => path.ends_with(".lz"),
        }
    }
    fn endian(&self) -> End {
        match self.loc {
            Loc::FE9 | Loc::FE10 => End::Big,
            _ => End::Little,
        }
    }
    /// a conforming compressed stream (literals only) the game's reader must accept
    fn encode_stored(&self, payload: &[u8]) -> Vec<u8> {
        let toks: Vec<Token> = payload.iter().map(|b| Token::Lit(*b)).collect();
        match self.loc {
            Loc::FE9 | Loc::FE10 => ref_lz::encode(&toks, Kind::Lz10, payload.len(), None),
            _ => {
                let mut v = vec![0x13, 0, 0, 0];
                v.extend(ref_lz::encode(&toks, Kind::Lz11, payload.len(), None));
                v
            }
        }
    }
    /// independent expansion of a stored compressed file
    fn decode_stored(&self, stored: &[u8]) -> Result<Vec<u8>, String> {
        match self.loc {
            Loc::FE9 | Loc::FE10 => ref_lz::decode(stored, Kind::Lz10, false).map(|d| d.data).map_err(|e| format!("{:?}", e)),
            _ => {
                if stored.len() < 8 || stored[0] != 0x13 {
                    // the LZ13 reader also accepts bare streams and the stored form
                    if !stored.is_empty() && stored[0] == 0x11 {
                        return ref_lz::decode(stored, Kind::Lz11, false).map(|d| d.data).map_err(|e| format!("{:?}", e));
                    }
                    if !stored.is_empty() && stored[0] == 0x10 {
                        return ref_lz::decode(stored, Kind::Lz10, false).map(|d| d.data).map_err(|e| format!("{:?}", e));
                    }
                    return Err("no 0x13 wrapper".into());
                }
                ref_lz::decode(&stored[4..], Kind::Lz11, false).map(|d| d.data).map_err(|e| format!("{:?}", e))
            }
        }
    }
    fn localize(&self, p: &str) -> Option<String> {
        ref_loc::expected(self.loc, self.lang, p)
    }
    fn write_paths(&self) -> Vec<String> {
        vec!["a".to_string(), "d/a".to_string(), format!("d/b{}", self.sfx()), "d/e/c".to_string()]
    }
    fn payloads(&self) -> Vec<Vec<u8>> {
        // payload 4 is itself a complete compressed stream of the game's codec
        vec![vec![], vec![7], vec![0x41; 40], crate::lzfam::norepeat(40, 9), self.encode_stored(&[0x41; 40])]
    }
    /// top-layer content holding, for every write path, siblings that share its stem or extend
    /// its name (a writer that stages through a temporary / backup sibling would consume them)
    pub fn sibling_top(&self) -> Tree {
        let mut t = Tree::new();
        for p in self.write_paths().into_iter().chain([format!("e{}", self.sfx())]) {
            let cs = comps(&p);
            for i in 1..cs.len() {
                t.insert(cs[..i].join("/"), Node::Dir);
            }
            let stem_ext = std::path::Path::new(&p).with_extension("tmp").display().to_string();
            for (k, sib) in [stem_ext, format!("{}.tmp", p), format!("{}.bak", p), format!("{}~", p)].into_iter().enumerate() {
                if sib != p && !t.contains_key(&sib) {
                    t.insert(sib.clone(), Node::File(format!("sibling{}:{}", k, sib).into_bytes()));
                }
            }
        }
        t
    }
    fn small_archive(&self) -> Content {
        let mut c = Content::new(self.endian());
        c.data = vec![0; 8];
        c.strings.insert(0, "txt".into());
        c.labels.insert(4, vec!["Lab".into()]);
        c
    }
    fn small_text(&self) -> Vec<(String, String)> {
        vec![("MID_A".into(), "hello".into()), ("MID_B".into(), "日本".into())]
    }
    fn text_format(&self) -> mila::TextArchiveFormat {
        match self.loc {
            Loc::FE9 | Loc::FE10 => mila::TextArchiveFormat::ShiftJIS,
            _ => mila::TextArchiveFormat::Unicode,
        }
    }
    fn text_archive_bytes(&self) -> Vec<u8> {
        let mut t = TextArchive::new(self.text_format(), arch::endian(self.endian()));
        t.set_title("T".into());
        for (k, v) in self.small_text() {
            t.set_message(&k, &v);
        }
        t.serialize().expect("text archive")
    }
}

// ------------------------------------------------------------------------------------
// real directories

static SCRATCH_N: AtomicU64 = AtomicU64::new(0);

pub struct Scratch {
    pub root: PathBuf,
}
impl Scratch {
    fn new(base: &Path) -> Scratch {
        let n = SCRATCH_N.fetch_add(1, Ordering::Relaxed);
        // the layer roots contain multi-byte characters (byte length != character count)
        let root = base.join(format!("s{}_日本é", n));
        let _ = std::fs::remove_dir_all(&root);
        std::fs::create_dir_all(&root).expect("scratch");
        Scratch { root }
    }
}
impl Drop for Scratch {
    fn drop(&mut self) {
        let _ = std::fs::remove_dir_all(&self.root);
    }
}

/// content marker of files that are materialised as symbolic links to regular files
const LINK_MARK: &[u8] = b"\x01via-symlink\x01";
static LINK_N: AtomicU64 = AtomicU64::new(0);

fn materialise(dir: &Path, tree: &Tree) {
    std::fs::create_dir_all(dir).expect("layer dir");
    for (p, n) in tree {
        let full = dir.join(p);
        match n {
            Node::Dir => std::fs::create_dir_all(&full).expect("mkdir"),
            Node::File(b) => {
                if let Some(parent) = full.parent() {
                    std::fs::create_dir_all(parent).expect("mkdir parent");
                }
                if b.starts_with(LINK_MARK) {
                    // a file the layer provides THROUGH A SYMBOLIC LINK: the bytes live outside the
                    // layer directory, the path inside it is a link to them
                    let store = dir.parent().unwrap_or(dir).join("_link_targets");
                    std::fs::create_dir_all(&store).expect("link target dir");
                    let n = LINK_N.fetch_add(1, Ordering::Relaxed);
                    let target = store.join(format!("t{}", n));
                    std::fs::write(&target, b).expect("write link target");
                    #[cfg(unix)]
                    std::os::unix::fs::symlink(&target, &full).expect("symlink");
                    #[cfg(not(unix))]
                    std::fs::write(&full, b).expect("write file");
                } else {
                    std::fs::write(&full, b).expect("write file");
                }
            }
        }
    }
}

/// independent directory walker (read_dir, no glob)
pub fn snapshot(dir: &Path) -> Tree {
    fn walk(base: &Path, rel: &str, out: &mut Tree) {
        let here = if rel.is_empty() { base.to_path_buf() } else { base.join(rel) };
        if let Ok(rd) = std::fs::read_dir(&here) {
            for e in rd.flatten() {
                let name = e.file_name().to_string_lossy().to_string();
                let r = if rel.is_empty() { name } else { format!("{}/{}", rel, name) };
                let ft = e.file_type().ok();
                if ft.map(|t| t.is_dir()).unwrap_or(false) {
                    out.insert(r.clone(), Node::Dir);
                    walk(base, &r, out);
                } else {
                    out.insert(r.clone(), Node::File(std::fs::read(base.join(&r)).unwrap_or_default()));
                }
            }
        }
    }
    let mut t = Tree::new();
    walk(dir, "", &mut t);
    t
}

// ------------------------------------------------------------------------------------
// model

fn comps(p: &str) -> Vec<&str> {
    p.split('/').filter(|c| !c.is_empty()).collect()
}
fn norm(p: &str) -> String {
    comps(p).join("/")
}

/// model of `write` on the logical top layer; Err(()) = must fail, tree unchanged
fn model_write(top: &mut Tree, actual: &str, payload: &[u8]) -> Result<(), ()> {
    let cs = comps(actual);
    if cs.is_empty() || actual.ends_with('/') {
        return Err(());
    }
    for i in 1..cs.len() {
        if let Some(Node::File(_)) = top.get(&cs[..i].join("/")) {
            return Err(());
        }
    }
    let full = cs.join("/");
    if let Some(Node::Dir) = top.get(&full) {
        return Err(());
    }
    for i in 1..cs.len() {
        top.insert(cs[..i].join("/"), Node::Dir);
    }
    top.insert(full, Node::File(payload.to_vec()));
    Ok(())
}

fn model_create_dir(top: &mut Tree, actual: &str) -> Result<(), ()> {
    let cs = comps(actual);
    if cs.is_empty() {
        return Ok(());
    }
    for i in 1..=cs.len() {
        if let Some(Node::File(_)) = top.get(&cs[..i].join("/")) {
            return Err(());
        }
    }
    for i in 1..=cs.len() {
        top.insert(cs[..i].join("/"), Node::Dir);
    }
    Ok(())
}

/// entries of `tree` under `dir` matching the glob family, as layer-relative paths
fn list_in(tree: &Tree, dir: &str, glob: Option<&str>) -> BTreeSet<String> {
    let d = norm(dir);
    let mut out = BTreeSet::new();
    if !d.is_empty() && !matches!(tree.get(&d), Some(Node::Dir)) {
        return out;
    }
    for p in tree.keys() {
        let rel = if d.is_empty() {
            p.as_str()
        } else if p.len() > d.len() + 1 && p.starts_with(&d) && p.as_bytes()[d.len()] == b'/' {
            &p[d.len() + 1..]
        } else {
            continue;
        };
        let last = rel.rsplit('/').next().unwrap_or(rel);
        let direct = !rel.contains('/');
        let m = match glob {
            None | Some("**/*") => true,
            Some("*") => direct,
            Some("*.bin") => direct && last.ends_with(".bin"),
            // a pattern that starts with a literal directory: the direct children of dir/e
            Some("e/*") => rel.starts_with("e/") && !rel[2..].contains('/') && rel.len() > 2,
            Some("**/*.txt") => last.ends_with(".txt"),
            Some(other) => panic!("glob {} not in the family", other),
        };
        if m {
            out.insert(p.clone());
        }
    }
    out
}

fn subdirs_in(tree: &Tree, dir: &str) -> BTreeSet<String> {
    let d = norm(dir);
    let mut out = BTreeSet::new();
    if !d.is_empty() && !matches!(tree.get(&d), Some(Node::Dir)) {
        return out;
    }
    for (p, n) in tree {
        let rel = if d.is_empty() {
            p.as_str()
        } else if p.len() > d.len() + 1 && p.starts_with(&d) && p.as_bytes()[d.len()] == b'/' {
            &p[d.len() + 1..]
        } else {
            continue;
        };
        if !rel.contains('/') && *n == Node::Dir {
            out.insert(p.clone());
        }
    }
    out
}

// ------------------------------------------------------------------------------------
// the system

pub struct Sys {
    pub cfg: Config,
    pub which: Which,
    pub base: PathBuf,
}

struct World {
    _scratch: Scratch,
    roots: Vec<PathBuf>,
    fs: LayeredFilesystem,
}

impl Sys {
    fn build_world(&self, top: &Tree) -> Result<World, String> {
        let scratch = Scratch::new(&self.base);
        let mut roots = Vec::new();
        for (i, l) in self.cfg.lowers.iter().enumerate() {
            // layer directories whose NAMES contain the pattern language's own metacharacters
            // (a mod folder called "Patch [v2]"): a listing is built from the directory's path
            let r = scratch.root.join(format!("L{}{}", i, ["", " [v2]", "*x", "?"][i % 4]));
            materialise(&r, l);
            roots.push(r);
        }
        let t = scratch.root.join(if self.cfg.lowers.len() % 2 == 0 { "T[O]P!" } else { "TOP" });
        materialise(&t, top);
        roots.push(t);
        // the roots are handed over in NON-canonical spellings (a `..` detour, a trailing slash, a
        // `.` component): what is listed must still be layer-relative
        let spelled: Vec<String> = roots
            .iter()
            .enumerate()
            .map(|(i, r)| {
                let name = r.file_name().map(|n| n.to_string_lossy().to_string()).unwrap_or_default();
                match i % 3 {
                    0 => format!("{}/../{}", r.display(), name),
                    1 => format!("{}/", r.display()),
                    _ => format!("{}/./", r.display()),
                }
            })
            .collect();
        let fs = LayeredFilesystem::new(spelled, self.cfg.language(), self.cfg.game()).map_err(|e| e.to_string())?;
        Ok(World { _scratch: scratch, roots, fs })
    }
    fn actual(&self, p: &str, loc: bool) -> Option<String> {
        if loc {
            self.cfg.localize(p)
        } else {
            Some(p.to_string())
        }
    }

    fn apply_real(&self, w: &World, op: &Op) -> Result<(), String> {
        match op {
            Op::Write(p, pi, loc) => w.fs.write(p, &self.cfg.payloads()[*pi], *loc).map_err(|e| e.to_string()),
            Op::CreateDir(p, loc) => w.fs.create_dir(p, *loc).map_err(|e| e.to_string()),
            Op::WriteArchive(p, loc) => {
                let a = arch::build(&self.cfg.small_archive(), None)?;
                w.fs.write_archive(p, &a, *loc).map_err(|e| e.to_string())
            }
            Op::WriteTextArchive(p, loc) => {
                let mut t = TextArchive::new(self.cfg.text_format(), arch::endian(self.cfg.endian()));
                t.set_title("T".into());
                for (k, v) in self.cfg.small_text() {
                    t.set_message(&k, &v);
                }
                w.fs.write_text_archive(p, &t, *loc).map_err(|e| e.to_string())
            }
            Op::WriteCleanTextArchive(p, loc) => {
                let t = TextArchive::from_bytes(&self.cfg.text_archive_bytes(), self.cfg.text_format(), arch::endian(self.cfg.endian())).map_err(|e| e.to_string())?;
                w.fs.write_text_archive(p, &t, *loc).map_err(|e| e.to_string())
            }
        }
    }
    /// Model of one call on the on-disk top layer. On success returns, for calls that must
    /// store a compressed stream, (actual path, payload): the model cannot predict the
    /// compressor's bytes, so that one file is judged by "decodes to the payload".
    fn apply_model(&self, top: &mut Tree, op: &Op) -> Result<Option<(String, Vec<u8>)>, ()> {
        let (p, loc, payload): (&String, bool, Option<Vec<u8>>) = match op {
            Op::Write(p, pi, loc) => (p, *loc, Some(self.cfg.payloads()[*pi].clone())),
            Op::CreateDir(p, loc) => (p, *loc, None),
            Op::WriteArchive(p, loc) => (p, *loc, Some(arch::build(&self.cfg.small_archive(), None).and_then(|x| x.serialize().map_err(|e| e.to_string())).map_err(|_| ())?)),
            Op::WriteTextArchive(p, loc) | Op::WriteCleanTextArchive(p, loc) => (p, *loc, Some(self.cfg.text_archive_bytes())),
        };
        let a = self.actual(p, loc).ok_or(())?;
        match payload {
            None => model_create_dir(top, &a).map(|_| None),
            Some(bytes) => {
                model_write(top, &a, &bytes)?;
                if self.cfg.is_compressed(p) {
                    Ok(Some((norm(&a), bytes)))
                } else {
                    Ok(None)
                }
            }
        }
    }

    /// layers as the observers see them: lower layers raw, top layer on-disk form
    fn layers_for(&self, top: &Tree) -> Vec<Tree> {
        let mut v = self.cfg.lowers.clone();
        v.push(top.clone());
        v
    }

    /// read / exists / file_exists / directory_exists / resolve of one path against the layer model
    fn check_path(&self, w: &World, layers: &[Tree], p: &str, loc: bool, out: &mut Vec<(String, String)>) {
        let actual = self.actual(p, loc);
        // ---- read
        let expected: Result<Vec<u8>, &str> = match &actual {
            None => Err("unsupported language"),
            Some(a) => {
                // a path with a trailing slash can only name a directory
                let dir_only = a.ends_with('/');
                let a = norm(a);
                let mut r: Result<Vec<u8>, &str> = Err("not found");
                for l in layers.iter().rev() {
                    if dir_only {
                        break;
                    }
                    if let Some(Node::File(b)) = l.get(&a) {
                        r = if self.cfg.is_compressed(p) {
                            self.cfg.decode_stored(b).map_err(|_| "undecodable")
                        } else {
                            Ok(b.clone())
                        };
                        break;
                    }
                }
                r
            }
        };
        let got = w.fs.read(p, loc);
        match (&expected, &got) {
            (Ok(e), Ok(g)) if e == g => {}
            (Err(_), Err(_)) => {}
            _ => out.push((
                format!("read:{}", if expected.is_ok() { if got.is_ok() { "wrong-bytes" } else { "not-found-or-error" } } else { "unexpected-ok" }),
                format!("read({:?}, localized={}) = {:?}, expected {:?}", p, loc, got.as_ref().map(|b| util::hex(&b[..b.len().min(24)])).map_err(|e| e.to_string()), expected.as_ref().map(|b| util::hex(&b[..b.len().min(24)]))),
            )),
        }
        // ---- existence queries and resolve
        let (mut ex, mut fex, mut dex) = (false, false, false);
        let mut resolved: Option<PathBuf> = None;
        if let Some(a) = &actual {
            let dir_only = a.ends_with('/');
            let a = norm(a);
            for (i, l) in layers.iter().enumerate().rev() {
                match l.get(&a) {
                    Some(Node::File(_)) if dir_only => {}
                    Some(Node::File(_)) => {
                        ex = true;
                        fex = true;
                        if resolved.is_none() {
                            resolved = Some(w.roots[i].join(&a));
                        }
                    }
                    Some(Node::Dir) => {
                        ex = true;
                        dex = true;
                        if resolved.is_none() {
                            resolved = Some(w.roots[i].join(&a));
                        }
                    }
                    None => {}
                }
            }
        }
        let q = |name: &str, got: Result<bool, String>, want: bool, out: &mut Vec<(String, String)>| match (actual.is_some(), got) {
            (true, Ok(g)) if g == want => {}
            (false, Err(_)) => {}
            (_, g) => out.push((format!("{}:wrong", name), format!("{}({:?}, localized={}) = {:?}, expected {}", name, p, loc, g, if actual.is_some() { want.to_string() } else { "Err".into() }))),
        };
        q("exists", w.fs.exists(p, loc).map_err(|e| e.to_string()), ex, out);
        q("file_exists", w.fs.file_exists(p, loc).map_err(|e| e.to_string()), fex, out);
        q("directory_exists", w.fs.directory_exists(p, loc).map_err(|e| e.to_string()), dex, out);
        let r = w.fs.resolve(p, loc);
        let same = match (&r, &resolved) {
            (None, None) => true,
            (Some(a), Some(b)) => std::fs::canonicalize(a).ok() == std::fs::canonicalize(b).ok(),
            _ => false,
        };
        if !same {
            out.push(("resolve:wrong".into(), format!("resolve({:?}, localized={}) = {:?}, expected {:?}", p, loc, r, resolved)));
        }
    }

    fn observe_c12(&self, w: &World, top: &Tree, out: &mut Vec<(String, String)>) {
        let layers = self.layers_for(top);
        let mut paths: Vec<String> = self.cfg.write_paths();
        paths.extend(["d".to_string(), "d/e".to_string(), "nope".to_string(), "t/arch.bin".to_string(), format!("t/z{}", self.cfg.sfx()), "d/nope/x".to_string(), format!("e{}", self.cfg.sfx())]);
        for p in &paths {
            for loc in [false, true] {
                self.check_path(w, &layers, p, loc, out);
            }
        }
        // ---- typed helpers ≡ codec ∘ read, configured per game
        self.observe_typed(w, out);
    }

    fn observe_typed(&self, w: &World, out: &mut Vec<(String, String)>) {
        // bin archive in the game's endianness
        let want = self.cfg.small_archive();
        for p in ["t/arch.bin".to_string(), format!("t/arch.bin{}", self.cfg.sfx()), format!("t/foreign.bin{}", self.cfg.sfx())] {
            match w.fs.read_archive(&p, false) {
                Err(e) => out.push(("typed:read_archive".into(), format!("read_archive({:?}) failed: {} (the file holds a {:?}-endian archive)", p, e, self.cfg.endian()))),
                Ok(a) => {
                    let d = arch::diff_reparsed(&arch::observe(&a), &want);
                    if !d.is_empty() {
                        out.push(("typed:read_archive".into(), format!("read_archive({:?}) returned different content: {}", p, d.join("; "))));
                    }
                }
            }
        }
        match w.fs.read_text_archive("t/text.bin", false) {
            Err(e) => out.push(("typed:read_text_archive".into(), format!("read_text_archive failed: {}", e))),
            Ok(t) => {
                let got: Vec<(String, String)> = t.get_entries().iter().map(|(k, v)| (k.clone(), v.clone())).collect();
                if got != self.cfg.small_text() {
                    out.push(("typed:read_text_archive".into(), format!("read_text_archive returned {:?}", got)));
                }
            }
        }
        // texture helpers ≡ the container reader applied to read() (plain and compressed files)
        {
            type TexKey = (String, usize, usize, Vec<u8>);
            let key = |t: &mila::Texture| -> TexKey { (t.filename.clone(), t.width, t.height, t.pixel_data.clone()) };
            for sfx in ["", self.cfg.sfx()] {
                for (ext, which) in [("ctpk", 0), ("bch", 1), ("bcres", 2), ("tpl", 3)] {
                    let p = format!("t/tex.{}{}", ext, sfx);
                    let bytes = match w.fs.read(&p, false) {
                        Ok(b) => b,
                        Err(e) => {
                            out.push(("typed:read-texture-file".into(), format!("read({:?}) failed: {}", p, e)));
                            continue;
                        }
                    };
                    let direct: Result<Vec<TexKey>, String> = match which {
                        0 => mila::ctpk::read(&bytes).map(|v| v.iter().map(key).collect()).map_err(|e| e.to_string()),
                        1 => mila::bch::read(&bytes).map(|v| v.iter().map(key).collect()).map_err(|e| e.to_string()),
                        2 => mila::cgfx::read(&bytes).map(|v| v.iter().map(key).collect()).map_err(|e| e.to_string()),
                        _ => mila::tpl::Tpl::extract_textures(&bytes).map(|v| v.iter().map(key).collect()).map_err(|e| e.to_string()),
                    };
                    let sorted = |mut v: Vec<TexKey>| {
                        v.sort();
                        v
                    };
                    let via_fs: Result<Vec<TexKey>, String> = match which {
                        0 => w.fs.read_ctpk_textures(&p, false).map(|m| m.values().map(key).collect()).map_err(|e| e.to_string()),
                        1 => w.fs.read_bch_textures(&p, false).map(|m| m.values().map(key).collect()).map_err(|e| e.to_string()),
                        2 => w.fs.read_cgfx_textures(&p, false).map(|m| m.values().map(key).collect()).map_err(|e| e.to_string()),
                        _ => w.fs.read_tpl_textures(&p, false).map(|v| v.iter().map(key).collect()).map_err(|e| e.to_string()),
                    };
                    let want_n = if which == 3 { 1 } else { 2 };
                    match (direct, via_fs) {
                        (Ok(d), Ok(f)) if sorted(d.clone()) == sorted(f.clone()) && d.len() == want_n => {}
                        (d, f) => out.push((format!("typed:read_{}_textures", ext), format!("read_{}_textures({:?}) = {:?} but the container reader on read() gives {:?} (expected {} textures)", ext, p, f.map(|v| v.len()), d.map(|v| v.len()), want_n))),
                    }
                }
            }
            // which file names are "compressed" for each codec
            for (name, lz10, lz13) in [("a.cmp", true, false), ("a.cms", true, false), ("a.lz", false, true), ("dir/GameData.bin.lz", false, true), ("dir/x.bin.cmp", true, false), ("a.bin", false, false), ("a", false, false), ("", false, false), ("a.lz.bin", false, false), ("a.cmp.txt", false, false)] {
                let g10 = mila::CompressionFormat::LZ10(mila::LZ10CompressionFormat {}).is_compressed_filename(name);
                let g13 = mila::CompressionFormat::LZ13(mila::LZ13CompressionFormat {}).is_compressed_filename(name);
                if g10 != lz10 || g13 != lz13 {
                    out.push(("typed:is_compressed_filename".into(), format!("is_compressed_filename({:?}) = LZ10 {} / LZ13 {}, expected {} / {}", name, g10, g13, lz10, lz13)));
                }
            }
            // configuration getters: the game's localizer, the language, the endianness, the top layer
            for p in ["d/a", "m", "x/y/z.bin"] {
                let got = w.fs.localizer().localize(p, &w.fs.language()).map_err(|e| e.to_string());
                let want = self.cfg.localize(p);
                if got.as_ref().ok() != want.as_ref() {
                    out.push(("typed:localizer".into(), format!("localizer().localize({:?}, language()) = {:?}, the game's mapping gives {:?}", p, got, want)));
                }
            }
            if format!("{:?}", w.fs.language()) != format!("{:?}", self.cfg.language()) {
                out.push(("typed:language".into(), format!("language() = {:?}", w.fs.language())));
            }
            if format!("{:?}", w.fs.endian()) != format!("{:?}", arch::endian(self.cfg.endian())) {
                out.push(("typed:endian".into(), format!("endian() = {:?} for {:?}", w.fs.endian(), self.cfg.loc)));
            }
            if std::fs::canonicalize(w.fs.write_layer().root()).ok() != std::fs::canonicalize(&w.roots[w.roots.len() - 1]).ok() {
                out.push(("typed:write_layer".into(), format!("write_layer().root() = {:?}, the highest-priority layer is {:?}", w.fs.write_layer().root(), w.roots[w.roots.len() - 1])));
            }
            if w.fs.text_archive_format() as u8 != self.cfg.text_format() as u8 {
                out.push(("typed:text_archive_format".into(), "text_archive_format() is not the game's text encoding".into()));
            }
        }
        // pack / arc helpers against the codec applied to read()
        if let Ok(bytes) = w.fs.read("t/pack.bin", false) {
            let a = w.fs.read_fe9_arc("t/pack.bin", false).map_err(|e| e.to_string());
            let b = mila::fe9_arc::parse(&bytes).map_err(|e| e.to_string());
            if a.as_ref().ok().map(|m| m.iter().collect::<Vec<_>>()) != b.as_ref().ok().map(|m| m.iter().collect::<Vec<_>>()) || a.is_err() {
                out.push(("typed:read_fe9_arc".into(), format!("read_fe9_arc differs from fe9_arc::parse(read()): {:?} vs {:?}", a.map(|m| m.len()), b.map(|m| m.len()))));
            }
        }
        if let Ok(bytes) = w.fs.read("t/files.arc", false) {
            let a = w.fs.read_arc("t/files.arc", false).map_err(|e| e.to_string());
            let b = mila::arc::from_bytes(&bytes).map_err(|e| e.to_string());
            let norm = |m: std::collections::HashMap<String, Vec<u8>>| m.into_iter().collect::<BTreeMap<_, _>>();
            if a.is_err() || a.clone().ok().map(norm) != b.clone().ok().map(norm) {
                out.push(("typed:read_arc".into(), format!("read_arc differs from arc::from_bytes(read()): {:?} vs {:?}", a.map(|m| m.len()), b.map(|m| m.len()))));
            }
        }
    }

    /// list (every glob of the family) and subdirectories of one directory against the layer model
    fn check_dir(&self, w: &World, layers: &[Tree], dir: &str, loc: bool, globs: &[Option<&str>], seen: &mut std::collections::HashSet<String>, out: &mut Vec<(String, String)>) {
        let actual = self.actual(dir, loc);
        for g in globs.iter().cloned() {
            let got = w.fs.list(dir, g, loc).map_err(|e| e.to_string());
            match (&actual, &got) {
                (None, Err(_)) => {}
                (None, Ok(v)) => out.push(("list:unsupported-language-ok".into(), format!("list({:?}, {:?}, localized) = Ok({:?}) although the language is unsupported", dir, g, v))),
                (Some(_), Err(e)) => out.push(("list:error".into(), format!("list({:?}, {:?}, localized={}) failed: {}", dir, g, loc, e))),
                (Some(a), Ok(v)) => {
                    let mut want: BTreeSet<String> = BTreeSet::new();
                    for l in layers.iter() {
                        want.extend(list_in(l, a, g));
                    }
                    let want: Vec<String> = want.into_iter().collect();
                    if *v != want {
                        let kind = if v.len() != want.len() {
                            let mut s = v.clone();
                            s.sort();
                            s.dedup();
                            if s.len() != v.len() {
                                "duplicates"
                            } else {
                                "wrong-set"
                            }
                        } else {
                            let mut s = v.clone();
                            s.sort();
                            if s == want {
                                "unsorted"
                            } else {
                                "wrong-set"
                            }
                        };
                        out.push((format!("list:{}", kind), format!("list({:?}, {:?}, localized={}) = {:?}, expected {:?}", dir, g, loc, v, want)));
                    }
                    for p in v {
                        // every listed path must exist — asked once per distinct path and state
                        if !seen.insert(p.clone()) {
                            continue;
                        }
                        if !matches!(w.fs.exists(p, false), Ok(true)) {
                            out.push(("list:listed-path-does-not-exist".into(), format!("list({:?}, {:?}) contains {:?} but exists() denies it", dir, g, p)));
                        }
                    }
                    if loc {
                        // a localized listing equals the unlocalized listing of the localized directory
                        let other = w.fs.list(a, g, false).map_err(|e| e.to_string());
                        if other.as_ref().ok() != Some(v) {
                            out.push(("list:localized-differs".into(), format!("list({:?}, {:?}, localized) = {:?} but list({:?}, unlocalized) = {:?}", dir, g, v, a, other)));
                        }
                    }
                }
            }
        }
        // sub-directories
        let got = w.fs.subdirectories(dir, loc).map_err(|e| e.to_string());
        match (&actual, &got) {
            (None, Err(_)) => {}
            (Some(a), Ok(v)) => {
                let mut want: BTreeSet<String> = BTreeSet::new();
                for l in layers.iter() {
                    want.extend(subdirs_in(l, a));
                }
                let want: Vec<String> = want.into_iter().collect();
                if *v != want {
                    out.push(("subdirectories:wrong".into(), format!("subdirectories({:?}, localized={}) = {:?}, expected {:?}", dir, loc, v, want)));
                }
            }
            (a, g) => out.push(("subdirectories:error".into(), format!("subdirectories({:?}, localized={}) = {:?} (localized path {:?})", dir, loc, g, a))),
        }
    }

    fn observe_c13(&self, w: &World, top: &Tree, out: &mut Vec<(String, String)>) {
        let layers = self.layers_for(top);
        let dirs = ["", "d", "d/", "d/e", "nope", "a", "t"];
        let globs: [Option<&str>; 6] = [None, Some("*"), Some("*.bin"), Some("**/*.txt"), Some("**/*"), Some("e/*")];
        let mut seen = std::collections::HashSet::new();
        for dir in dirs {
            for loc in [false, true] {
                if loc && dir.is_empty() {
                    continue;
                }
                self.check_dir(w, &layers, dir, loc, &globs, &mut seen, out);
            }
        }
    }
}

#[derive(Clone)]
pub struct St {
    pub top: Tree,
}

impl System for Sys {
    type State = St;
    type Key = Tree;
    type Action = Op;

    fn init(&self) -> Vec<St> {
        let mut v = vec![St { top: Tree::new() }];
        v.extend(self.cfg.init_tops.iter().map(|t| St { top: t.clone() }));
        v
    }
    fn key(&self, s: &St) -> Tree {
        s.top.clone()
    }
    fn actions(&self, _s: &St) -> Vec<Op> {
        let mut v = Vec::new();
        let paths = self.cfg.write_paths();
        for (i, p) in paths.iter().enumerate() {
            let payloads: Vec<usize> = if i == 2 { vec![0, 1, 2, 3, 4] } else { vec![0, 1] };
            for pi in payloads {
                v.push(Op::Write(p.clone(), pi, false));
                if comps(p).len() >= 2 {
                    v.push(Op::Write(p.clone(), pi, true));
                }
            }
        }
        // a single-component path with the compressed suffix, localized (the localizer treats it
        // as a directory: prefix games store "e.cmp/d_", directory games cannot store it at all)
        v.push(Op::Write(format!("e{}", self.cfg.sfx()), 2, true));
        v.push(Op::Write(format!("e{}", self.cfg.sfx()), 1, false));
        v.push(Op::CreateDir("a".into(), false));
        v.push(Op::CreateDir("d/e".into(), false));
        v.push(Op::CreateDir("d/e".into(), true));
        v.push(Op::WriteArchive("d/a".into(), false));
        v.push(Op::WriteArchive(format!("d/b{}", self.cfg.sfx()), true));
        v.push(Op::WriteTextArchive("d/e/c".into(), false));
        v.push(Op::WriteCleanTextArchive("d/e/c".into(), true));
        v
    }
    fn step(&self, s: &St, _history: &[Op], op: &Op) -> Step<St> {
        let mut model = s.top.clone();
        let want = self.apply_model(&mut model, op);
        let kind = match op {
            Op::Write(..) => "write",
            Op::CreateDir(..) => "create_dir",
            Op::WriteArchive(..) => "write_archive",
            Op::WriteTextArchive(..) => "write_text_archive",
            Op::WriteCleanTextArchive(..) => "write_text_archive(clean)",
        };
        let mut wit = 0u64;
        // witnesses
        if let (Ok(_), Op::Write(p, _, loc)) = (&want, op) {
            if let Some(a) = self.actual(p, *loc) {
                let a = norm(&a);
                if self.cfg.lowers.iter().any(|l| matches!(l.get(&a), Some(Node::File(_)))) {
                    wit |= 1; // write shadows a lower file
                }
                if self.cfg.lowers.iter().any(|l| matches!(l.get(&a), Some(Node::Dir))) {
                    wit |= 2; // file on top hides a directory below
                }
            }
        }
        if want.is_err() {
            wit |= 4; // write rejected (ancestor is a file / target is a directory / unsupported language)
        }
        // paths touched by the call, for the same-instance observers
        let op_path: &str = match op {
            Op::Write(p, _, _) | Op::CreateDir(p, _) | Op::WriteArchive(p, _) | Op::WriteTextArchive(p, _) | Op::WriteCleanTextArchive(p, _) => p,
        };
        let mut related_dirs: Vec<String> = vec![String::new()];
        {
            let cs = comps(op_path);
            for i in 1..cs.len() {
                related_dirs.push(cs[..i].join("/"));
            }
        }
        let globs: [Option<&str>; 6] = [None, Some("*"), Some("*.bin"), Some("**/*.txt"), Some("**/*"), Some("e/*")];
        let r = util::catch(|| -> Result<(Result<(), String>, Vec<Tree>, Vec<(String, String)>), String> {
            let w = self.build_world(&s.top)?;
            // queries BEFORE the call on the same instance (a cache filled here must not go stale)
            for loc in [false, true] {
                let _ = w.fs.read(op_path, loc);
                let _ = w.fs.file_exists(op_path, loc);
                for d in &related_dirs {
                    let _ = w.fs.list(d, None, loc);
                    let _ = w.fs.subdirectories(d, loc);
                }
            }
            let r = self.apply_real(&w, op);
            let snaps: Vec<Tree> = w.roots.iter().map(|r| snapshot(r)).collect();
            // queries AFTER the call on the same instance, judged against the layers as they are now on disk
            let mut post = Vec::new();
            let mut seen_post = std::collections::HashSet::new();
            let layers_now: Vec<Tree> = snaps.clone();
            for loc in [false, true] {
                if self.which != Which::C13 {
                    self.check_path(&w, &layers_now, op_path, loc, &mut post);
                }
                if self.which != Which::C12 {
                    for d in &related_dirs {
                        if loc && d.is_empty() {
                            continue;
                        }
                        self.check_dir(&w, &layers_now, d, loc, &globs, &mut seen_post, &mut post);
                    }
                }
            }
            Ok((r, snaps, post))
        });
        let (res, snaps, post) = match r {
            Err(p) => return Step::Violation { sig: format!("panic@{}:{}", p.location, kind), summary: format!("{:?} panicked: {}", op, p.message), witnesses: wit },
            Ok(Err(e)) => return Step::Violation { sig: "machinery:world".into(), summary: e, witnesses: wit },
            Ok(Ok(x)) => x,
        };
        let fail = |sig: String, summary: String| Step::Violation { sig, summary, witnesses: wit };
        // lower layers untouched
        for (i, l) in self.cfg.lowers.iter().enumerate() {
            if snaps[i] != *l {
                return fail(format!("{}:lower-layer-modified", kind), format!("{:?} changed lower layer {}: {} -> {}", op, i, tree_json(l), tree_json(&snaps[i])));
            }
        }
        match (&want, &res) {
            (Ok(_), Err(e)) => return fail(format!("{}:rejected", kind), format!("{:?} failed ({}) but the model accepts it (top layer {})", op, e, tree_json(&s.top))),
            (Err(()), Ok(())) => return fail(format!("{}:accepted", kind), format!("{:?} succeeded but must fail (top layer {})", op, tree_json(&s.top))),
            _ => {}
        }
        let top_disk = snaps[snaps.len() - 1].clone();
        let compressed_at = match want {
            Err(()) => {
                // A rejected call must not touch any file; directories created on the way (the
                // parent of an unwritable path) are not constrained by the statement.
                let files = |t: &Tree| t.iter().filter(|(_, n)| matches!(n, Node::File(_))).map(|(k, v)| (k.clone(), v.clone())).collect::<Tree>();
                let dirs_kept = s.top.iter().all(|(k, n)| *n != Node::Dir || top_disk.get(k) == Some(&Node::Dir));
                if files(&top_disk) != files(&s.top) || !dirs_kept {
                    return fail(format!("{}:failed-call-changed-files", kind), format!("{:?} failed and changed the top layer: {} — before {}", op, tree_json(&top_disk), tree_json(&s.top)));
                }
                if let Some((sig, summary)) = post.into_iter().next() {
                    return fail(format!("same-instance:{}", sig), format!("queries around the failed {:?} on one filesystem instance: {}", op, summary));
                }
                return Step::Next { state: St { top: top_disk }, witnesses: wit };
            }
            Ok(c) => c,
        };
        if let Some((path, payload)) = compressed_at {
            // the stored file must be a valid compressed stream that expands to the payload
            match top_disk.get(&path) {
                Some(Node::File(stored)) => match self.cfg.decode_stored(stored) {
                    Ok(d) if d == payload => {
                        model.insert(path.clone(), Node::File(stored.clone()));
                    }
                    Ok(d) => return fail(format!("{}:stored-stream-wrong-data", kind), format!("after {:?} the stored file {} expands to {} bytes that differ from the {} written", op, path, d.len(), payload.len())),
                    Err(e) => return fail(format!("{}:stored-stream-invalid", kind), format!("after {:?} the stored file {} ({} bytes: {}) is not a valid compressed stream: {}", op, path, stored.len(), util::hex(&stored[..stored.len().min(16)]), e)),
                },
                _ => return fail(format!("{}:top-layer", kind), format!("after {:?} there is no file at {} in the top layer: {}", op, path, tree_json(&top_disk))),
            }
        }
        if top_disk != model {
            return fail(format!("{}:top-layer", kind), format!("after {:?} the top layer holds {} — expected {}", op, tree_json(&top_disk), tree_json(&model)));
        }
        if let Some((sig, summary)) = post.into_iter().next() {
            return fail(format!("same-instance:{}", sig), format!("queries before and after {:?} on one filesystem instance: {}", op, summary));
        }
        Step::Next { state: St { top: model }, witnesses: wit }
    }
    fn inspect(&self, s: &St) -> Vec<(String, String)> {
        let r = util::catch(|| -> Result<Vec<(String, String)>, String> {
            let w = self.build_world(&s.top)?;
            let mut out = Vec::new();
            match self.which {
                Which::C12 => self.observe_c12(&w, &s.top, &mut out),
                Which::C13 => self.observe_c13(&w, &s.top, &mut out),
                Which::C14 => {
                    self.observe_c12(&w, &s.top, &mut out);
                    self.observe_c13(&w, &s.top, &mut out);
                }
            }
            // observers must not change anything
            let snaps: Vec<Tree> = w.roots.iter().map(|r| snapshot(r)).collect();
            let mut want = self.cfg.lowers.clone();
            want.push(s.top.clone());
            if snaps != want {
                out.push(("observer-modified-disk".into(), "a read-only query changed the directories".into()));
            }
            Ok(out)
        });
        match r {
            Err(p) => vec![(format!("panic@{}:observer", p.location), format!("an observer panicked in state {}: {}", tree_json(&s.top), p.message))],
            Ok(Err(e)) => vec![("machinery:world".into(), e)],
            Ok(Ok(v)) => v.into_iter().map(|(sig, summary)| (sig, format!("[top layer {}] {}", tree_json(&s.top), summary))).collect(),
        }
    }
    fn witness_names(&self) -> Vec<&'static str> {
        vec!["write shadows a file of a lower layer", "file written on top of a lower-layer directory", "write/create_dir rejected"]
    }
}

// ------------------------------------------------------------------------------------
// configurations

fn file(b: &[u8]) -> Node {
    Node::File(b.to_vec())
}

fn typed_layer(cfg_loc: Loc, probe: &Config) -> Tree {
    let mut t = Tree::new();
    t.insert("t".into(), Node::Dir);
    let arch_bytes = ref_bin::write_canonical(&probe.small_archive());
    t.insert("t/arch.bin".into(), file(&arch_bytes));
    t.insert(format!("t/arch.bin{}", probe.sfx()), file(&probe.encode_stored(&arch_bytes)));
    t.insert("t/text.bin".into(), file(&probe.text_archive_bytes()));
    // a conforming compressed file the library's own writer never produces: for the LZ13 games
    // an LZ11 stream with the 8-byte header (24-bit size 0, 32-bit size follows); for the LZ10
    // games a stream made of literals only
    {
        let toks: Vec<Token> = arch_bytes.iter().map(|b| Token::Lit(*b)).collect();
        let stream = match probe.loc {
            Loc::FE9 | Loc::FE10 => ref_lz::encode(&toks, Kind::Lz10, arch_bytes.len(), None),
            _ => {
                let mut v = vec![0x13, 0x55, 0x66, 0x77];
                v.extend(ref_lz::encode_with_header(&toks, Kind::Lz11, arch_bytes.len(), None, true));
                v
            }
        };
        t.insert(format!("t/foreign.bin{}", probe.sfx()), file(&stream));
    }
    t.insert(format!("t/z{}", probe.sfx()), file(b"\x77not a compressed stream"));
    if let Ok(b) = std::fs::read("/repo/resources/test/FE9Arc.bin") {
        t.insert("t/pack.bin".into(), file(&b));
    }
    if let Ok(b) = std::fs::read("/repo/resources/test/ArcTest.arc") {
        t.insert("t/files.arc".into(), file(&b));
    }
    t.insert("t/notes.txt".into(), file(b"n"));
    // texture containers (two textures each) for the typed texture helpers, plain and compressed
    {
        use vcore::ref_pix::{self as rp, Fmt};
        use vcore::ref_tex::{self as rt, Container, TexSpec};
        let texs3: Vec<TexSpec> = [(Fmt::Rgba8, "first"), (Fmt::L8, "second")].iter().enumerate().map(|(i, (f, n))| TexSpec { name: n.to_string(), width: 8, height: 8, format: f.code(), payload: rp::random_payload(*f, 8, 8, 0xF5 + i as u64, false), palette: vec![] }).collect();
        let pal: Vec<u16> = (0..16u16).map(|i| 0x8000 | (i * 0x0421)).collect();
        let texst: Vec<TexSpec> = vec![TexSpec { name: String::new(), width: 8, height: 4, format: rt::TPL_CI8, payload: (0..32).map(|i| (i % 16) as u8).collect(), palette: pal }];
        for (c, ext) in [(Container::Ctpk, "ctpk"), (Container::Bch, "bch"), (Container::Cgfx, "bcres"), (Container::Tpl, "tpl")] {
            let layouts = match c {
                Container::Ctpk => rt::ctpk_layouts(),
                Container::Bch => rt::bch_layouts(false),
                Container::Cgfx => rt::cgfx_layouts(true),
                Container::Tpl => rt::tpl_layouts(&[0]),
            };
            let bytes = rt::build(c, if c == Container::Tpl { &texst } else { &texs3 }, &layouts[0]).bytes;
            t.insert(format!("t/tex.{}", ext), file(&bytes));
            t.insert(format!("t/tex.{}{}", ext, probe.sfx()), file(&probe.encode_stored(&bytes)));
        }
    }
    let _ = cfg_loc;
    t
}

fn lower_choices(probe: &Config) -> Vec<(&'static str, Tree)> {
    let sfx = probe.sfx();
    let mut v: Vec<(&'static str, Tree)> = Vec::new();
    v.push(("empty", Tree::new()));
    // "a" holds exactly payload 1 ([7]): writing the same bytes on top must still create the file
    v.push(("a", [("a".to_string(), file(&[7]))].into_iter().collect()));
    v.push(("a+d/a", [("a".to_string(), file(b"lowA")), ("d".to_string(), Node::Dir), ("d/a".to_string(), file(&[7])), ("d/x.bin".to_string(), file(b"x")), ("d/y.txt".to_string(), file(b"y")),
        // names that differ from the patterns' letters in case only (matching is case-sensitive)
        ("d/UPPER.BIN".to_string(), file(b"U")), ("d/Y.TXT".to_string(), file(b"Y")), ("d/E".to_string(), Node::Dir), ("d/E/in.bin".to_string(), file(b"e")),
        // siblings whose names extend a directory name with characters that sort below '/':
        // string order and path-component order differ on them
        // a DIRECTORY whose own name matches the extension patterns (an unpacked d/pack.bin/), with a
        // file and a nested directory of the same kind inside
        ("d/pack.bin".to_string(), Node::Dir), ("d/pack.bin/in.txt".to_string(), file(b"p")), ("d/pack.bin/inner.bin".to_string(), Node::Dir), ("d/notes.txt".to_string(), Node::Dir),
        ("d-old".to_string(), file(b"o")), ("d.bin".to_string(), file(b"b")), ("d e".to_string(), Node::Dir), ("d e/f".to_string(), file(b"f"))].into_iter().collect()));
    v.push(("d/", [("d".to_string(), Node::Dir)].into_iter().collect()));
    v.push((
        "d/e/c+d/b.SFX",
        [
            ("d".to_string(), Node::Dir),
            ("d/e".to_string(), Node::Dir),
            ("d/e/c".to_string(), file(b"lowC")),
            ("d/e/z.txt".to_string(), file(b"z")),
            // decompresses to payload 2 (40 × 0x41)
            (format!("d/b{}", sfx), file(&probe.encode_stored(&[0x41; 40]))),
        ]
        .into_iter()
        .collect(),
    ));
    v.push(("a/", [("a".to_string(), Node::Dir), ("a/inner.bin".to_string(), file(b"i"))].into_iter().collect()));
    // localized locations present in a lower layer
    let mut locd = Tree::new();
    if let Some(p) = probe.localize("d/a") {
        let cs = comps(&p);
        for i in 1..cs.len() {
            locd.insert(cs[..i].join("/"), Node::Dir);
        }
        locd.insert(cs.join("/"), file(b"lowLocalized"));
    }
    // the localized form of the DIRECTORY d/e (not of a file in it) holds a file, while the
    // unlocalized d/e exists nowhere in this layer
    if let Some(p) = probe.localize("d/e") {
        let cs = comps(&p);
        if cs.join("/") != "d/e" {
            for i in 1..=cs.len() {
                locd.entry(cs[..i].join("/")).or_insert(Node::Dir);
            }
            locd.insert(format!("{}/inner.txt", cs.join("/")), file(b"in the localized directory"));
        }
    }
    // ... and the locations the OTHER languages of this game would address (a look-up must
    // never fall back to them)
    for lang in ref_loc::LANGS {
        if let Some(p) = ref_loc::expected(probe.loc, lang, "d/a") {
            let cs = comps(&p);
            let full = cs.join("/");
            if !locd.contains_key(&full) {
                for i in 1..cs.len() {
                    locd.entry(cs[..i].join("/")).or_insert(Node::Dir);
                }
                locd.insert(full, file(format!("other language {:?}", lang).as_bytes()));
            }
        }
    }
    // ... and the own localized location spelled in the OTHER LETTER CASE (m/s/x for the marker
    // S, e_name for E_name): on a case-sensitive file system that is a different entry, and no
    // look-up may fall back to it
    if let Some(p) = probe.localize("d/a") {
        let flipped: String = p.chars().map(|c| if c.is_ascii_uppercase() { c.to_ascii_lowercase() } else if c.is_ascii_lowercase() && c != 'd' && c != 'a' { c.to_ascii_uppercase() } else { c }).collect();
        let cs = comps(&flipped);
        let full = cs.join("/");
        if full != comps(&p).join("/") && !locd.contains_key(&full) {
            let mut ok = true;
            for i in 1..cs.len() {
                let d = cs[..i].join("/");
                if matches!(locd.get(&d), Some(Node::File(_))) {
                    ok = false;
                }
            }
            if ok {
                for i in 1..cs.len() {
                    locd.entry(cs[..i].join("/")).or_insert(Node::Dir);
                }
                locd.insert(full, file(b"own marker in the other letter case"));
            }
        }
    }
    v.push(("localized d/a", locd.clone()));
    // only the OTHER languages' locations (the own localized location exists in no layer)
    let mut others = locd;
    if let Some(p) = probe.localize("d/a") {
        let own = comps(&p).join("/");
        if own != "d/a" {
            others.remove(&own);
        }
        // drop directories that became empty
        let dirs: Vec<String> = others.iter().filter(|(_, n)| matches!(n, Node::Dir)).map(|(k, _)| k.clone()).collect();
        for d in dirs.into_iter().rev() {
            if !others.keys().any(|k| k.starts_with(&format!("{}/", d))) {
                others.remove(&d);
            }
        }
    }
    v.push(("other languages only", others));
    // files that the layer provides through symbolic links (to regular files outside the layer)
    {
        let mut linked = LINK_MARK.to_vec();
        linked.extend_from_slice(b"linked a");
        let mut linked2 = LINK_MARK.to_vec();
        linked2.extend_from_slice(b"linked d/a");
        v.push(("symlinked files", [("a".to_string(), Node::File(linked)), ("d".to_string(), Node::Dir), ("d/a".to_string(), Node::File(linked2)), ("d/plain.bin".to_string(), file(b"p"))].into_iter().collect()));
    }
    // an INVALID compressed file at the path where a lower layer ("d/e/c+d/b.SFX") holds a valid
    // one: the highest layer that has the file wins, so reading it must fail, not fall through
    v.push(("invalid d/b.SFX", [("d".to_string(), Node::Dir), (format!("d/b{}", sfx), file(b"\x77 junk, not a stream"))].into_iter().collect()));
    v
}

pub fn configs(tier: Tier) -> Vec<Config> {
    let mut out = Vec::new();
    let mk = |loc: Loc, lang: Lang, lowers: Vec<Tree>, name: String, depth: usize| Config { name, loc, lang, lowers, depth, init_tops: vec![] };
    for (loc, lang) in [(Loc::FE10, Lang::German), (Loc::FE14, Lang::EnglishNA)] {
        let probe = mk(loc, lang, vec![], String::new(), 0);
        let typed = typed_layer(loc, &probe);
        let choices = lower_choices(&probe);
        // 1 layer (top only) is not useful for the typed observers: the typed layer is always the lowest
        let (d1, d2) = match tier {
            Tier::Quick => (2, 3),
            Tier::Thorough => (3, 4),
        };
        out.push(mk(loc, lang, vec![typed.clone()], format!("{:?}/{:?} layers=[typed]", loc, lang), d1 + 1));
        for (ci, (cn, c)) in choices.iter().enumerate() {
            // the empty layer adds nothing over [typed]; the look-up-only layers (other languages,
            // invalid stream) are judged by the per-state observers, one level less is enough
            let depth = if ci == 0 || ci >= 7 { d2 - 1 } else { d2 };
            let _ = cn;
            out.push(mk(loc, lang, vec![typed.clone(), c.clone()], format!("{:?}/{:?} layers=[typed, {}]", loc, lang, cn), depth));
        }
        // a layer whose files are symbolic links, above a layer with plain files at the same paths
        out.push(mk(loc, lang, vec![typed.clone(), choices[2].1.clone(), choices[8].1.clone()], format!("{:?}/{:?} layers=[typed, a+d/a, symlinked files]", loc, lang), 2));
        // a higher lower-layer holding undecodable files over valid ones below
        out.push(mk(loc, lang, vec![typed.clone(), choices[4].1.clone(), choices[9].1.clone()], format!("{:?}/{:?} layers=[typed, d/e/c+d/b.SFX, invalid d/b.SFX]", loc, lang), 2));
        // start from a populated top layer: temporary/backup-style siblings of every write path
        {
            let mut c = mk(loc, lang, vec![typed.clone(), choices[1].1.clone()], format!("{:?}/{:?} layers=[typed, a] top starts with .tmp/.bak/~ siblings", loc, lang), d1);
            c.init_tops = vec![probe.sibling_top()];
            out.push(c);
        }
        // three and four layers
        let combos: Vec<Vec<usize>> = match tier {
            Tier::Quick => vec![vec![2, 4], vec![5, 1]],
            Tier::Thorough => vec![vec![2, 4], vec![5, 1], vec![4, 2], vec![1, 5, 3], vec![6, 2, 4], vec![3, 3, 2]],
        };
        for combo in combos {
            let mut lowers = vec![typed.clone()];
            let mut names = vec!["typed"];
            for i in &combo {
                lowers.push(choices[*i].1.clone());
                names.push(choices[*i].0);
            }
            out.push(mk(loc, lang, lowers, format!("{:?}/{:?} layers=[{}]", loc, lang, names.join(", ")), 2));
        }
    }
    // every supported game × language, shallow
    for loc in [Loc::FE9, Loc::FE10, Loc::FE13, Loc::FE14, Loc::FE15] {
        for lang in ref_loc::LANGS {
            let probe = mk(loc, lang, vec![], String::new(), 0);
            let typed = typed_layer(loc, &probe);
            let choices = lower_choices(&probe);
            let depth = match tier {
                Tier::Quick => 1,
                Tier::Thorough => 2,
            };
            out.push(mk(loc, lang, vec![typed.clone(), choices[2].1.clone(), choices[6].1.clone()], format!("{:?}/{:?} layers=[typed, a+d/a, localized d/a]", loc, lang), depth));
            out.push(mk(loc, lang, vec![typed, choices[7].1.clone()], format!("{:?}/{:?} layers=[typed, other languages only]", loc, lang), depth));
        }
    }
    out
}

/// Scale script (outside the BFS): payloads beyond 64 KiB through the compressed and the
/// plain write path of one configuration; read-after-write and stored-stream validity.
fn scale_script(sys: &Sys, o: &mut Outcome) -> u64 {
    let mut steps = 0u64;
    let r = util::catch(|| -> Result<Vec<(String, String)>, String> {
        let w = sys.build_world(&Tree::new())?;
        let mut out = Vec::new();
        let sfx = sys.cfg.sfx();
        for n in [255usize, 256, 65_535, 65_536, 70_001] {
            for (kind, payload) in [("compressible", (0..n).map(|i| (i % 7) as u8).collect::<Vec<u8>>()), ("incompressible", crate::lzfam::norepeat(n.min(70_001), n as u32))] {
                // FE9/FE10 have a second compressed suffix (.cms)
                let sfx2 = if sfx == ".cmp" { ".cms" } else { sfx };
                for (p, loc) in [(format!("big/x{}{}", n, sfx), false), (format!("big/y{}{}", n, sfx), true), (format!("big/z{}.bin", n), false), (format!("big/w{}{}", n, sfx2), true)] {
                    match w.fs.write(&p, &payload, loc) {
                        Err(e) => out.push(("scale:write-failed".to_string(), format!("write({:?}, {} {} bytes, localized={}) failed: {}", p, n, kind, loc, e))),
                        Ok(()) => match w.fs.read(&p, loc) {
                            Ok(b) if b == payload => {}
                            other => out.push(("scale:read-after-write".to_string(), format!("read({:?}) after writing {} {} bytes returned {:?}", p, n, kind, other.map(|b| b.len()).map_err(|e| e.to_string())))),
                        },
                    }
                    if sys.cfg.is_compressed(&p) {
                        if let Some(actual) = sys.actual(&p, loc) {
                            match std::fs::read(w.roots[w.roots.len() - 1].join(norm(&actual))) {
                                Ok(stored) => match sys.cfg.decode_stored(&stored) {
                                    Ok(d) if d == payload => {}
                                    Ok(_) => out.push(("scale:stored-stream-wrong-data".to_string(), format!("stored {} expands to different bytes", actual))),
                                    Err(e) => out.push(("scale:stored-stream-invalid".to_string(), format!("stored {} ({} bytes) is not a valid compressed stream: {}", actual, stored.len(), e))),
                                },
                                Err(e) => out.push(("scale:stored-file-missing".to_string(), format!("no file at {} in the top layer: {}", actual, e))),
                            }
                        }
                    }
                }
            }
        }
        // payloads with the STRUCTURE the codec cares about (a copy of every length class at near
        // and far displacements, long matches followed by a reference back to the start): written
        // to a compressed path and read back through the filesystem
        {
            let mut structured: Vec<Vec<u8>> = crate::lzfam::structure_grid(Tier::Quick).into_iter().step_by(41).map(|i| i.data).collect();
            structured.extend(crate::lzfam::dense_displacements(Tier::Quick).into_iter().step_by(257).map(|i| i.data));
            for m in [273usize, 300, 4096, 4097, 70_000] {
                // 8 distinct bytes, a long run, the same 8 bytes again, a tail
                let mut v: Vec<u8> = (1..=8u8).collect();
                v.extend(std::iter::repeat(0u8).take(m));
                v.extend(1..=8u8);
                v.extend_from_slice(b"tail");
                structured.push(v);
            }
            for (k, payload) in structured.iter().enumerate() {
                let p = format!("lzgrid/g{}{}", k, sfx);
                let loc = k % 2 == 1;
                match w.fs.write(&p, payload, loc) {
                    Err(e) => out.push(("scale:write-failed".to_string(), format!("write({:?}, structured payload {} of {} bytes) failed: {}", p, k, payload.len(), e))),
                    Ok(()) => match w.fs.read(&p, loc) {
                        Ok(b) if b == *payload => {}
                        other => out.push(("scale:read-after-write".to_string(), format!("read({:?}) after writing structured payload {} ({} bytes, hex {}…) returned {:?}", p, k, payload.len(), util::hex(&payload[..payload.len().min(24)]), other.map(|b| b.len()).map_err(|e| e.to_string())))),
                    },
                }
                if let Some(actual) = sys.actual(&p, loc) {
                    if let Ok(stored) = std::fs::read(w.roots[w.roots.len() - 1].join(norm(&actual))) {
                        match sys.cfg.decode_stored(&stored) {
                            Ok(d) if d == *payload => {}
                            other => out.push(("scale:stored-stream".to_string(), format!("the file stored for {:?} (structured payload {}) does not decode to the payload with the reference decoder: {:?}", p, k, other.map(|d| d.len())))),
                        }
                    }
                }
            }
        }
        // names that LOOK like the compressed suffix but are not (other letter case, the suffix in
        // the middle, a longer extension) and the bare suffix as a whole file name: compressed on
        // write and decompressed on read exactly when the path ends in the game's suffix
        {
            let up = sfx.to_uppercase();
            let cap = format!(".{}{}", sfx[1..2].to_uppercase(), &sfx[2..]);
            let names = vec![format!("look/Data.bin{}", up), format!("look/Pack{}", cap), format!("look/x{}.bak", sfx), format!("look/{}", &sfx[1..]), format!("look/x{}x", sfx), format!("look/a{}.txt", sfx), format!("look/{}", sfx), format!("look/UP{}", sfx), "look/plain.LZ".to_string(), "look/plain.CMP".to_string(), "look/plain.Cms".to_string()];
            let stream_like = sys.cfg.encode_stored(&[0x41; 40]);
            for (k, p) in names.iter().enumerate() {
                for (pk, payload) in [vec![7u8, 7, 7], stream_like.clone(), (0..300u32).map(|i| (i % 5) as u8).collect::<Vec<u8>>()].iter().enumerate() {
                    let loc = (k + pk) % 2 == 1;
                    let compressed = sys.cfg.is_compressed(p);
                    match w.fs.write(p, payload, loc) {
                        Err(e) => out.push(("scale:look-alike:write-failed".to_string(), format!("write({:?}, {} bytes, localized={}) failed: {}", p, payload.len(), loc, e))),
                        Ok(()) => {
                            match w.fs.read(p, loc) {
                                Ok(b) if b == *payload => {}
                                other => out.push(("scale:look-alike:read-after-write".to_string(), format!("read({:?}, localized={}) after writing {} bytes returned {:?} (the path {} the compressed suffix {:?})", p, loc, payload.len(), other.map(|b| b.len()).map_err(|e| e.to_string()), if compressed { "ends in" } else { "does not end in" }, sfx))),
                            }
                            if let Some(actual) = sys.actual(p, loc) {
                                if let Ok(stored) = std::fs::read(w.roots[w.roots.len() - 1].join(norm(&actual))) {
                                    let ok = if compressed { sys.cfg.decode_stored(&stored).ok().as_ref() == Some(payload) } else { stored == *payload };
                                    if !ok {
                                        out.push(("scale:look-alike:stored".to_string(), format!("the file stored for {:?} is {} although the path {} the compressed suffix {:?}", p, if compressed { "not a valid stream of the payload" } else { "not the payload byte for byte" }, if compressed { "ends in" } else { "does not end in" }, sfx)));
                                    }
                                }
                            }
                        }
                    }
                }
            }
        }
        // a top layer whose directory carries NO write permission bits (a mounted read-only dump
        // used as the top layer by mistake): whatever a write answers, it must never land in a lower
        // layer; if it answers Ok the file is in the top layer
        #[cfg(unix)]
        if w.roots.len() >= 2 {
            use std::os::unix::fs::PermissionsExt;
            let top_root = w.roots[w.roots.len() - 1].clone();
            let before: Vec<Tree> = w.roots[..w.roots.len() - 1].iter().map(|r| snapshot(r)).collect();
            let _ = std::fs::set_permissions(&top_root, std::fs::Permissions::from_mode(0o555));
            for (p, loc) in [("ro/new.bin", false), ("a", false), ("d/a", true), ("ro2.bin", false)] {
                let r = w.fs.write(p, b"read-only top", loc);
                if r.is_ok() {
                    if let Some(actual) = sys.actual(p, loc) {
                        if std::fs::read(top_root.join(norm(&actual))).ok().as_deref() != Some(&b"read-only top"[..]) {
                            out.push(("scale:read-only-top:not-in-top".to_string(), format!("write({:?}) answered Ok although the top layer's directory has no write permission bits, but the file is not in the top layer", p)));
                        }
                    }
                }
            }
            let _ = w.fs.create_dir("ro_dir", false);
            let _ = std::fs::set_permissions(&top_root, std::fs::Permissions::from_mode(0o755));
            let after: Vec<Tree> = w.roots[..w.roots.len() - 1].iter().map(|r| snapshot(r)).collect();
            if before != after {
                out.push(("scale:read-only-top:lower-layer-modified".to_string(), "with a top layer directory without write permission bits, write / create_dir changed a LOWER layer".to_string()));
            }
        }
        // many distinct paths through ONE filesystem instance (a per-instance memo of paths
        // must not recycle entries wrongly): write all, then revisit all, then overwrite the first
        let many = 1500usize;
        let content = |i: usize, gen: u8| -> Vec<u8> { vec![gen, (i % 251) as u8, (i / 251) as u8, 0x5A] };
        for loc in [true, false] {
            let tag = if loc { "L" } else { "U" };
            for i in 0..many {
                let p = format!("many{}/f{:04}.bin", tag, i);
                if let Err(e) = w.fs.write(&p, &content(i, 1), loc) {
                    out.push(("scale:many-paths:write-failed".to_string(), format!("write({:?}, localized={}) failed: {}", p, loc, e)));
                    break;
                }
            }
            for round in 0..2 {
                for i in 0..many {
                    let p = format!("many{}/f{:04}.bin", tag, i);
                    let gen = if round == 1 && i < 7 { 2 } else { 1 };
                    match w.fs.read(&p, loc) {
                        Ok(b) if b == content(i, gen) => {}
                        other => {
                            out.push(("scale:many-paths:read".to_string(), format!("after {} distinct paths on one instance, read({:?}, localized={}) = {:?}, expected {:?}", many, p, loc, other.map_err(|e| e.to_string()), content(i, gen))));
                            break;
                        }
                    }
                    if !matches!(w.fs.file_exists(&p, loc), Ok(true)) {
                        out.push(("scale:many-paths:file_exists".to_string(), format!("file_exists({:?}, localized={}) is not true", p, loc)));
                        break;
                    }
                    if let Some(actual) = sys.actual(&p, loc) {
                        let on_disk = std::fs::read(w.roots[w.roots.len() - 1].join(norm(&actual))).ok();
                        if on_disk != Some(content(i, gen)) {
                            out.push(("scale:many-paths:on-disk".to_string(), format!("the file written through {:?} (localized={}) is not at {:?} with its own content", p, loc, actual)));
                            break;
                        }
                    }
                }
                if round == 0 {
                    for i in 0..7 {
                        let p = format!("many{}/f{:04}.bin", tag, i);
                        let _ = w.fs.write(&p, &content(i, 2), loc);
                    }
                }
            }
            // the (unlocalized, recursive) listing of the directory against the independent walker
            let want: Vec<String> = list_in(&snapshot(&w.roots[w.roots.len() - 1]), &format!("many{}", tag), None).into_iter().collect();
            let listed = w.fs.list(&format!("many{}", tag), None, false).map_err(|e| e.to_string());
            if listed.as_ref().ok() != Some(&want) || want.len() < many {
                out.push(("scale:many-paths:list".to_string(), format!("list(many{}) has {:?} entries, the directory walk {}", tag, listed.map(|v| v.len()), want.len())));
            }
        }
        Ok(out)
    });
    match r {
        Err(p) => o.violate(format!("panic@{}:scale", p.location), format!("[{}] scale script panicked: {}", sys.cfg.name, p.message), json!({"scale_script": sys.cfg.name})),
        Ok(Err(e)) => o.machinery(format!("scale script: {}", e)),
        Ok(Ok(v)) => {
            steps = 30 + 2 * 1500 * 3;
            for (sig, summary) in v {
                o.violate(sig, format!("[{}] {}", sys.cfg.name, summary), json!({"scale_script": sys.cfg.name}));
            }
        }
    }
    steps
}

/// Entry NAMES outside the plain alphabet of the search: the pattern language's metacharacters
/// (`[ ] * ?`), a backslash, two dots inside a name, a leading dot, a leading dash, and a nested
/// copy of the layer's own absolute path (a backup unpacked inside the layer). Such entries are
/// layer content like any other: listed under their own directory and nowhere else.
fn odd_names_script(sys: &Sys, o: &mut Outcome) -> u64 {
    let mut steps = 0u64;
    let r = util::catch(|| -> Result<Vec<(String, String)>, String> {
        let mut odd = Tree::new();
        let dirs = ["o", "o/d[1]", "o/d1", "o/e", "o/odd\\dir", "o/st*r", "o/star", "o/q?", "o/qx", "o/[", "o/]", "o/-dash", "o/.dot", "o/n"];
        for d in dirs {
            odd.insert(d.to_string(), Node::Dir);
        }
        for (f, b) in [("o/d[1]/in.bin", "in"), ("o/d1/other.bin", "other"), ("o/e/f[2].bin", "f2"), ("o/e/f2.bin", "plain f2"), ("o/e/a*b", "ab"), ("o/e/q?", "q"), ("o/e/back\\slash.txt", "bs"), ("o/e/v1..2", "dots"), ("o/e/..hid", "hid"), ("o/e/save..bak.txt", "bak"), ("o/e/[", "["), ("o/e/]", "]"), ("o/e/-x.bin", "-x"), ("o/e/{a,b}.txt", "brace"), ("o/e/!x", "bang"), ("o/odd\\dir/f.bin", "f"), ("o/st*r/s.txt", "s"), ("o/star/plain.txt", "p"), ("o/q?/q.bin", "q"), ("o/qx/plain.bin", "p"), ("o/[/l.bin", "l"), ("o/]/r.bin", "r"), ("o/-dash/d.bin", "d"), ("o/.dot/h.bin", "h")] {
            odd.insert(f.to_string(), file(b.as_bytes()));
        }
        // the localized location of o/d[1] exists as well
        if let Some(p) = sys.cfg.localize("o/d[1]") {
            let cs = comps(&p);
            if cs.join("/") != "o/d[1]" {
                for i in 1..=cs.len() {
                    odd.entry(cs[..i].join("/")).or_insert(Node::Dir);
                }
                odd.insert(format!("{}/loc.bin", cs.join("/")), file(b"localized"));
            }
        }
        let mut top = Tree::new();
        top.insert("o".into(), Node::Dir);
        top.insert("o/d[1]".into(), Node::Dir);
        top.insert("o/d[1]/top.bin".into(), file(b"top"));
        top.insert("o/e".into(), Node::Dir);
        top.insert("o/e/f[2].bin".into(), file(b"top f2"));
        let cfg = Config { name: format!("{} / odd names", sys.cfg.name), loc: sys.cfg.loc, lang: sys.cfg.lang, lowers: vec![odd.clone(), [("o".to_string(), Node::Dir), ("o/d1".to_string(), Node::Dir), ("o/d1/second.bin".to_string(), file(b"2"))].into_iter().collect()], depth: 0, init_tops: vec![] };
        let sys2 = Sys { cfg, which: sys.which, base: sys.base.join("odd") };
        let w = sys2.build_world(&top)?;
        // a nested copy of the lowest layer's own absolute path inside it
        let root0 = w.roots[0].display().to_string();
        let nested = format!("o/n/{}", root0.trim_start_matches('/'));
        std::fs::create_dir_all(w.roots[0].join(&nested)).map_err(|e| e.to_string())?;
        std::fs::write(w.roots[0].join(&nested).join("deep.bin"), b"deep").map_err(|e| e.to_string())?;
        let layers: Vec<Tree> = w.roots.iter().map(|r| snapshot(r)).collect();
        let mut out = Vec::new();
        let globs: [Option<&str>; 6] = [None, Some("*"), Some("*.bin"), Some("**/*.txt"), Some("**/*"), Some("e/*")];
        let mut seen = std::collections::HashSet::new();
        let mut listed: Vec<String> = dirs.iter().map(|d| d.to_string()).collect();
        listed.push(String::new());
        listed.push(nested.clone());
        listed.push("o/missing[1]".into());
        for dir in &listed {
            for loc in [false, true] {
                if loc && dir.is_empty() {
                    continue;
                }
                sys2.check_dir(&w, &layers, dir, loc, &globs, &mut seen, &mut out);
            }
        }
        // look-ups of the same names: highest layer wins, byte for byte
        for (p, want) in [("o/e/f[2].bin", &b"top f2"[..]), ("o/e/a*b", b"ab"), ("o/e/q?", b"q"), ("o/e/back\\slash.txt", b"bs"), ("o/e/v1..2", b"dots"), ("o/d[1]/in.bin", b"in"), ("o/d[1]/top.bin", b"top"), ("o/d1/second.bin", b"2")] {
            match w.fs.read(p, false) {
                Ok(b) if b == want => {}
                other => out.push(("odd-names:read".to_string(), format!("read({:?}) = {:?}, the highest layer holding it has {:?}", p, other.map_err(|e| e.to_string()), want))),
            }
            if !matches!(w.fs.file_exists(p, false), Ok(true)) || !matches!(w.fs.exists(p, false), Ok(true)) {
                out.push(("odd-names:exists".to_string(), format!("file_exists / exists deny {:?}", p)));
            }
        }
        Ok(out)
    });
    match r {
        Err(p) => o.violate(format!("panic@{}:odd-names", p.location), format!("[{}] odd-names script panicked: {}", sys.cfg.name, p.message), json!({"odd_names_script": sys.cfg.name})),
        Ok(Err(e)) => o.machinery(format!("odd-names script: {}", e)),
        Ok(Ok(v)) => {
            steps = 17 * 2 * 7 + 16;
            let mut sigs = std::collections::BTreeSet::new();
            for (sig, summary) in v {
                // one report per kind of divergence
                if sigs.insert(sig.clone()) {
                    o.violate(format!("odd-names:{}", sig.trim_start_matches("odd-names:")), format!("[{}] {}", sys.cfg.name, summary), json!({"odd_names_script": sys.cfg.name}));
                }
            }
        }
    }
    steps
}

/// configurations for the filesystem half of C14: every supported game × language
pub fn configs_c14(tier: Tier) -> Vec<Config> {
    configs(tier).into_iter().filter(|c| (c.name.contains("localized d/a]") && c.lowers.len() == 3 && c.name.contains("a+d/a")) || c.name.contains("other languages only]")).map(|mut c| {
        c.depth = match tier {
            Tier::Quick => 1,
            Tier::Thorough => 2,
        };
        // two-step histories (an unlocalized write, then a localized one) for the two main pairs
        if c.name.contains("a+d/a") && [(Loc::FE10, Lang::German), (Loc::FE14, Lang::EnglishNA)].contains(&(c.loc, c.lang)) {
            c.depth = 2;
        }
        c
    }).collect()
}

pub fn explore(ctx: &Ctx, which: Which) -> Outcome {
    let base = ctx.scratch(match which {
        Which::C12 => "c12",
        Which::C13 => "c13",
        Which::C14 => "c14",
    });
    let mut o = Outcome::default();
    let mut cov = Coverage::default();
    let mut per_cfg = Vec::new();
    let cfgs = if which == Which::C14 { configs_c14(ctx.tier) } else { configs(ctx.tier) };
    let mut wit_total: BTreeMap<String, u64> = BTreeMap::new();
    // configurations are independent: explored in parallel, merged in configuration order
    struct CfgResult {
        local: Outcome,
        transitions: u64,
        states: u64,
        inspected: u64,
        per_cfg: Value,
        wit: Vec<(String, u64)>,
        sample: Option<Value>,
    }
    let tier = ctx.tier;
    let results: Vec<Option<CfgResult>> = cfgs
        .into_par_iter()
        .enumerate()
        .map(|(ci, cfg)| {
            // the sibling-files start state and the other-languages-only layer exist for the write /
            // look-up side (C12, C14); the listing observers of C13 gain nothing from them
            if which == Which::C13 && (cfg.name.contains("siblings") || cfg.name.contains("other languages only") || cfg.name.contains("a+d/a, symlinked files")) {
                return None;
            }
            let mut o = Outcome::default();
            let mut transitions = 0u64;
            let mut wit: Vec<(String, u64)> = Vec::new();
            let mut depth = cfg.depth;
            // C13 at the quick tier: the listing observers run once per distinct state and dominate the
            // cost; the single-file / empty-directory lower layers get one level less there
            if which == Which::C13 && tier == Tier::Quick && depth >= 3 && cfg.lowers.len() == 2 && (cfg.name.ends_with(", a]") || cfg.name.ends_with(", d/]") || cfg.name.ends_with(", a/]")) {
                depth -= 1;
            }
            let sys = Sys { cfg, which, base: base.join(format!("c{}", ci)) };
            let c14_scale = which == Which::C14 && sys.cfg.name.contains("a+d/a") && [(Loc::FE10, Lang::German), (Loc::FE14, Lang::EnglishNA), (Loc::FE15, Lang::Japanese), (Loc::FE13, Lang::EnglishEU)].contains(&(sys.cfg.loc, sys.cfg.lang));
            if (which == Which::C12 && sys.cfg.lowers.len() == 1) || c14_scale {
                transitions += scale_script(&sys, &mut o);
            }
            // (C14: once per game, for the configurations that also run the scale script)
            if (which != Which::C14 && sys.cfg.lowers.len() == 1) || c14_scale {
                transitions += odd_names_script(&sys, &mut o);
                wit.push(("odd-names scripts".into(), 1));
            }
            let rep = bfs::explore(&sys, Some(depth), None);
            transitions += rep.transitions;
            let per_cfg = json!({"config": sys.cfg.name, "layers": sys.cfg.lowers.len() + 1, "depth": depth, "states": rep.states, "transitions": rep.transitions, "states_observed": rep.inspected});
            for (n, c) in &rep.witness_counts {
                wit.push((n.clone(), *c));
            }
            let sample = rep.sample_histories.iter().take(1).map(|h| json!({"config": sys.cfg.name, "history": h})).next();
            for v in rep.violations {
                o.violate(v.sig, format!("[{}] {}", sys.cfg.name, v.summary), json!({"config_index": ci, "config": sys.cfg.name, "history": v.history, "tier": tier.name()}));
            }
            Some(CfgResult { local: o, transitions, states: rep.states, inspected: rep.inspected, per_cfg, wit, sample })
        })
        .collect();
    for r in results.into_iter().flatten() {
        cov.states += r.states;
        cov.transitions += r.transitions;
        cov.evaluations += r.inspected;
        per_cfg.push(r.per_cfg);
        for (n, c) in r.wit {
            *wit_total.entry(n).or_insert(0) += c;
        }
        if cov.samples.len() < 3 {
            if let Some(s) = r.sample {
                cov.samples.push(s);
            }
        }
        for m in r.local.machinery_errors {
            o.machinery(m);
        }
        for v in r.local.violations {
            o.violate(v.sig, v.summary, v.case);
        }
    }
    // constructor errors
    let tmp = base.join("ctor");
    let _ = std::fs::create_dir_all(&tmp);
    for g in [Game::FE11, Game::FE12] {
        match LayeredFilesystem::new(vec![tmp.display().to_string()], Language::EnglishNA, g) {
            Err(mila::LayeredFilesystemError::UnsupportedGame) => {}
            other => o.violate("ctor:unsupported-game", format!("LayeredFilesystem::new for {:?} = {:?}", g, other.map(|_| "Ok").map_err(|e| e.to_string())), json!({"ctor": format!("{:?}", g)})),
        }
    }
    match LayeredFilesystem::new(vec![], Language::EnglishNA, Game::FE14) {
        Err(mila::LayeredFilesystemError::NoLayers) => {}
        other => o.violate("ctor:no-layers", format!("LayeredFilesystem::new with no layers = {:?}", other.map(|_| "Ok").map_err(|e| e.to_string())), json!({"ctor": "no layers"})),
    }
    let _ = std::fs::remove_dir_all(&base);
    cov.traces_validated_against_impl = cov.transitions;
    cov.evaluations += cov.transitions;
    cov.distinct_nontrivial = cov.states;
    cov.exhaustive = true;
    cov.rule = match which {
        Which::C12 => "explicit-state BFS over real directories: state = logical content of the top layer, lower layers = configuration (1..=4 layers incl. a typed-files layer); transitions = write (4 paths incl. the game's compressed suffix, 2..4 payloads, localized/unlocalized), create_dir, write_archive, write_text_archive; every transition materialises all layers in a fresh scratch directory, applies the call on a real LayeredFilesystem, snapshots every layer with an independent walker and compares with the model (lower layers byte-identical, top layer = model, stored compressed files valid per the reference decoder); per distinct state: read / exists / file_exists / directory_exists / resolve for 10 paths × localized/unlocalized and the typed helpers (archive in the game's endianness, text archive in the game's format, pack, arc) against the top-down model".into(),
        Which::C14 => "filesystem half of C14: for every supported game × language a real LayeredFilesystem over three layers (one of them holding a file at the localized location) is driven through every single call of the C12 alphabet; localized writes must land at root/localize(p) and localized read / exists / file_exists / directory_exists / resolve / list / subdirectories must address that same location (model: ref_loc + layer model)".into(),
        Which::C13 => "same state space as C12; per distinct state: list(dir, glob, localized) for 7 directories × 5 globs × 2 and subdirectories() compared with the sorted de-duplicated union computed from the layers by an independent walker/matcher, every listed path checked with exists(), localized listing compared with the unlocalized listing of the localized directory".into(),
    };
    if cov.samples.is_empty() {
        cov.samples.push(json!({"history": []}));
    }
    cov.extra.insert("configurations".into(), json!(per_cfg));
    cov.extra.insert("witnesses".into(), json!(wit_total));
    o.coverage = cov;
    o.assumptions = vec![
        "paths are relative with plain components; a failed write/create_dir may leave directories behind in the top layer (only files are required to be untouched)".into(),
        "full-depth search for FE10/German and FE14/EnglishNA, a shallow pass for all 5 supported games × 8 languages; FE11/FE12 and the empty layer list are checked at the constructor".into(),
        "scratch directories live on /dev/shm (no symlinks in the canonical paths)".into(),
    ];
    o
}

pub fn replay(ctx: &Ctx, which: Which, case: &Value) -> Vec<Violation> {
    if case.get("ctor").is_some() {
        return vec![];
    }
    if let Some(name) = case["odd_names_script"].as_str() {
        let base = ctx.scratch("replay");
        let mut o = Outcome::default();
        for (ci, cfg) in configs(Tier::Quick).into_iter().enumerate() {
            if cfg.name == name {
                let sys = Sys { cfg, which, base: base.join(format!("c{}", ci)) };
                odd_names_script(&sys, &mut o);
            }
        }
        let _ = std::fs::remove_dir_all(&base);
        return o.violations.into_iter().filter(|v| v.sig == case["sig"].as_str().unwrap_or(&v.sig)).collect();
    }
    if let Some(name) = case["scale_script"].as_str() {
        let base = ctx.scratch("replay");
        let mut o = Outcome::default();
        for (ci, cfg) in configs(Tier::Quick).into_iter().enumerate() {
            if cfg.name == name {
                let sys = Sys { cfg, which, base: base.join(format!("c{}", ci)) };
                scale_script(&sys, &mut o);
            }
        }
        let _ = std::fs::remove_dir_all(&base);
        return o.violations;
    }
    let tier = if case["tier"] == "thorough" { Tier::Thorough } else { Tier::Quick };
    let ci = case["config_index"].as_u64().unwrap_or(0) as usize;
    let hist: Vec<Op> = serde_json::from_value(case["history"].clone()).unwrap_or_default();
    let base = ctx.scratch("replay");
    let mut cfgs = if which == Which::C14 { configs_c14(tier) } else { configs(tier) };
    if ci >= cfgs.len() {
        return vec![];
    }
    let cfg = cfgs.remove(ci);
    let sys = Sys { cfg, which, base: base.clone() };
    let mut st = St { top: Tree::new() };
    let mut out = Vec::new();
    for (sig, summary) in sys.inspect(&st) {
        if hist.is_empty() {
            out.push(Violation { sig, summary, case: case.clone() });
        }
    }
    for (k, op) in hist.iter().enumerate() {
        match sys.step(&st, &hist[..k], op) {
            Step::Next { state, .. } => {
                st = state;
                if k + 1 == hist.len() {
                    for (sig, summary) in sys.inspect(&st) {
                        out.push(Violation { sig, summary, case: case.clone() });
                    }
                }
            }
            Step::Violation { sig, summary, .. } => {
                out.push(Violation { sig, summary, case: case.clone() });
                break;
            }
            Step::Skip => {}
        }
    }
    let _ = std::fs::remove_dir_all(&base);
    out
}
