use mila::{
    FE10PathLocalizer, FE13PathLocalizer, FE14PathLocalizer, FE15PathLocalizer, FE9PathLocalizer,
    Game, Language, NoOpPathLocalizer, PathLocalizer,
};
use vcore::ref_loc::{Lang, Loc};

pub fn localizer(l: Loc) -> PathLocalizer {
    match l {
        Loc::NoOp => PathLocalizer::NoOp(NoOpPathLocalizer {}),
        Loc::FE9 => PathLocalizer::FE9(FE9PathLocalizer {}),
        Loc::FE10 => PathLocalizer::FE10(FE10PathLocalizer {}),
        Loc::FE13 => PathLocalizer::FE13(FE13PathLocalizer {}),
        Loc::FE14 => PathLocalizer::FE14(FE14PathLocalizer {}),
        Loc::FE15 => PathLocalizer::FE15(FE15PathLocalizer {}),
    }
}

pub fn language(l: Lang) -> Language {
    match l {
        Lang::EnglishNA => Language::EnglishNA,
        Lang::EnglishEU => Language::EnglishEU,
        Lang::Japanese => Language::Japanese,
        Lang::Spanish => Language::Spanish,
        Lang::French => Language::French,
        Lang::Italian => Language::Italian,
        Lang::German => Language::German,
        Lang::Dutch => Language::Dutch,
    }
}

pub fn game_of(l: Loc) -> Option<Game> {
    match l {
        Loc::NoOp => None,
        Loc::FE9 => Some(Game::FE9),
        Loc::FE10 => Some(Game::FE10),
        Loc::FE13 => Some(Game::FE13),
        Loc::FE14 => Some(Game::FE14),
        Loc::FE15 => Some(Game::FE15),
    }
}
