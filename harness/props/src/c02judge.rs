//! Image oracle of C02, shared by the plain check (fresh hash states) and the hooked twin
//! (forced hash iteration orders).

use crate::arch;
use mila::BinArchive;
use vcore::ref_bin::{self, Content};
use vcore::{util, Tally};

pub fn sig(oracle: &str, c: &Content) -> String {
    format!("{}:{:?}", oracle, c.endian)
}

/// `images` = the distinct images obtained for content `c` (all call orders × all hash states).
pub fn judge_images(c: &Content, images: &[Vec<u8>], how: &str, t: &mut Tally) -> Option<(String, String)> {
    if images.len() != 1 {
        return Some((
            sig("nondeterministic", c),
            format!("{} distinct images from {} of equal content, e.g. {} vs {}", images.len(), how, util::hex(&images[0]), util::hex(&images[1])),
        ));
    }
    let img = &images[0];
    if ref_bin::be_order_is_determined(c) {
        let want = ref_bin::write_canonical(c);
        if *img != want {
            return Some((sig("not-canonical", c), format!("image {} differs from the canonical image {}", util::hex(img), util::hex(&want))));
        }
        t.class("canonical-image-equal");
        // parse → serialize reproduces a canonical file byte for byte
        t.calls += 2;
        match util::catch(|| BinArchive::from_bytes(&want, arch::endian(c.endian)).and_then(|a| a.serialize()).map_err(|e| e.to_string())) {
            Err(p) => return Some((format!("panic@{}", p.location), format!("parse/re-serialize panicked: {}", p.message))),
            Ok(Err(e)) => return Some((sig("reserialize-err", c), format!("parse → serialize of a canonical file failed: {}", e))),
            Ok(Ok(again)) => {
                if again != want {
                    return Some((sig("not-byte-stable", c), format!("parse → serialize of the canonical file gives {} instead of {}", util::hex(&again), util::hex(&want))));
                }
            }
        }
    } else {
        // big-endian with tied / multi-label names: determinism (checked above), structural
        // correctness by the reference parser, and name order where it is defined
        t.class("be-tie-or-multilabel");
        match ref_bin::parse(img, c.endian) {
            Err(e) => return Some((sig("image-malformed", c), format!("reference parser rejects the image: {}", e))),
            Ok(p) => {
                if p.content.strings != c.strings || p.content.pointers != c.pointers || p.content.labels != c.labels {
                    return Some((sig("image-content", c), "reference parser reads different content from the image".into()));
                }
                if c.labels.values().all(|v| v.len() == 1) {
                    let names: Vec<&String> = p.label_table.iter().map(|l| &l.1).collect();
                    if names.windows(2).any(|w| w[0] > w[1]) {
                        return Some((sig("be-not-by-name", c), format!("big-endian label table is not ordered by name: {:?}", names)));
                    }
                }
                if p.pointer_table != ref_bin::canonical_pointer_table(c) {
                    return Some((sig("pointer-table-order", c), format!("pointer table {:?} is not in canonical order {:?}", p.pointer_table, ref_bin::canonical_pointer_table(c))));
                }
            }
        }
    }
    None
}
