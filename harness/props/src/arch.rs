//! Building mila BinArchives from the content model and observing them through the
//! public API only.

use mila::{BinArchive, Endian};
use std::collections::{BTreeMap, BTreeSet};
use vcore::ref_bin::{Content, End};

pub fn endian(e: End) -> Endian {
    match e {
        End::Little => Endian::Little,
        End::Big => Endian::Big,
    }
}

/// One annotation call (used to enumerate call orders in C02).
#[derive(Clone, Debug, PartialEq, Eq, Hash)]
pub enum Call {
    Str(usize, String),
    Ptr(usize, usize),
    CStr(usize, String),
    Label(usize, String),
}

pub fn calls_of(c: &Content) -> Vec<Call> {
    let mut v = Vec::new();
    for (a, s) in &c.strings {
        v.push(Call::Str(*a, s.clone()));
    }
    for (a, t) in &c.pointers {
        v.push(Call::Ptr(*a, *t));
    }
    for (a, s) in &c.cstrings {
        v.push(Call::CStr(*a, s.clone()));
    }
    for (a, names) in &c.labels {
        for n in names {
            v.push(Call::Label(*a, n.clone()));
        }
    }
    v
}

pub fn apply_call(a: &mut BinArchive, call: &Call) -> Result<(), String> {
    match call {
        Call::Str(addr, s) => a.write_string(*addr, Some(s)).map_err(|e| e.to_string()),
        Call::Ptr(addr, t) => a.write_pointer(*addr, Some(*t)).map_err(|e| e.to_string()),
        Call::CStr(addr, s) => a.write_c_string(*addr, s.clone()).map_err(|e| e.to_string()),
        Call::Label(addr, s) => a.write_label(*addr, s).map_err(|e| e.to_string()),
    }
}

/// Build a real archive holding `c`, applying the annotation calls in the given order
/// (default: canonical order of `calls_of`).
pub fn build(c: &Content, order: Option<&[Call]>) -> Result<BinArchive, String> {
    let mut a = BinArchive::new(endian(c.endian));
    a.allocate_at_end(c.data.len());
    if !c.data.is_empty() {
        a.write_bytes(0, &c.data).map_err(|e| e.to_string())?;
    }
    let default_calls;
    let calls: &[Call] = match order {
        Some(o) => o,
        None => {
            default_calls = calls_of(c);
            &default_calls
        }
    };
    for call in calls {
        apply_call(&mut a, call)?;
    }
    Ok(a)
}

#[derive(Clone, Debug, PartialEq, Eq, Hash)]
pub struct Obs {
    pub size: usize,
    pub bytes: Vec<u8>,
    pub strings: BTreeMap<usize, String>,
    pub pointers: BTreeMap<usize, usize>,
    pub labels: BTreeMap<usize, Vec<String>>,
    pub dests: BTreeSet<usize>,
    /// read_c_string at every cell that holds a pointer (Ok(Some(s)) only)
    pub cstr_reads: BTreeMap<usize, String>,
    /// anomalies noticed while observing (accessor errors inside the data region ...)
    pub anomalies: Vec<String>,
}

/// Observe everything the public API shows (not the serialized image).
pub fn observe(a: &BinArchive) -> Obs {
    let size = a.size();
    let mut o = Obs {
        size,
        bytes: vec![],
        strings: BTreeMap::new(),
        pointers: BTreeMap::new(),
        labels: BTreeMap::new(),
        dests: BTreeSet::new(),
        cstr_reads: BTreeMap::new(),
        anomalies: vec![],
    };
    if size > 0 {
        match a.read_bytes(0, size) {
            Ok(b) => o.bytes = b.to_vec(),
            Err(e) => o.anomalies.push(format!("read_bytes(0,size) failed: {}", e)),
        }
    }
    let mut addr = 0;
    while addr + 4 <= size {
        match a.read_string(addr) {
            Ok(Some(s)) => {
                o.strings.insert(addr, s);
            }
            Ok(None) => {}
            Err(e) => o.anomalies.push(format!("read_string({}) failed: {}", addr, e)),
        }
        match a.read_pointer(addr) {
            Ok(Some(t)) => {
                o.pointers.insert(addr, t);
                if let Ok(Some(s)) = a.read_c_string(addr) {
                    o.cstr_reads.insert(addr, s);
                }
            }
            Ok(None) => {}
            Err(e) => o.anomalies.push(format!("read_pointer({}) failed: {}", addr, e)),
        }
        match a.read_labels(addr) {
            Ok(_) => {}
            Err(e) => o.anomalies.push(format!("read_labels({}) failed: {}", addr, e)),
        }
        addr += 1;
    }
    for (addr, name) in a.all_labels() {
        o.labels.entry(addr).or_default().push(name);
    }
    // read_labels must agree with all_labels inside the cell range
    for (addr, names) in &o.labels {
        if addr + 4 <= size {
            match a.read_labels(*addr) {
                Ok(Some(v)) if &v == names => {}
                other => o.anomalies.push(format!("read_labels({}) = {:?} disagrees with all_labels {:?}", addr, other.map_err(|e| e.to_string()), names)),
            }
        }
    }
    // the other label accessors must agree with all_labels: get_labels lists the same pairs
    // (sorted by address, then name), find_label_address returns an address carrying the name
    let mut flat: Vec<(usize, String)> = o.labels.iter().flat_map(|(a, v)| v.iter().map(move |n| (*a, n.clone()))).collect();
    flat.sort();
    let mut got = a.get_labels();
    got.sort();
    if got != flat {
        o.anomalies.push(format!("get_labels() = {:?} disagrees with all_labels {:?}", got, flat));
    }
    let names: BTreeSet<&String> = o.labels.values().flatten().collect();
    for n in names {
        match a.find_label_address(n) {
            Some(addr) if o.labels.get(&addr).map(|v| v.contains(n)).unwrap_or(false) => {}
            other => o.anomalies.push(format!("find_label_address({:?}) = {:?} but the label sits on {:?}", n, other, o.labels.iter().filter(|(_, v)| v.contains(n)).map(|(a, _)| *a).collect::<Vec<_>>())),
        }
    }
    if let Some(addr) = a.find_label_address("\u{1}no such label") {
        o.anomalies.push(format!("find_label_address of an absent label returned {}", addr));
    }
    o.dests = a.pointer_destinations().into_iter().collect();
    o
}

/// Differences between an observation and the content model (in-memory comparison:
/// raw bytes are compared everywhere; pending c-strings are invisible).
pub fn diff_obs(o: &Obs, c: &Content) -> Vec<String> {
    let mut d = o.anomalies.clone();
    if o.size != c.size() {
        d.push(format!("size {} != model {}", o.size, c.size()));
    }
    if o.bytes != c.data {
        d.push(format!("bytes {} != model {}", vcore::util::hex(&o.bytes), vcore::util::hex(&c.data)));
    }
    if o.strings != c.strings {
        d.push(format!("strings {:?} != model {:?}", o.strings, c.strings));
    }
    if o.pointers != c.pointers {
        d.push(format!("pointers {:?} != model {:?}", o.pointers, c.pointers));
    }
    let model_labels: BTreeMap<usize, Vec<String>> = c.labels.iter().filter(|(_, v)| !v.is_empty()).map(|(k, v)| (*k, v.clone())).collect();
    if o.labels != model_labels {
        d.push(format!("labels {:?} != model {:?}", o.labels, model_labels));
    }
    let model_dests: BTreeSet<usize> = c.pointers.values().cloned().collect();
    if o.dests != model_dests {
        d.push(format!("pointer_destinations {:?} != model {:?}", o.dests, model_dests));
    }
    d
}

/// Differences between a *re-parsed* archive and the content it was serialized from
/// (C01 rule 3: pending c-strings become pool + pointers; annotated cells' raw bytes are
/// not compared).
pub fn diff_reparsed(o: &Obs, c: &Content) -> Vec<String> {
    let mut d = o.anomalies.clone();
    let m = vcore::ref_bin::materialise_cstrings(c);
    // bytes, strings and pointers with the order of the c-string pool left open
    let dm = vcore::ref_bin::diff_materialised(&o.bytes, &o.strings, &o.pointers, c);
    if o.size != o.bytes.len() {
        d.push(format!("size() = {} but {} bytes are readable", o.size, o.bytes.len()));
    }
    let size_differs = o.bytes.len() != m.size();
    d.extend(dm);
    if size_differs {
        return d;
    }
    for (addr, s) in &c.cstrings {
        if o.cstr_reads.get(addr) != Some(s) {
            d.push(format!("c-string cell {} reads back {:?}, expected {:?}", addr, o.cstr_reads.get(addr), s));
        }
    }
    let model_labels: BTreeMap<usize, Vec<String>> = m.labels.iter().filter(|(_, v)| !v.is_empty()).map(|(k, v)| (*k, v.clone())).collect();
    if o.labels != model_labels {
        d.push(format!("labels {:?} != expected {:?}", o.labels, model_labels));
    }
    d
}
