#!/usr/bin/env bash
# tools/regress_seeded.sh [pattern]  — re-runs every stored seeded change against its own property's
# quick check (apply, run, restore) and prints one line per change; changes judged outside the
# domain of their property (C13_7 C13_17 links to directories, C02_14 overlapping pointer cells, C03_18 C18_18 C20_18 — see DESIGN §7.2) are expected to stay silent.
cd /verif || exit 2
./check --setup | tail -1
for d in seeded/${1:-C*}; do
  n=$(basename "$d"); id=${n%_*}
  [ -f "$d/patch.diff" ] || continue
  tools/apply_seeded.sh "$n" "$id" 2>&1 | grep -v "^WARNING conda" | cut -c1-200
done
