#!/usr/bin/env bash
# tools/benign.sh <file> '<old>' '<new>' <checks...> — behaviour-preserving (w.r.t. the properties) change:
# every named check must still exit 0 (false-alarm experiment). Restores /repo afterwards.
set -u
FILE="$1"; OLD="$2"; NEW="$3"; shift 3
mkdir -p /verif/target; exec 8>/verif/target/.repo.lock; flock -x 8; export VERIF_LOCK_HELD=1
cd /repo || exit 2
[ -z "$(git status --porcelain -- src)" ] || { echo "repo dirty"; exit 2; }
python3 - "$FILE" "$OLD" "$NEW" <<'PY'
import sys
f,old,new=sys.argv[1:4]
s=open(f).read()
assert old in s, "pattern not found"
open(f,'w').write(s.replace(old,new,1))
PY
[ $? -eq 0 ] || { git checkout -- src; exit 2; }
cargo build --offline -q 2>&1 | grep -E "^error" -A5 | head
for c in "$@"; do
  out=$(cd /verif && ./check "$c" quick 2>&1); rc=$?
  echo "benign change vs $c: exit=$rc $(echo "$out" | grep -E '^\s+\[' | head -1 | cut -c1-200)"
done
git -C /repo checkout -- src
