#!/usr/bin/env bash
# tools/mk_worktree.sh <ID>  — scratch worktree of /repo HEAD for an independent mutation agent
set -e
ID="$1"; D="/tmp/wt_$ID"
git -C /repo worktree remove --force "$D" 2>/dev/null || true
rm -rf "$D"
git -C /repo worktree add --detach "$D" HEAD >/dev/null 2>&1
cp /repo/Cargo.lock "$D/Cargo.lock"
mkdir -p "$D/out"
python3 - "$ID" > "$D/PROPERTY.txt" <<'PY'
import json,sys
for l in open('/verif/properties.jsonl'):
    p=json.loads(l)
    if p['id']==sys.argv[1]:
        print(p['title']); print(); print(p['statement']); print(); print("Quantified over:", p['quantifier']['text'])
PY
echo "$D"
