#!/usr/bin/env python3
"""Validate MANIFEST.json and every evidence file against the schemas (run with python3-vt)."""
import json, glob, sys, jsonschema
ok = True
m = json.load(open('/verif/MANIFEST.json')); s = json.load(open('/root/.vp/MANIFEST.schema.json'))
try: jsonschema.validate(m, s); print("MANIFEST ok:", len(m["checks"]), "checks")
except Exception as e: ok = False; print("MANIFEST INVALID", e)
es = json.load(open('/root/.vp/EVIDENCE.schema.json'))
for c in m["checks"]:
    f = c["evidence_file"]
    try:
        e = json.load(open(f)); jsonschema.validate(e, es)
        cov = e["coverage"]
        print(f"  {e['property_id']} {e['tier']:8s} ok  eval={cov.get('evaluations')} states={cov.get('states')} trans={cov.get('transitions')} viol={e.get('violations')} wall={e['wall_s']:.1f}s")
    except Exception as ex:
        ok = False; print("  EVIDENCE INVALID", f, str(ex)[:300])
sys.exit(0 if ok else 1)
