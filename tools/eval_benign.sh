#!/usr/bin/env bash
# tools/eval_benign.sh <ID> <round-tag> [check ids...]
# Evaluates an independently written BENIGN change (/tmp/wt_<ID>/out/benign3.diff + benign3.json):
# the repository suite must pass with it and every named check (default: <ID>) must still exit 0.
# Stored under /verif/seeded/benign/<ID>_<round-tag>/ with the outcome.
set -u
ID="$1"; TAG="$2"; shift 2
CHECKS="${*:-$ID}"
WT="/tmp/wt_$ID"; P="$WT/out/benign3.diff"; M="$WT/out/benign3.json"
[ -f "$P" ] || { echo "missing $P"; exit 2; }
export CARGO_TARGET_DIR="$WT/target" CARGO_NET_OFFLINE=true
cd "$WT" || exit 2
git checkout -q -- src; rm -rf tests
git apply "$P" || { echo "patch does not apply"; exit 2; }
suite=$(cargo test --offline --lib 2>&1 | grep -E "^test result" | tail -1)
git checkout -q -- src
echo "suite with benign change: $suite"
mkdir -p /verif/target
exec 8>/verif/target/.repo.lock; flock -x 8; export VERIF_LOCK_HELD=1
cd /repo || exit 2
[ -z "$(git status --porcelain -- src)" ] || { echo "repo dirty"; exit 2; }
if ! git apply "$P" 2>/dev/null; then
  # context shifted by later commits in /repo (e.g. the verif hook next to the imports): fuzzy apply
  git reset -q --hard HEAD
  if ! patch -p1 -F 3 -s --no-backup-if-mismatch < "$P"; then git reset -q --hard HEAD; git clean -fdq src; echo "patch does not apply to /repo"; exit 2; fi
  echo "(patch applied with fuzz; stored patch regenerated against /repo HEAD)"
  REGEN=1
fi
git diff > /dev/shm/.applied_patch.diff
results=""
for c in $CHECKS; do
  out=$(cd /verif && ./check "$c" quick 2>&1); rc=$?
  nv=$(echo "$out" | grep -c "^VIOLATION")
  first=$(echo "$out" | grep -E "^\s+\[(un)?checked\]|MACHINERY" | head -2 | cut -c1-300 | tr '\n' '|')
  echo "benign $ID vs check $c: exit=$rc VIOLATION lines=$nv :: $first"
  results="$results{\"check\":\"$c\",\"tier\":\"quick\",\"exit\":$rc,\"violation_lines\":$nv},"
done
git -C /repo reset -q --hard HEAD; git -C /repo clean -fdq src
S="/verif/seeded/benign/${ID}_$TAG"; mkdir -p "$S"
if [ -n "${REGEN:-}" ]; then cp /dev/shm/.applied_patch.diff "$S/patch.diff"; else cp "$P" "$S/patch.diff"; fi
python3 - "$M" "$S/meta.json" "$ID" "[${results%,}]" "$suite" <<'PY'
import json,sys
src,dst,pid,res,s=sys.argv[1:6]
try: meta=json.load(open(src))
except Exception: meta={}
meta["property"]=pid; meta["kind"]="benign (property-preserving) change"
meta["repository_suite_with_patch"]=s
meta["checks_run_against_it"]=json.loads(res)
json.dump(meta,open(dst,"w"),indent=1,ensure_ascii=False)
PY
