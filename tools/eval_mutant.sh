#!/usr/bin/env bash
# tools/eval_mutant.sh <ID> <k> [check ids...]
# 1. confirms an independently written mutant in its scratch worktree /tmp/wt_<ID>
#    (suite passes with the patch, demo fails with it and passes without it),
# 2. applies it to /repo, runs the named checks (default: <ID>) at the quick tier, restores /repo,
# 3. stores it under /verif/seeded/<ID>_<k>/ with a meta.json recording what was run.
set -u
ID="$1"; K="$2"; shift 2
CHECKS="${*:-$ID}"
WT="/tmp/wt_$ID"; OUT="$WT/out"
P="$OUT/patch$K.diff"; D="$OUT/demo$K.rs"; M="$OUT/meta$K.json"
[ -f "$P" ] && [ -f "$D" ] || { echo "missing $P or $D"; exit 2; }
export CARGO_TARGET_DIR="$WT/target" CARGO_NET_OFFLINE=true
cd "$WT" || exit 2
git checkout -q -- src; rm -rf tests; mkdir -p tests; cp "$D" "tests/demo$K.rs"
base_demo=$(cargo test --offline --test "demo$K" 2>&1 | grep -E "^test result" | tail -1)
git apply "$P" || { echo "patch does not apply"; exit 2; }
suite=$(cargo test --offline --lib 2>&1 | grep -E "^test result" | tail -1)
mut_demo=$(cargo test --offline --test "demo$K" 2>&1 | grep -E "^test result|error(\[|:)" | tail -1)
git checkout -q -- src; rm -rf tests
echo "unchanged tree demo : $base_demo"
echo "mutant suite        : $suite"
echo "mutant demo         : $mut_demo"
ok=1
echo "$base_demo" | grep -q "test result: ok" || ok=0
echo "$suite" | grep -q "82 passed; 0 failed" || ok=0
echo "$mut_demo" | grep -q "test result: ok" && ok=0
if [ $ok -ne 1 ]; then echo "MUTANT NOT CONFIRMED"; fi
# --- run the checks against it
mkdir -p /verif/target
exec 8>/verif/target/.repo.lock; flock -x 8; export VERIF_LOCK_HELD=1
cd /repo || exit 2
[ -z "$(git status --porcelain -- src)" ] || { echo "repo dirty"; exit 2; }
if ! git apply "$P" 2>/dev/null; then
  # context shifted by later commits in /repo (e.g. the verif hook next to the imports): fuzzy apply
  git reset -q --hard HEAD
  if ! patch -p1 -F 3 -s --no-backup-if-mismatch < "$P"; then git reset -q --hard HEAD; git clean -fdq src; echo "patch does not apply to /repo"; exit 2; fi
  echo "(patch applied with fuzz; stored patch regenerated against /repo HEAD)"
  REGEN=1
fi
git diff > /dev/shm/.applied_patch.diff
results=""
for c in $CHECKS; do
  out=$(cd /verif && ./check "$c" quick 2>&1); rc=$?
  nv=$(echo "$out" | grep -c "^VIOLATION")
  first=$(echo "$out" | grep -E "^\s+\[(un)?checked\]" | head -2 | cut -c1-260 | tr '\n' '|')
  echo "check $c: exit=$rc VIOLATION lines=$nv :: $first"
  results="$results{\"check\":\"$c\",\"tier\":\"quick\",\"exit\":$rc,\"violation_lines\":$nv},"
done
git -C /repo reset -q --hard HEAD; git -C /repo clean -fdq src
S="/verif/seeded/${ID}_$((K + ${SEED_OFFSET:-0}))"; mkdir -p "$S"
if [ -n "${REGEN:-}" ]; then cp /dev/shm/.applied_patch.diff "$S/patch.diff"; else cp "$P" "$S/patch.diff"; fi; cp "$D" "$S/demo.rs"
python3 - "$M" "$S/meta.json" "$ID" "$ok" "[${results%,}]" "$base_demo" "$suite" "$mut_demo" <<'PY'
import json,sys
src,dst,pid,ok,res,b,s,m=sys.argv[1:9]
try: meta=json.load(open(src))
except Exception: meta={}
meta["property"]=pid
meta["confirmed_by_author_of_checks"]=bool(int(ok))
meta["confirmation"]={"demo_on_unchanged_tree":b,"repository_suite_with_patch":s,"demo_with_patch":m}
meta["checks_run_against_it"]=json.loads(res)
json.dump(meta,open(dst,"w"),indent=1,ensure_ascii=False)
PY
echo "stored in $S"
