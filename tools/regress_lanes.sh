#!/usr/bin/env bash
# tools/regress_lanes.sh [lanes=4]  — author-side regression of EVERY stored seeded change (breaking
# and benign) against its own property's quick check, N lanes in parallel. Each lane works on its
# own copy of this directory and its own git worktree of /repo (both on /dev/shm), so /repo itself
# is never touched; results go to /dev/shm/regress_lanes/lane<k>.log, one line per change.
# Not a registered check: the registered commands always build from /repo's working tree.
set -u
N="${1:-4}"
BASE=/dev/shm/regress_lanes
rm -rf "$BASE"; mkdir -p "$BASE"
cd /verif || exit 2
ITEMS=()
for d in seeded/C*_* seeded/benign/C*_*; do [ -f "$d/patch.diff" ] && ITEMS+=("$d"); done
echo "${#ITEMS[@]} changes, $N lanes"
for k in $(seq 0 $((N-1))); do
  (
    L="$BASE/lane$k"; mkdir -p "$L"
    git -C /repo worktree add -q --detach "$L/repo" HEAD || exit 2
    cp /repo/Cargo.lock "$L/repo/Cargo.lock" 2>/dev/null
    rsync -a --exclude target --exclude seeded --exclude replays --exclude .git /verif/ "$L/verif/"
    sed -i "s#path = \"/repo\"#path = \"$L/repo\"#" "$L/verif/harness/props/Cargo.toml" "$L/verif/harness/hooked/Cargo.toml"
    sed -i "s#target-dir = \"/verif/target\"#target-dir = \"$L/verif/target\"#" "$L/verif/harness/.cargo/config.toml"
    export CARGO_BUILD_JOBS=$((16 / N)) RAYON_NUM_THREADS=$((16 / N + 2)) VERIF_LOCK_HELD=1
    ( cd "$L/verif" && ./check --setup ) > "$L/setup.log" 2>&1 || { echo "lane $k: setup failed"; exit 2; }
    i=0
    for d in "${ITEMS[@]}"; do
      if [ $((i % N)) -eq "$k" ]; then
        n="${d#seeded/}"; b="$(basename "$d")"; id="${b%_*}"
        cd "$L/repo" || exit 2
        git reset -q --hard HEAD; git clean -fdq src
        if ! git apply "/verif/$d/patch.diff" 2>/dev/null; then
          git reset -q --hard HEAD
          patch -p1 -F 3 -s --no-backup-if-mismatch < "/verif/$d/patch.diff" >/dev/null 2>&1 || { git reset -q --hard HEAD; git clean -fdq src; echo "$n vs $id: patch does not apply" >> "$BASE/lane$k.log"; i=$((i+1)); continue; }
        fi
        out=$(cd "$L/verif" && ./check "$id" quick 2>&1); rc=$?
        nv=$(echo "$out" | grep -c "^VIOLATION")
        first=$(echo "$out" | grep -E "^\s+\[(un)?checked|hooked\]|MACHINERY" | head -1 | cut -c1-200)
        echo "$n vs $id: exit=$rc VIOLATION lines=$nv :: $first" >> "$BASE/lane$k.log"
        git reset -q --hard HEAD; git clean -fdq src
      fi
      i=$((i+1))
    done
    git -C /repo worktree remove --force "$L/repo"
    rm -rf "$L"
    echo "lane $k done"
  ) &
done
wait
git -C /repo worktree prune
cat "$BASE"/lane*.log | sort > "$BASE/all.log"
echo "breaking changes not reported:"; grep -v "^benign/" "$BASE/all.log" | grep -v "exit=1"
echo "benign changes reported:"; grep "^benign/" "$BASE/all.log" | grep -v "exit=0"
echo "total $(wc -l < "$BASE/all.log")"
