#!/usr/bin/env bash
# tools/mutate.sh "<IDs space separated>" <file-in-repo> '<python-regex-old>' '<new>'  [tier]
# Applies a one-line mutation to /repo's working tree, runs the repo test suite and the
# named checks, then restores the file. For the author's own detection experiments.
set -u
IDS="$1"; FILE="$2"; OLD="$3"; NEW="$4"; TIER="${5:-quick}"
cd /repo || exit 2
if [ -z "${VERIF_LOCK_HELD:-}" ]; then
  mkdir -p /verif/target
  exec 8>/verif/target/.repo.lock
  flock -x 8
  export VERIF_LOCK_HELD=1
fi
if [ -n "$(git status --porcelain -- src)" ]; then echo "repo dirty"; exit 2; fi
python3 - "$FILE" "$OLD" "$NEW" <<'PY'
import sys,re
f,old,new=sys.argv[1:4]
s=open(f).read()
n=s.count(old)
if n==0: print("MUTATION: pattern not found"); sys.exit(3)
s=s.replace(old,new,1)
open(f,'w').write(s)
print(f"MUTATION applied to {f} ({n} occurrence(s), first replaced)")
PY
[ $? -eq 0 ] || exit 2
echo "--- repo tests:"; cargo test --offline 2>&1 | grep -E "^test result|FAILED|failed|error" | head -5
for id in $IDS; do
  echo "--- check $id $TIER:"; ( cd /verif && ./check $id $TIER 2>&1 | tail -6 ); echo "exit=$?"
done
git -C /repo checkout -- src
