#!/usr/bin/env bash
# tools/apply_seeded.sh <seeded dir name, e.g. C16_3> <check ids...>  [TIER=quick]
# Applies a stored seeded change to /repo, runs the named checks, restores /repo.
set -u
NAME="$1"; shift
P="/verif/seeded/$NAME/patch.diff"
[ -f "$P" ] || { echo "no $P"; exit 2; }
mkdir -p /verif/target
exec 8>/verif/target/.repo.lock; flock -x 8; export VERIF_LOCK_HELD=1
cd /repo || exit 2
[ -z "$(git status --porcelain -- src)" ] || { echo "repo dirty"; exit 2; }
if ! git apply "$P" 2>/dev/null; then
  git reset -q --hard HEAD
  patch -p1 -F 3 -s --no-backup-if-mismatch < "$P" || { git reset -q --hard HEAD; git clean -fdq src; echo "$NAME: patch does not apply"; exit 2; }
fi
for c in "$@"; do
  out=$(cd /verif && ./check "$c" "${TIER:-quick}" 2>&1); rc=$?
  nv=$(echo "$out" | grep -c "^VIOLATION")
  first=$(echo "$out" | grep -E "^\s+\[(un)?checked\]" | head -1 | cut -c1-240)
  echo "$NAME vs $c: exit=$rc VIOLATION lines=$nv :: $first"
done
git -C /repo reset -q --hard HEAD; git -C /repo clean -fdq src
