#!/usr/bin/env bash
# tools/launch_round.sh <ids...> — prepares worktrees + prompts (round >= 2 protocol)
for id in "$@"; do
  /verif/tools/mk_worktree.sh $id >/dev/null
  python3 - $id <<'PY'
import sys,json,glob,os
id=sys.argv[1]; d=f"/tmp/wt_{id}"
tried=[]
for m in sorted(glob.glob(f'/verif/seeded/{id}_*/meta.json')):
    j=json.load(open(m)); tried.append("  - "+(j.get('summary') or '')[:350])
t=open('/verif/tools/'+os.environ.get('MUTANT_PROMPT','mutant_prompt2.txt')).read().replace('__DIR__',d).replace('PROPERTY_TEXT',open(f'{d}/PROPERTY.txt').read().strip()).replace('"ID"',f'"{id}"').replace('ALREADY_TRIED',"\n".join(tried))
open(f'/tmp/prompt_{id}.txt','w').write(t)
PY
done
ls -d /tmp/wt_* | wc -l
