#!/usr/bin/env python3
"""Regenerates /verif/MANIFEST.json from the table below (single source of truth)."""
import json, os, sys
ROOT = os.path.dirname(os.path.dirname(os.path.abspath(__file__)))
props = [json.loads(l) for l in open(os.path.join(ROOT, "properties.jsonl"))]
ids = [p["id"] for p in props]

# id -> (engine, technique, level text, level note, design_ref)
CLAIMED = {}
def claim(pid, engine, technique, text, note, ref):
    CLAIMED[pid] = dict(engine=engine, technique=technique, text=text, note=note, ref=ref)

exec(open(os.path.join(ROOT, "tools", "claims.py")).read())

checks = []
for pid in ids:
    if pid not in CLAIMED:
        continue
    c = CLAIMED[pid]
    checks.append({
        "property_id": pid,
        "quick_cmd": f"./check {pid} quick",
        "thorough_cmd": f"./check {pid} thorough",
        "evidence_file": f"/verif/evidence/{pid}.json",
        "replay_cmd_template": f"./check {pid} --replay {{path}}",
        "engine": c["engine"],
        "level_claimed": {"category": "model_checking", "text": c["text"], "design_ref": c["ref"]},
        "level_note": c["note"],
        "technique": c["technique"],
    })
na = [{"property_id": pid, "reason": NOT_APPLICABLE.get(pid, "check not built yet (work in progress); nothing is claimed for it")}
      for pid in ids if pid not in CLAIMED]
manifest = {
    "version": 1,
    "setup_cmd": "./check --setup",
    "hooks": {
        "guard": "verif-hooks",
        "enable": "cargo feature `verif-hooks` of mila, enabled only by the harness package `hooked` (harness/hooked/Cargo.toml: mila = { path = \"/repo\", features = [\"verif-hooks\"] }) and built with `cargo build -p hooked`; every other harness binary is built with `-p props`, i.e. with the feature off. The feature swaps BinArchive's HashMap for a wrapper whose hasher returns checker-registered values for registered keys (std behaviour for all others) and adds BinArchive::verif_iteration_orders; used by the hooked twins of C02 and C03 to enumerate hash iteration orders instead of sampling them. All other observation goes through mila's public API; panics/aborts/allocation sizes are observed by the harness's own allocator and subprocess isolation.",
        "baseline_off_cmd": "cd /repo && cargo test --workspace --no-fail-fast --offline",
        "source_commits": ["c0c5e26"],
        "add_only": True,
    },
    "engines": ENGINES,
    "checks": checks,
    "not_applicable": na,
    "notes": NOTES,
}
json.dump(manifest, open(os.path.join(ROOT, "MANIFEST.json"), "w"), indent=1, ensure_ascii=False)
print(f"MANIFEST.json: {len(checks)} checks, {len(na)} not_applicable")
