#!/usr/bin/env python3
"""Regenerates /verif/MANIFEST.json from the table below (single source of truth)."""
import json, os, sys
ROOT = os.path.dirname(os.path.dirname(os.path.abspath(__file__)))
props = [json.loads(l) for l in open(os.path.join(ROOT, "properties.jsonl"))]
ids = [p["id"] for p in props]

# id -> (engine, technique, level text, level note, design_ref)
CLAIMED = {}
def claim(pid, engine, technique, text, note, ref):
    CLAIMED[pid] = dict(engine=engine, technique=technique, text=text, note=note, ref=ref)

exec(open(os.path.join(ROOT, "tools", "claims.py")).read())

checks = []
for pid in ids:
    if pid not in CLAIMED:
        continue
    c = CLAIMED[pid]
    checks.append({
        "property_id": pid,
        "quick_cmd": f"./check {pid} quick",
        "thorough_cmd": f"./check {pid} thorough",
        "evidence_file": f"/verif/evidence/{pid}.json",
        "replay_cmd_template": f"./check {pid} --replay {{path}}",
        "engine": c["engine"],
        "level_claimed": {"category": "model_checking", "text": c["text"], "design_ref": c["ref"]},
        "level_note": c["note"],
        "technique": c["technique"],
    })
na = [{"property_id": pid, "reason": NOT_APPLICABLE.get(pid, "check not built yet (work in progress); nothing is claimed for it")}
      for pid in ids if pid not in CLAIMED]
manifest = {
    "version": 1,
    "setup_cmd": "./check --setup",
    "hooks": {
        "guard": "mila_verif",
        "enable": "none needed: no hook exists in /repo; every observation goes through mila's public API, panics/aborts/allocation sizes are observed by the harness's own allocator and subprocess isolation",
        "baseline_off_cmd": "cd /repo && cargo test --workspace --no-fail-fast --offline",
        "source_commits": [],
        "add_only": True,
    },
    "engines": ENGINES,
    "checks": checks,
    "not_applicable": na,
    "notes": NOTES,
}
json.dump(manifest, open(os.path.join(ROOT, "MANIFEST.json"), "w"), indent=1, ensure_ascii=False)
print(f"MANIFEST.json: {len(checks)} checks, {len(na)} not_applicable")
