#!/usr/bin/env python3
"""Prints a markdown table of /verif/seeded/*/meta.json (for DESIGN.md §7)."""
import json, glob, os
rows=[]
for d in sorted(glob.glob('/verif/seeded/C*')):
    m=json.load(open(os.path.join(d,'meta.json')))
    name=os.path.basename(d)
    checks=", ".join(f"{c['check']}:{'CAUGHT' if c['exit']==1 and c['violation_lines']>0 else 'missed'}" for c in m.get('checks_run_against_it',[]))
    re=m.get('recheck_after_strengthening')
    if re:
        checks += " → after strengthening: " + ", ".join(f"{c['check']}:{'CAUGHT' if c['exit']==1 and c['violation_lines']>0 else 'missed'}" for c in re)
    summ=(m.get('summary') or m.get('description') or '')[:150].replace('|','/').replace('\n',' ')
    rows.append(f"| {name} | {summ} | {'yes' if m.get('confirmed_by_author_of_checks') else 'NO'} | {checks} |")
print("| seeded change | what it does | confirmed | quick-tier result |")
print("|---|---|---|---|")
print("\n".join(rows))
