# Table of claimed properties (exec'd by gen_manifest.py).
ENGINES = [
    {"name": "E1-bfs", "path": "harness/core/src/bfs.rs",
     "serves_properties": [],
     "kind_free_text": "explicit-state breadth-first search over the REAL transition function (each transition re-executes mila on a fresh object), level-synchronous and deterministic, canonical-state de-duplication, reference model in lock-step as oracle"},
    {"name": "E2-enumerate", "path": "harness/core/src/tally.rs",
     "serves_properties": [],
     "kind_free_text": "bounded-exhaustive enumeration of an input/configuration family (every member, never sampled) through the real code, judged by independent reference codecs/parsers"},
    {"name": "E3-isolate", "path": "harness/core/src/isolate.rs",
     "serves_properties": [],
     "kind_free_text": "the same enumeration executed in worker subprocesses under a measuring/capping global allocator and a watchdog, so aborts, oversized allocations and non-termination are attributed to one case"},
]
NOTES = ("All checks explore mila itself (no separate abstract model): states/transitions in the evidence are real executions. "
         "Two arithmetic builds (release = unchecked, release+overflow-checks+debug-assertions = checked) are explored where the property or the tier asks for it. "
         "See DESIGN.md.")
NOT_APPLICABLE = {}

claim("C14", "E2-enumerate", "bounded-exhaustive enumeration of localizer x language x path (all paths to depth 4/5 over an 8-component alphabet) against a specification table",
      "Every one of the 6 localizers x 8 languages x all relative paths up to depth 4 (quick) / 5 (thorough) plus degenerate paths is executed and compared with the specification table; exhaustive within that scope, which contains one path per structural case of the mapping (single component, trailing slash, non-ASCII, blank and marker-like components).",
      "Trusted: the specification table in ref_loc.rs (written from the property statement); paths outside the plain-component domain are not judged. The filesystem half is decided under C12/C13.",
      "DESIGN.md §4 C14")
