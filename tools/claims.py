# Table of claimed properties (exec'd by gen_manifest.py).
ENGINES = [
    {"name": "E1-bfs", "path": "harness/core/src/bfs.rs",
     "serves_properties": ["C03", "C04", "C07", "C12", "C13", "C14"],
     "kind_free_text": "explicit-state breadth-first search over the REAL transition function (each transition re-executes mila on a fresh object), level-synchronous and deterministic, canonical-state de-duplication, reference model in lock-step as oracle"},
    {"name": "E2-enumerate", "path": "harness/core/src/tally.rs",
     "serves_properties": ["C01", "C02", "C04", "C06", "C08", "C09", "C10", "C14", "C15", "C16", "C17", "C18", "C19", "C20"],
     "kind_free_text": "bounded-exhaustive enumeration of an input/configuration family (every member, never sampled) through the real code, judged by independent reference codecs/parsers"},
    {"name": "E3-isolate", "path": "harness/core/src/isolate.rs",
     "serves_properties": ["C05", "C09", "C11", "C20"],
     "kind_free_text": "the same enumeration executed in worker subprocesses under a measuring/capping global allocator and a watchdog, so aborts, oversized allocations and non-termination are attributed to one case"},
]
NOTES = ("All checks explore mila itself (no separate abstract model): states/transitions in the evidence are real executions. "
         "Two arithmetic builds (release = unchecked, release+overflow-checks+debug-assertions = checked) are explored where the property or the tier asks for it. "
         "See DESIGN.md.")
NOT_APPLICABLE = {}

claim("C14", "E2-enumerate + E1-bfs", "bounded-exhaustive enumeration of localizer x language x path against a specification table, plus explicit-state exploration of real LayeredFilesystems for every game x language",
      "Every one of the 6 localizers x 8 languages x all relative paths up to depth 4 (quick) / 5 (thorough) plus degenerate paths is executed and compared with the specification table; exhaustive within that scope, which contains one path per structural case of the mapping (single component, trailing slash, non-ASCII, blank and marker-like components).",
      "Trusted: the specification table in ref_loc.rs (written from the property statement); paths outside the plain-component domain are not judged. The filesystem half (localized writes/reads/existence checks/listings address root/localize(p)) is explored on real directories for all 5 games x 8 languages at depth 1-2 in this check and at full depth for two pairs under C12/C13.",
      "DESIGN.md §4 C14")

claim("C08", "E2-enumerate", "bounded-exhaustive input enumeration through the real compressor, output walked token-by-token by an independent LZ10 decoder",
      "All strings over alphabets of 2/3/4 symbols up to length 17/11/8 (quick; 21/13/10 thorough), a structure grid forcing every reference length, window-edge displacements and every flag-group ending, and header-boundary lengths are compressed by mila; each output is validated structurally and expanded by an independent decoder and by the library. Exhaustive within those families.",
      "Trusted: ref_lz.rs (decoder written from the format description). 'Every input shorter than 16 MiB' is covered at length boundaries and by small-scope exhaustion only.",
      "DESIGN.md §4 C08")
claim("C09", "E2-enumerate + E3-isolate", "bounded-exhaustive input enumeration (both arithmetic builds) with subprocess isolation for inputs that may abort",
      "Same families as C08 through LZ13 in the unchecked and the overflow-checked build; the payload after the 0x13 wrapper is validated by an independent LZ11 decoder (all three length forms measured as reached); tiny inputs including the empty one are run in subprocesses so a process abort is attributed to the case.",
      "Trusted: ref_lz.rs. For the empty input Ok or Err are both accepted (statement leaves it open).",
      "DESIGN.md §4 C09")
claim("C10", "E2-enumerate", "bounded-exhaustive enumeration: expansion bound on every family member, effectiveness bound on the full periodic grid",
      "Expansion bound asserted for both codecs on all small-alphabet strings, incompressible inputs of every length 0..=64 and the structure grid; effectiveness bound asserted for periods (all 1..=4096 at the thorough tier) x 2 pattern generators x 9 total lengths, with the bound computed from n and p alone.",
      "Trusted: the bound formulas in ref_lz.rs (copied from the property statement).",
      "DESIGN.md §4 C10")
claim("C11", "E3-isolate", "exhaustive enumeration of token sequences (reference encoder) and of derived corruptions, executed in isolated workers in both builds",
      "From 7 start states all token sequences up to depth 4 (LZ10) / 3-4 (LZ11, every length form incl. lengths mila never emits) over literal + reference(len, disp) are encoded by the reference encoder and decompressed through the 4 entry points; every strict prefix, every reference rewritten to before the start, every other type byte, all byte strings of length <= 2 and a 7-symbol alphabet up to length 5, and the stored form are required to behave as the statement says; panics are located, aborts/timeouts attributed by subprocess isolation. LZ10 streams are also sent behind the 0x13 wrapper (accepted ⇒ exact data; corrupted ⇒ Err, never a panic); LZ11 streams with the 8-byte header expanding to 16, 63, 128.03 and 257 MiB must decode.",
      "Trusted: ref_lz.rs encoder/decoder (self-checked against each other on every case). Inputs the statement does not classify (trailing bytes, LZ11 at the LZ10 entry, overshooting references) are only required not to panic.",
      "DESIGN.md §4 C11")

claim("C01", "E2-enumerate", "bounded-exhaustive enumeration of archive contents x both endiannesses x every conforming layout, three independent oracles",
      "Every archive over data lengths {0,1,3,4,5,8,9,12} (+13,16 thorough), every assignment of {raw pattern, pointer, string, c-string} to each cell, up to two labelled addresses incl. the end address and unaligned ones, both endiannesses (≈0.57M archives quick) is serialized and re-parsed by mila (content compared through the public API), its image validated by a strict reference parser, and the same content is fed to mila's parser in every layout of the conforming family written by the reference writer (≈33M parses quick).",
      "Trusted: ref_bin.rs (content model, reference writer and strict parser written from the format description); encoding_rs as the Shift-JIS codec. Strings come from a small alphabet, data length ≤ 16.",
      "DESIGN.md §4 C01")
claim("C02", "E2-enumerate", "bounded-exhaustive enumeration of contents x ALL call orders x EVERY hash iteration order (forced through the verif-hooks feature and read back), compared with the reference writer's canonical image",
      "Every content of the C01 family without c-strings is built through every permutation of its annotation calls (≤5 calls quick / ≤6 thorough), each in several fresh BinArchive instances; all images must be one and the same and equal the canonical image produced by the independent reference writer; parse→serialize of every canonical image and of the fixture files must be the identity. Hooked twin (mila built with its verif-hooks feature): for 38 868 contents of ≤ 5 cells every permutation of the keys of every annotation map is forced as that map's hash iteration order (3.5 M assignments, up to 8! for tied labels), the realised order is read back, and the image must still be the one canonical image. Plus the tricky-string catalogue, collation-inverted label names, 3..=40 cells x 1..=3 unsorted labels, dense string/data length sweeps and call histories.",
      "Trusted: ref_bin.rs canonical writer; the 143-line verif_hooks.rs wrapper in /repo (std behaviour for unregistered keys). The plain fresh-instance pass (R instances per order) is kept as a hook-free second line and is labelled sampled; the hash-order claim itself is decided by the hooked twin.",
      "DESIGN.md §4 C02, §6")
claim("C03", "E1-bfs", "explicit-state BFS over the real BinArchive API with a lock-step reference model and a rebuilt-from-scratch differential oracle",
      "From 6 initial archives every history up to depth 4 (5 thorough) over ~150 operations per state (allocate/deallocate/truncate with aligned, misaligned, out-of-range and overflowing arguments, both inclusive flags, writer-side allocate, annotation writes/deletes) is executed on a real BinArchive rebuilt for every transition; after each call acceptance, every observable, the re-parsed serialized image (which exposes pending c-strings) and equality with the image of the same content built from scratch are compared with the model. States are de-duplicated on the full content.",
      "Trusted: ref_bin.rs edit semantics (transcribed from the property statement). Archives above S_max=16/20 bytes are not expanded; the full alphabet is used below depth 3, relocation operations only at the last level. Medium archives (7..130 pointer cells + 6 records) are searched over the relocation operations at every cell to depth 1-2; a 10-step script runs on a 70 000-byte archive.",
      "DESIGN.md §4 C03")

claim("C04", "E2-enumerate + E1-bfs", "exhaustive accessor grid (sizes x endians x accessors x boundary addresses/lengths x value sets) plus explicit-state BFS over reader/writer cursor interleavings, both arithmetic builds",
      "Grid: every typed, byte-range and annotation accessor at every address in 0..=size+2 and around 2^31, 2^32, isize::MAX and usize::MAX, lengths up to usize::MAX, all 256/65 536 values and NaN payloads, sizes 0..=9, both endiannesses, judged by u128 range arithmetic and an endian encode/decode oracle (≈10M cases per build). Cursor semantics: BFS to depth 4/5 over (archive, reader cursor, writer cursor) with every stream operation, seek/skip and interleaved positional calls compared against the positional model. Long-lived streams: ONE reader and ONE writer kept across every sequence of ≤3 (4) accesses from 11 operations, from every start position 0..=202 of a 200-byte archive and around every power of two and the end of a 70 000-byte archive; read_bytes counts around 2^16, 2^20, 2^24 on a 17 MiB archive.",
      "Trusted: the range/endianness oracle in c04.rs. Zero-length accesses and label accessors on the last three addresses are outside the statement (no-panic only).",
      "DESIGN.md §4 C04")

claim("C06", "E2-enumerate", "bounded-exhaustive enumeration of archives (titles x key lists x messages), all message strings over a 10-symbol alphabet, and a complete single-character sweep of the encoding domain",
      "4 format/endian configs x 6 titles x all ordered lists of ≤3 distinct keys x message assignments; ALL strings of ≤5 (6 thorough) symbols over an alphabet with BOM-like, astral, newline and backslash units as a middle message; every Unicode scalar / every Shift-JIS-lossless code point as c, xc, cx (≈3.6M archives quick). Each is serialized and read back by mila and by an independent image reader that checks record alignment, label=key, terminators and padding.",
      "Trusted: ref_text.rs image reader, ref_bin.rs parser, encoding_rs as codec. Messages with a literal backslash-n cannot be stored through set_message and are skipped.",
      "DESIGN.md §4 C06")
claim("C07", "E1-bfs", "explicit-state BFS over the real TextArchive to the fixpoint with a lock-step reference map",
      "The complete reachable state space (≈14.6k states, ≈495k transitions) of set_message/delete_message/set_title over 3 keys x 10 escape-heavy messages x 2 titles, and over 2 keys x a 14-message text alphabet (characters outside Shift-JIS, leading/trailing U+FEFF, CR, tab, astral, trail-byte-backslash characters) in both formats, from a new and a parsed archive is explored; every transition is executed on a fresh real object and all observers (order, has/get, title, dirty flag, set-back-what-you-got, serialize→parse order/cleanliness) are compared with an insertion-ordered reference map.",
      "Trusted: ref_text.rs escape/unescape model (from the statement). Key and message alphabets are small and fixed. Dirty flag: clear when pristine, set once any set_message was made, unconstrained after only deletes/title changes (the statement says no more).",
      "DESIGN.md §4 C07")

claim("C15", "E2-enumerate", "bounded-exhaustive enumeration of ordered file maps x conforming re-arrangements, strict reference reader of the image",
      "All 13 089 ordered maps of ≤3 files over 4 names (incl. empty and non-ASCII) x 8 lengths around multiples of 32, plus archives of 255/256/4096 (65 535 thorough) files: build→parse identity, image validated by an independent reader (count, names, offsets, sizes, 32-byte alignment) and mila's parser run on all 16 re-arrangements of each image written by the reference builder.",
      "Trusted: ref_pack.rs builder/reader. File contents are position-dependent byte patterns.",
      "DESIGN.md §4 C15")
claim("C16", "E2-enumerate", "bounded-exhaustive enumeration of arc images over file sets x all record orders x all body placements x header variants, plus a planted-error family, both arithmetic builds",
      "Every image over ≤3 files with lengths {0,1,3,4,5,32}, padded/un-padded, tables before/after bodies, all record permutations x all body permutations is extracted and compared entry by entry; for each, images lacking a label, a name, or with size/offset pushed past the data region or wrapping a 32-bit sum must be rejected in both builds.",
      "Trusted: ref_pack.rs arc builder on top of the reference bin-archive writer.",
      "DESIGN.md §4 C16")

claim("C05", "E3-isolate", "deviation-bounded exhaustive enumeration (all single deviations of 38 conforming seeds incl. every ordered pair of aligned words copied one over the other, + header grids) executed in isolated workers under a measuring/capping allocator and watchdog, both arithmetic builds",
      "Every seed file x each of its entry points x every single planted deviation (each 4-byte word at every offset set to each of 28 boundary values in both byte orders, each byte to 5 values, every truncation, appends) and all 32-byte files over a 12^4 (28^4 thorough) header-word grid for the 9 bin-archive entry points, all ≤2-byte buffers and all 65 536 'pack'+count headers: ≈2.5M cases per build. Oracle per case: Ok/Err only (panics located, aborts and hangs attributed through subprocess isolation), no single allocation above 1 MiB + 64 x input, over-declaring headers/entries rejected (decided by the reference parser), accepted values re-serialize without panicking.",
      "Trusted: ref_bin.rs header arithmetic, the capping allocator, the seeds (fixtures + files from the reference writers and from mila's own serializers). Deviation bound 1 is completed at the quick tier; 'all byte strings' is not claimed beyond that neighbourhood.",
      "DESIGN.md §4 C05")

claim("C17", "E2-enumerate", "bounded-exhaustive enumeration of animation-set values (all ≤2-present / ≤2-absent slot patterns, group patterns, set lists) with field-wise, size and byte-stability oracles",
      "≈675k files (quick): 4 metas x 8 clip tables x all sequences of ≤3 sets from six shapes; every slot pattern with ≤2 present or ≤2 absent slots (x labels x naming schemes x embeddings), one-group patterns over boundary bits, whole-group patterns. Oracles: field-wise equality after serialize→from_bytes→from_archive, data size formula through the strict reference parser (absent slots cost nothing, empty groups omitted), re-serialization byte-identical.",
      "Trusted: ref_bin.rs parser; generator strings are checked Shift-JIS-lossless at start-up.",
      "DESIGN.md §4 C17")
claim("C18", "E2-enumerate", "bounded-exhaustive enumeration of asset-binary values (all ≤2-set / ≤2-clear presence patterns, per-flag-byte combinations, spec lists) with field-wise, record-walk and byte-stability oracles",
      "≈1.9M files (quick): 5 052 presence patterns over the 51 optional fields x names x value variants (unique per field, NaN payloads, byte-distinct colours) x embeddings x header words, plus all sequences of ≤3 specs from six shapes incl. the all-absent unnamed spec in last position. Oracles: field-wise equality incl. presence flags (f32 by bits), record walk of the image (short form iff no extended field, record extent = what its flags announce), re-serialization byte-identical.",
      "Trusted: ref_bin.rs parser and the Appendix-A bit assignment used by the record walk. 0 or 4 bytes may follow the last record.",
      "DESIGN.md §4 C18")

claim("C12", "E1-bfs", "explicit-state BFS over real directories (fresh scratch tree per transition) with a top-down layer model; observers once per distinct state",
      "For FE10/German and FE14/EnglishNA x 10 layer configurations (2-4 layers: typed-files layer + {empty, file, files+nested, empty dir, nested+compressed, directory-where-a-file-is-written, localized location}) every history up to depth 3 (4 thorough) over 24 calls (write with 2-4 payloads incl. empty/compressible/incompressible on 4 paths incl. the compressed suffix, localized and not, create_dir, write_archive, write_text_archive) is executed on a real LayeredFilesystem; after each call every layer is re-read by an independent walker (lower layers byte-identical, top = model, stored compressed files valid per the reference decoder) and in each distinct state read/exists/file_exists/directory_exists/resolve and the typed helpers are compared with the model. A shallow pass covers all 5 games x 8 languages; unsupported games / no layers at the constructor.",
      "Trusted: the layer model in fsx.rs, ref_loc.rs, ref_lz.rs; typed pack/arc helpers are compared with mila's own codec applied to read() (differential). Texture helpers are covered under C20's containers only.",
      "DESIGN.md §4 C12")
claim("C13", "E1-bfs", "same explicit-state BFS over real directories; listing observers in every distinct state against an independent walker/matcher",
      "In each of the ≈28k (quick) distinct states of the C12 exploration: list(dir, glob, localized) for 7 directories (root, nested, trailing slash, missing, a file) x 5 globs x localized/unlocalized and subdirectories() must equal the sorted de-duplicated union computed from the layer trees by an independent matcher; every listed path must exist(); a localized listing must equal the unlocalized listing of the localized directory.",
      "Trusted: the glob family semantics implemented in fsx.rs (None/**/*, *, *.bin, **/*.txt), the read_dir walker.",
      "DESIGN.md §4 C12/C13")

claim("C19", "E2-enumerate", "bounded-exhaustive enumeration of pixel positions, pixel values and ETC1 block parameters against independent reference decoders, both arithmetic builds with a direct cross-build comparison",
      "Position: every format x sizes with index-revealing payloads decides the Morton tile walk / ETC block order for every pixel. Value: all 65 536 values of every 16-bit format and of RGB5A3, all 256 of the 8-bit ones. ETC1/ETC1A4: all 256 (mode, flip, table1, table2) x all base pairs / all defined base-delta pairs per channel x 20 selector planes (3.8M blocks, three observation routes), undefined sums only for no-panic and build equality. CI8 palettes at every w x h in 1..=17 (64 thorough). ≈11.9M cases per build; 437k outputs compared between the builds.",
      "Trusted: ref_pix.rs (written from the hardware/Khronos definitions), ref_tex.rs CTPK builder used to reach the private decoder. Tolerance rule for non-ETC channels is the literal '≤ one quantisation step'.",
      "DESIGN.md §4 C19")
claim("C20", "E2-enumerate + E3-isolate", "bounded-exhaustive enumeration of texture lists x container layout families read back through mila; every strict prefix of generated files swept in isolated workers; both builds",
      "325 3DS / 55 TPL texture lists (every pool texture alone, covering lists up to 3 textures; 6 thorough) packed into every layout of CTPK (192), BCH (768, four compat bytes), CGFX (256 forward) and TPL (192): ≈406k files per build must return the same count, order, names, dimensions and pixels (= reference decoding of each texture's own payload). 18.6k wrong-magic files must be rejected. All 3.6M strict prefixes of 2 438 files are parsed under subprocess isolation: never a panic/abort, Err whenever the cut removes payload bytes.",
      "Trusted: ref_tex.rs builders (field offsets from DESIGN Appendix A — a misreading shared with the parsers would go unnoticed), ref_pix.rs. CGFX backward self-relative offsets are exercised in the unchecked build only and recorded as an observation.",
      "DESIGN.md §4 C20")
